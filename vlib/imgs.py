"""Image generators and reference labellers for the image-kernel checks (harness side)."""
import numpy as np
from scipy import ndimage

S8 = np.ones((3, 3), int)
S4 = np.array([[0, 1, 0], [1, 1, 1], [0, 1, 0]])


def canon(labels):
    """canonical relabelling by first occurrence in raster order (0 stays 0)"""
    flat = np.asarray(labels).ravel()
    out = np.zeros(flat.shape, np.int64)
    nz = flat != 0
    if nz.any():
        vals, first = np.unique(flat[nz], return_index=True)
        order = np.argsort(first)
        rank = np.empty(len(vals), np.int64)
        rank[order] = np.arange(1, len(vals) + 1)
        out[nz] = rank[np.searchsorted(vals, flat[nz])]
    return out.reshape(np.shape(labels))


def ref_label(mask, con8=True):
    lab, n = ndimage.label(mask, structure=S8 if con8 else S4)
    return lab, n


def bfs_label(mask, con8=True):
    """independent of scipy: plain BFS"""
    ns, nf = mask.shape
    lab = np.zeros(mask.shape, np.int64)
    n = 0
    nb = [(-1, -1), (-1, 0), (-1, 1), (0, -1), (0, 1), (1, -1), (1, 0), (1, 1)] if con8 else \
        [(-1, 0), (0, -1), (0, 1), (1, 0)]
    for i in range(ns):
        for j in range(nf):
            if mask[i, j] and lab[i, j] == 0:
                n += 1
                lab[i, j] = n
                stack = [(i, j)]
                while stack:
                    a, b = stack.pop()
                    for da, db in nb:
                        c, d = a + da, b + db
                        if 0 <= c < ns and 0 <= d < nf and mask[c, d] and lab[c, d] == 0:
                            lab[c, d] = n
                            stack.append((c, d))
    return lab, n


def spiral(n):
    """one-pixel wide square spiral with one-pixel gaps: a single very long component"""
    m = np.zeros((n, n), bool)
    i, j = 0, 0
    di, dj = 0, 1
    m[0, 0] = True
    steps = 0
    while steps < 4 * n * n:
        steps += 1
        a, b = i + di, j + dj
        a2, b2 = i + 2 * di, j + 2 * dj
        blocked = not (0 <= a < n and 0 <= b < n) or m[a, b] or \
            (0 <= a2 < n and 0 <= b2 < n and m[a2, b2])
        if blocked:
            di, dj = dj, -di          # turn right
            a, b = i + di, j + dj
            a2, b2 = i + 2 * di, j + 2 * dj
            if not (0 <= a < n and 0 <= b < n) or m[a, b] or (0 <= a2 < n and 0 <= b2 < n and m[a2, b2]):
                break
        i, j = a, b
        m[i, j] = True
    return m


def gen_mask(r, shape, kind):
    ns, nf = shape
    if kind == "empty":
        return np.zeros(shape, bool)
    if kind == "full":
        return np.ones(shape, bool)
    if kind == "bernoulli":
        p = float(r.choice([0.05, 0.2, 0.4, 0.5, 0.6, 0.8, 0.95]))
        return r.random(shape) < p
    if kind == "checker":
        ii, jj = np.indices(shape)
        return (ii + jj) % 2 == 0
    if kind == "comb":
        m = np.zeros(shape, bool)
        m[:, ::2] = True
        m[-1, :] = True      # teeth joined only at the last row: long union chains
        return m
    if kind == "ucomb":
        m = np.zeros(shape, bool)
        m[:, ::2] = True
        m[0, :] = False
        m[-1, :] = True
        m[:-1, 1::4] = False
        return m
    if kind == "diag":
        ii, jj = np.indices(shape)
        return ((ii - jj) % 3 == 0) | ((ii + jj) % 7 == 0)
    if kind == "vee":
        # V shapes: two arms that only meet at the bottom row -> labels merged late
        ii, jj = np.indices(shape)
        return (np.abs(jj - nf // 2) == (ns - 1 - ii) % max(nf // 2, 1)) | (ii == ns - 1)
    if kind == "spiral":
        n = min(ns, nf)
        m = np.zeros(shape, bool)
        m[:n, :n] = spiral(n)
        return m
    if kind == "blobs":
        m = np.zeros(shape, bool)
        for _ in range(int(r.integers(1, 12))):
            ci, cj = r.integers(0, ns), r.integers(0, nf)
            ri, rj = r.integers(1, max(2, ns // 3)), r.integers(1, max(2, nf // 3))
            ii, jj = np.indices(shape)
            m |= ((ii - ci) / ri) ** 2 + ((jj - cj) / rj) ** 2 <= 1
        return m
    if kind == "border":
        m = np.zeros(shape, bool)
        m[0, :] = m[-1, :] = True
        m[:, 0] = m[:, -1] = True
        return m
    raise ValueError(kind)


MASK_KINDS = ["bernoulli", "blobs", "bernoulli", "checker", "bernoulli", "comb", "blobs", "ucomb", "bernoulli", "diag",
              "vee", "bernoulli", "spiral", "empty", "blobs", "full", "border", "bernoulli"]


def image_from_mask(r, mask, threshold, equal_to_threshold=True):
    """float32 image: distinct random integer intensities above threshold on the mask, values <= threshold
    elsewhere (some exactly equal to the threshold)"""
    shape = mask.shape
    hi = r.permutation(mask.size).reshape(shape).astype(np.float32) + np.float32(threshold) + 1
    lo = np.float32(threshold) - r.integers(0, 5, shape).astype(np.float32)
    if not equal_to_threshold:
        lo -= 1
    return np.where(mask, hi, lo).astype(np.float32)


def write_sparse_scan(path, frames, scan="1.1", omega=None):
    """write a sparse segmentation file as ImageD11.sparseframe.SparseScan reads it.
    frames: list of (mask, image) 2-D arrays of one shape.  returns list of (row, col, intensity) per frame"""
    import h5py
    rows, cols, vals, nnz, per = [], [], [], [], []
    for m, img in frames:
        i, j = np.nonzero(m)
        rows.append(i.astype(np.uint16))
        cols.append(j.astype(np.uint16))
        vals.append(img[i, j].astype(np.float32))
        nnz.append(len(i))
        per.append((i.astype(np.uint16), j.astype(np.uint16), img[i, j].astype(np.float32)))
    with h5py.File(path, "w") as h:
        g = h.create_group(scan)
        g.attrs["nframes"] = len(frames)
        g.attrs["shape0"] = frames[0][0].shape[0]
        g.attrs["shape1"] = frames[0][0].shape[1]
        g["nnz"] = np.array(nnz, np.int32)
        g["row"] = np.concatenate(rows) if rows else np.zeros(0, np.uint16)
        g["col"] = np.concatenate(cols) if cols else np.zeros(0, np.uint16)
        g["intensity"] = np.concatenate(vals) if vals else np.zeros(0, np.float32)
        if omega is not None:
            g.create_group("measurement")["rot"] = np.asarray(omega, float)
    return per
