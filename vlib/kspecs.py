"""Per-kernel, precondition-respecting call generators for the compiled kernels (C20).

Each generator returns a list of call specs:
   dict(fn=<exported C name>, res=<'int'|'double'|None>, args=[...], pre=<documented preconditions>[, cls=<input class tag>])
(cls tags are counted per layer by vlib/kworker.py; vlib/checks/c20.py lists the classes that must have been driven.)
The argument list is in C call order, which is also the order of the .pyf block: the f2py layer relies on that.
Case dimensions are either stratified on the round number k with pairwise coprime periods or drawn from the case's own
generator r = rng(seed, "C20", layer, round, generator index), so every case is reproducible from (seed, layer, round).
An argument is a python int -> C int, ('f', x) -> float, ('d', x) -> double, or a Buf.
Buf roles:
   in      kernel may only read it
   out     kernel output; with full=True every byte is promised defined on return
   inout   read and written
   scratch work space: may be read only after the kernel has written it
The preconditions written next to each generator are the *documented* ones (from the !DOC blocks, the .pyf
dimension declarations and the Python callers); ill-formed calls are out of scope.
"""
import re, os
import numpy as np
from .common import REPO


class Buf(object):
    def __init__(self, arr, role, full=False, name=""):
        self.arr = np.ascontiguousarray(arr)
        self.role = role
        self.full = full
        self.name = name


def IN(a, name=""):
    return Buf(a, "in", name=name)


def OUT(shape, dtype, full=True, name=""):
    return Buf(np.zeros(shape, dtype), "out", full=full, name=name)


def INOUT(a, name=""):
    return Buf(a, "inout", name=name)


def SCRATCH(shape, dtype, name=""):
    return Buf(np.zeros(shape, dtype), "scratch", name=name)


def nproperty():
    txt = open(os.path.join(REPO, "src", "blobs.h")).read()
    m = re.search(r"enum\s*\{(.*?)NPROPERTY\b", txt, re.S)
    body = re.sub(r"/\*.*?\*/", "", m.group(1), flags=re.S)
    names = [x.strip().split("=")[0].strip() for x in body.split(",") if x.strip()]
    return len(names), {n: i for i, n in enumerate(names)}


NPROP, PROPIDX = nproperty()
NPROP2D = 11

SHAPES = [(2, 2), (2, 3), (3, 2), (2, 9), (9, 2), (3, 3), (4, 7), (8, 8), (17, 5), (31, 33), (64, 64)]
# extreme aspect ratios / row lengths around the OpenMP chunk and simd widths; drawn from the case rng (never stratified on the
# round number) so that they are independent of every other case dimension
ASPECT = [(2, 700), (700, 2), (3, 257), (129, 5), (2, 4099), (1367, 3)]


def pick(r, seq):
    """one element of seq drawn from the case's own generator (reproducible from (seed, mode, round, generator))"""
    return seq[int(r.integers(len(seq)))]


def img_f32(r, shape, kind):
    if kind == "zeros":
        return np.zeros(shape, np.float32)
    if kind == "full":
        return (r.random(shape) * 100 + 10).astype(np.float32)
    if kind == "checker":
        ii, jj = np.indices(shape)
        return np.where((ii + jj) % 2 == 0, 20.0, 0.0).astype(np.float32)
    if kind == "border":
        a = np.zeros(shape, np.float32)
        a[0, :] = a[-1, :] = 30
        a[:, 0] = a[:, -1] = 30
        return a
    if kind == "isolated":
        # every pixel at (even row, even column): no two are neighbours even with 8-connectivity
        a = np.zeros(shape, np.float32)
        a[::2, ::2] = 20
        return a
    if kind == "plateau":
        # few distinct levels: many exactly equal neighbours
        return (r.integers(0, 3, shape) * 10).astype(np.float32)
    if kind == "constant":
        return np.full(shape, 7.0, np.float32)
    return np.where(r.random(shape) < r.choice([0.1, 0.5, 0.9]), r.random(shape) * 100 + 10, 0).astype(np.float32)


KINDS = ["bernoulli", "zeros", "full", "checker", "border", "bernoulli"]
KINDS5 = ["bernoulli", "zeros", "full", "checker", "border"]


def sparse_pattern(r, shape, kind):
    """sorted coo pattern honouring: empty rows, first/last row+col occupied, single pixel, nnz 0"""
    ns, nf = shape
    if kind == "nnz0":
        m = np.zeros(shape, bool)
    elif kind == "nnz1":
        m = np.zeros(shape, bool)
        m[int(r.integers(ns)), int(r.integers(nf))] = True
    elif kind == "corners":
        m = np.zeros(shape, bool)
        m[0, 0] = m[0, -1] = m[-1, 0] = m[-1, -1] = True
    elif kind == "emptyrows":
        m = r.random(shape) < 0.5
        m[::2] = False
    elif kind == "full":
        m = np.ones(shape, bool)
    else:
        m = r.random(shape) < r.choice([0.1, 0.5, 0.9])
    i, j = np.nonzero(m)
    return i.astype(np.uint16), j.astype(np.uint16), m


SPK = ["bernoulli", "nnz0", "nnz1", "corners", "emptyrows", "full", "bernoulli"]


def g_connectedpixels(r, k):
    def call(img, thr, verbose, con8, cls):
        sh = img.shape
        return dict(fn="v_connectedpixels", res="int", cls=cls,
                    args=[IN(img, "data"), OUT(sh, np.int32, name="labels"), ("f", float(thr)), int(verbose), int(con8), sh[0], sh[1]],
                    pre="ns,nf >= 2; labels has ns*nf entries")
    calls = []
    # (1) stratified: (connectivity, content) walks through all 10 combinations every 10 rounds (k%2 and (k//2)%5 are
    #     independent), the boundary shape list has period 11 (coprime): nothing is aliased with anything else
    shape = SHAPES[k % len(SHAPES)]
    con8, kind = k % 2, KINDS5[(k // 2) % 5]
    calls.append(call(img_f32(r, shape, kind), 5.0, 0, con8, "cp:%s:con%d" % (kind, 8 if con8 else 4)))
    # (2) everything drawn from the case rng: shape (boundary list + extreme aspect ratios), content, connectivity,
    #     threshold (0 and -1: also the zero pixels are above threshold); verbose=1 every fifth round
    shape = pick(r, SHAPES + ASPECT[:4])
    kind, con8 = pick(r, KINDS5 + ["plateau", "isolated"]), int(r.integers(2))
    thr, verbose = pick(r, [5.0, 5.0, 0.0, -1.0, 25.0]), int(k % 5 == 1)
    calls.append(call(img_f32(r, shape, kind), thr, verbose, con8,
                      "cp:rand:%s:con%d%s" % (kind, 8 if con8 else 4, ":verbose" if verbose else "")))
    # (3) disjoint-set capacity: dset_initialise(16384) must grow by realloc (blobs.c dset_new)
    #     k%23==7 : 4-connected 260x260 checkerboard = 33800 provisional labels (two doublings)
    #     k%23==3 : 8-connected 264x264 isolated pixels = 17424 provisional labels (one doubling, 8-connected branches)
    if k % 23 == 7:
        calls.append(call(img_f32(r, (260, 260), "checker"), 5.0, 0, 0, "cp:capacity:con4"))
    if k % 23 == 3:
        calls.append(call(img_f32(r, (264, 264), "isolated"), 5.0, 0, 1, "cp:capacity:con8"))
    # (4) the label set must be allowed to grow (and move) at EVERY place a new label is made: all provisional labels of
    #     these frames are created at one site - first pixel of a row, last pixel of a row, a middle pixel, or the first row
    site = ("col0", "lastcol", "middle", "firstrow")[k % 4]
    m = 16500 + int(r.integers(0, 40))
    if site == "firstrow":
        img = np.zeros((2, 2 * m), np.float32)
        img[0, ::2] = 10.0
    else:
        img = np.zeros((2 * m, 3), np.float32)
        img[::2, {"col0": 0, "middle": 1, "lastcol": 2}[site]] = 10.0
    calls.append(call(img, 5.0, 0, int(r.integers(2)), "cp:growth:" + site))
    return calls


def _labels(r, shape, kind):
    from scipy import ndimage
    img = img_f32(r, shape, kind)
    lab, n = ndimage.label(img > 5, structure=np.ones((3, 3)))
    return img, lab.astype(np.int32), int(n)


def g_blobproperties(r, k):
    shape = SHAPES[k % len(SHAPES)]
    img, lab, n = _labels(r, shape, KINDS[k % len(KINDS)])
    calls = [dict(fn="blobproperties", res=None,
                  args=[IN(img, "data"), IN(lab, "labels"), n, ("f", 1.5), 0, shape[0], shape[1],
                        OUT((max(n, 0), NPROP), np.float64, name="results")],
                  pre="labels in 0..np; results has np*NPROPERTY entries")]
    return calls


def _props(img, lab, n, omega):
    res = np.zeros((n, NPROP))
    res[:, PROPIDX["bb_mn_f"]] = img.shape[1] + 1
    res[:, PROPIDX["bb_mn_s"]] = img.shape[0] + 1
    res[:, PROPIDX["bb_mx_f"]] = -1
    res[:, PROPIDX["bb_mx_s"]] = -1
    res[:, PROPIDX["bb_mx_o"]] = omega
    res[:, PROPIDX["bb_mn_o"]] = omega
    for (i, j), l in np.ndenumerate(lab):
        if l > 0:
            b = res[l - 1]
            v = float(img[i, j])
            b[PROPIDX["s_1"]] += 1
            b[PROPIDX["s_I"]] += v
            if v > b[PROPIDX["mx_I"]]:
                b[PROPIDX["mx_I"]] = v
            for nm, val in (("bb_mx_f", j), ("bb_mx_s", i)):
                b[PROPIDX[nm]] = max(b[PROPIDX[nm]], val)
            for nm, val in (("bb_mn_f", j), ("bb_mn_s", i)):
                b[PROPIDX[nm]] = min(b[PROPIDX[nm]], val)
    return res


def g_bloboverlaps(r, k):
    shape = SHAPES[k % len(SHAPES)]
    if shape[0] * shape[1] > 400:
        shape = (12, 15)
    k1 = KINDS[k % len(KINDS)]
    k2 = KINDS[(k + 1) % len(KINDS)]
    if k % 4 == 3:
        # second call dimension from the case rng; "zeros" gives a frame without peaks (n1 or n2 == 0): bloboverlaps
        # and blob_moments are exported to users, not only reached through labelimage.mergelast
        k1, k2 = pick(r, KINDS5), pick(r, KINDS5)
    img1, l1, n1 = _labels(r, shape, k1)
    img2, l2, n2 = _labels(r, shape, k2)
    res1, res2 = _props(img1, l1, n1, 0.0), _props(img2, l2, n2, 1.0)
    cls = "bloboverlaps:" + ("nopeaks" if (n1 == 0 or n2 == 0) else "peaks")
    return [dict(fn="bloboverlaps", res="int", cls=cls,
                 args=[INOUT(l1, "labels1"), n1, INOUT(res1, "results1"), INOUT(l2, "labels2"), n2, INOUT(res2, "results2"),
                       0, shape[0], shape[1]],
                 pre="labels1 in 0..n1, labels2 in 0..n2, n1,n2 >= 0; results from blobproperties (n*NPROPERTY entries)"),
            dict(fn="blob_moments", res=None, cls="blob_moments:np%s" % ("0" if n1 == 0 else "+"),
                 args=[INOUT(res1.copy(), "results"), n1], pre="results from blobproperties; np >= 0")]


def g_clean_mask(r, k):
    shape = SHAPES[k % len(SHAPES)]
    msk = (img_f32(r, shape, KINDS[k % len(KINDS)]) > 5).astype(np.int8)
    img = img_f32(r, shape, KINDS[(k + 2) % len(KINDS)])
    return [dict(fn="clean_mask", res="int", args=[IN(msk, "msk"), OUT(shape, np.int8, name="ret"), shape[0], shape[1]],
                 pre="ns,nf >= 2"),
            dict(fn="make_clean_mask", res="int",
                 args=[IN(img, "img"), ("f", 5.0), OUT(shape, np.int8, name="msk"), OUT(shape, np.int8, name="ret"),
                       shape[0], shape[1]], pre="ns,nf >= 2")]


LML_SHAPES = [(3, 3), (3, 4), (4, 3), (3, 17), (17, 3), (5, 5), (16, 16), (33, 31), (64, 64),
              (2, 2), (2, 3), (3, 2), (2, 9), (9, 2)]
LML_KINDS = ["random", "plateau", "constant", "zeros", "bernoulli"]      # 5 kinds x 14 shapes: coprime periods


def g_localmaxlabel(r, k):
    # the C code documents no minimum size; the statement says "from 2x2": 2xN / Nx2 have an empty main loop and consist
    # of border only.  Content: non-tied floats, plateaus of exactly equal neighbours, constant and all-zero images
    # (ties are resolved towards the earlier candidate, so the uphill walk must still terminate inside the image)
    shape = LML_SHAPES[k % len(LML_SHAPES)]
    kind = LML_KINDS[k % len(LML_KINDS)]
    if min(shape) > 2 and r.random() < 0.15:
        shape = pick(r, ASPECT[:4])
    img = (r.random(shape) * 100).astype(np.float32) if kind == "random" else img_f32(r, shape, kind)
    return [dict(fn="localmaxlabel", res="int", cls="lml:%s:%s" % (kind, "thin" if min(shape) == 2 else "ge3"),
                 args=[IN(img, "data"), OUT(shape, np.int32, name="labels"), OUT(shape, np.uint8, name="wrk"),
                       shape[0], shape[1]], pre="ns,nf >= 2")]


# largest coordinate used: mask_to_coo documents ns,nf <= 65535, i.e. row/column indices up to 65534
COORD_TOPS = [2047, 4095, 65534]


def coord_offset(r, n):
    """offset that moves a pattern of extent n so that its last row (column) is a detector-size coordinate"""
    return int(pick(r, COORD_TOPS)) - (n - 1)


def g_sparse(r, k):
    shape = SHAPES[k % len(SHAPES)]
    kind = SPK[k % len(SPK)]
    capacity = (k % 23 == 11)
    if capacity:
        # > 16384 provisional labels in sparse_connectedpixels / _splat (dset_initialise(16384) must grow):
        # 150*150 = 22500 mutually isolated pixels
        shape = (300, 300)
        m = np.zeros(shape, bool)
        m[::2, ::2] = True
        i, j = [a.astype(np.uint16) for a in np.nonzero(m)]
    else:
        i, j, m = sparse_pattern(r, shape, kind)
    nnz = len(i)
    vkind = "capacity" if capacity else ["random", "plateau", "random", "equal"][k % 4]     # periods 4, 7 (pattern), 11 (shape)
    if vkind == "random":
        v = (r.random(nnz) * 100 + 1).astype(np.float32)
        v[r.random(nnz) < 0.2] = 0.0
        if nnz:
            v[int(r.integers(nnz))] = 0.0       # at least one pixel at or below the threshold: a label 0 exists
    elif vkind == "plateau":
        v = r.integers(0, 3, nnz).astype(np.float32)          # ties everywhere, a third below the threshold
    else:
        v = np.full(nnz, 9.0, np.float32)
    # dense picture of the thresholded pattern at its small origin: independent labels for the 2D properties
    from scipy import ndimage
    above = np.zeros(shape, bool)
    above[i, j] = v > 0.5
    lab, n = ndimage.label(above, structure=np.ones((3, 3)))
    lb = lab[i, j].astype(np.int32)            # 0 for the pixels at or below the threshold ("labels in 0..npk")
    # detector-size coordinates: translate the pattern (keeps it sorted); cost of the sparse kernels depends on nnz only
    oi = oj = 0
    if not capacity and nnz and k % 5 in (1, 3):
        oi, oj = pick(r, [0, coord_offset(r, shape[0])]), pick(r, [0, coord_offset(r, shape[1])])
        if oi == 0 and oj == 0:
            oi = coord_offset(r, shape[0])
        # the last legal coordinate on one axis, deterministically (products of two coordinates exceed 2^31 from 46341)
        if k % 10 == 1:
            oj = COORD_TOPS[-1] - (shape[1] - 1)
        elif k % 10 == 3:
            oi = COORD_TOPS[-1] - (shape[0] - 1)
    big = bool(oi or oj)
    i, j = (i.astype(np.int64) + oi).astype(np.uint16), (j.astype(np.int64) + oj).astype(np.uint16)
    ni, nj = shape[0] + oi, shape[1] + oj
    tag = "sparse:%s" % ("capacity" if capacity else ("bigcoord" if big else "small"))
    calls = []
    calls.append(dict(fn="sparse_is_sorted", res="int", cls=tag, args=[IN(i, "i"), IN(j, "j"), nnz], pre="none"))
    calls.append(dict(fn="sparse_connectedpixels", res="int", cls=tag,
                      args=[IN(v, "v"), IN(i, "i"), IN(j, "j"), nnz, ("f", 0.5), OUT(nnz, np.int32, name="labels")],
                      pre="i,j sorted row-major without duplicates"))
    zs = (ni + 2) * (nj + 2)
    if zs <= 5000000:
        calls.append(dict(fn="sparse_connectedpixels_splat", res="int", cls=tag,
                          args=[IN(v, "v"), IN(i, "i"), IN(j, "j"), nnz, ("f", 0.5), OUT(nnz, np.int32, full=False, name="labels"),
                                SCRATCH(zs, np.int32, name="Z"), ni, nj],
                          pre="sorted; Z has (ni+2)*(nj+2) entries; i < ni, j < nj"))
    calls.append(dict(fn="sparse_smooth", res=None, cls=tag,
                      args=[IN(v, "v"), IN(i, "i"), IN(j, "j"), nnz, OUT(nnz, np.float32, name="s")], pre="sorted"))
    calls.append(dict(fn="sparse_localmaxlabel", res="int", cls=tag + ":" + vkind,
                      args=[IN(v, "v"), IN(i, "i"), IN(j, "j"), nnz, OUT(nnz, np.float32, name="MV"),
                            OUT(nnz, np.int32, name="iMV"), OUT(nnz, np.int32, name="labels")], pre="sorted"))
    calls.append(dict(fn="sparse_blob2Dproperties", res=None,
                      cls="blob2D:%s%s" % ("label0" if (nnz and (lb == 0).any()) else "nolabel0",
                                           ":coord>46340" if (nnz and (lb > 0).any() and
                                                              max(int(i[lb > 0].max()), int(j[lb > 0].max())) > 46340) else ""),
                      args=[IN(v, "v"), IN(i, "i"), IN(j, "j"), nnz, IN(lb, "labels"), OUT((n, NPROP2D), np.float64, name="results"),
                            int(n)], pre="labels in 0..npk (0 = background pixel, as sparse_connectedpixels(threshold) returns them)"))
    # mask_to_coo (dense mask: small origin only).  nnz == 0 is what sparseframe.from_data_mask passes for an empty
    # mask: the kernel answers 3 and must not touch the (empty) outputs
    if not big:
        # "on" is any non-zero mask byte: 1, 127, and (a uint8 mask with 128..255 seen as int8) negative values
        mk = m.astype(np.int8)
        if nnz and k % 2:
            mk = np.where(m, r.choice(np.array([1, 2, 127, -1, -128, -77], np.int8), m.shape), 0).astype(np.int8)
        calls.append(dict(fn="mask_to_coo", res="int", cls="mask_to_coo:nnz%s%s" % ("0" if nnz == 0 else "+",
                                                                                    ":negative" if (mk < 0).any() else ""),
                          args=[IN(mk, "msk"), shape[0], shape[1], OUT(nnz, np.uint16, name="i"),
                                OUT(nnz, np.uint16, name="j"), nnz, SCRATCH(shape[0], np.int32, name="w")],
                          pre="nnz == number of non-zero mask pixels >= 0; w has ns entries"))
        if r.random() < 0.25:
            # documented error return 4: the caller's nnz disagrees with the mask; i,j (nnz+1 entries) stay untouched
            calls.append(dict(fn="mask_to_coo", res="int", cls="mask_to_coo:mismatch",
                              args=[IN(m.astype(np.int8), "msk"), shape[0], shape[1], OUT(nnz + 1, np.uint16, full=False, name="i"),
                                    OUT(nnz + 1, np.uint16, full=False, name="j"), nnz + 1, SCRATCH(shape[0], np.int32, name="w")],
                              pre="nnz != number of mask pixels: returns 4; i,j have nnz entries; w has ns entries"))
    return calls


def g_overlaps(r, k):
    shape = SHAPES[k % len(SHAPES)]
    i1, j1, m1 = sparse_pattern(r, shape, SPK[k % len(SPK)])
    i2, j2, m2 = sparse_pattern(r, shape, SPK[(k + 3) % len(SPK)])
    n1, n2 = len(i1), len(i2)
    id1, jd1, id2, jd2 = i1, j1, i2, j2          # small-origin copies: index the dense label images below
    if r.random() < 0.3:
        # both frames translated to detector-size coordinates (the overlap kernels only compare coordinates)
        oi, oj = coord_offset(r, shape[0]), pick(r, [0, coord_offset(r, shape[1])])
        i1, i2 = [(a.astype(np.int64) + oi).astype(np.uint16) for a in (i1, i2)]
        j1, j2 = [(a.astype(np.int64) + oj).astype(np.uint16) for a in (j1, j2)]
    calls = [dict(fn="sparse_overlaps", res="int",
                  args=[IN(i1, "i1"), IN(j1, "j1"), OUT(n1, np.int32, name="k1"), n1, IN(i2, "i2"), IN(j2, "j2"),
                        OUT(n2, np.int32, name="k2"), n2], pre="both patterns sorted")]
    from scipy import ndimage
    l1, p1 = ndimage.label(m1, structure=np.ones((3, 3)))
    l2, p2 = ndimage.label(m2, structure=np.ones((3, 3)))
    la, lb = l1[id1, jd1].astype(np.int32), l2[id2, jd2].astype(np.int32)
    both = m1 & m2
    r_ = l1[both].astype(np.int32)
    c_ = l2[both].astype(np.int32)
    n = len(r_)
    nt = max(p1, p2) + 1
    calls.append(dict(fn="compress_duplicates", res="int",
                      args=[INOUT(r_, "i"), INOUT(c_, "j"), OUT(n, np.int32, full=False, name="oi"),
                            OUT(n, np.int32, full=False, name="oj"), SCRATCH(nt, np.int32, name="tmp"), n, nt],
                      pre="labels >= 0 and < nt (tmp longer than the largest label)"))
    # npk1 or npk2 == 0 (a frame without peaks, hence without pixels) is a well-formed call with empty mat/results
    calls.append(dict(fn="coverlaps", res="int", cls="coverlaps:npk%s" % ("0" if (p1 == 0 or p2 == 0) else "+"),
                      args=[IN(i1, "row1"), IN(j1, "col1"), IN(la, "labels1"), n1, IN(i2, "row2"), IN(j2, "col2"),
                            IN(lb, "labels2"), n2, SCRATCH((p1, p2), np.int32, name="mat"), p1, p2,
                            OUT(3 * p1 * p2, np.int32, full=False, name="results")],
                      pre="labels in 1..npk; mat npk1*npk2; results 3*npk1*npk2"))
    return calls


def g_tosparse(r, k):
    shape = SHAPES[k % len(SHAPES)]
    n = shape[0] * shape[1]
    msk = (r.random(shape) < 0.8).astype(np.uint8)
    calls = []
    d16 = r.integers(0, 65535, shape).astype(np.uint16)
    calls.append(dict(fn="tosparse_u16", res="int",
                      args=[IN(d16, "img"), IN(msk, "msk"), OUT(shape, np.uint16, full=False, name="row"),
                            OUT(shape, np.uint16, full=False, name="col"), OUT(shape, np.uint16, full=False, name="val"),
                            int(r.choice([0, 30000, 65535])), shape[0], shape[1]], pre="row/col/val have ns*nf entries"))
    d32 = r.integers(0, 2 ** 32 - 1, shape, dtype=np.uint64).astype(np.uint32)
    calls.append(dict(fn="tosparse_u32", res="int",
                      args=[IN(d32, "img"), IN(msk, "msk"), OUT(n, np.uint16, full=False, name="row"),
                            OUT(n, np.uint16, full=False, name="col"), OUT(n, np.uint32, full=False, name="val"),
                            ("f", float(r.choice([0, 2.0 ** 31]))), shape[0], shape[1]], pre="row/col/val have ns*nf entries"))
    df = (r.random(shape) * 100).astype(np.float32)
    calls.append(dict(fn="tosparse_f32", res="int",
                      args=[IN(df, "img"), IN(msk, "msk"), OUT(shape, np.uint16, full=False, name="row"),
                            OUT(shape, np.uint16, full=False, name="col"), OUT(shape, np.float32, full=False, name="val"),
                            ("f", float(r.choice([-1, 50, 1000]))), shape[0], shape[1]], pre="row/col/val have ns*nf entries"))
    return calls


NPK = [0, 1, 2, 3, 7, 100, 4095, 4096, 4097, 8191, 8192, 8193]


def _gz_frames(gv):
    """g0,g1,g2 of score_gvec_z computed independently (numpy): the inputs of a recompute=0 call"""
    g = np.asarray(gv, float)
    with np.errstate(all="ignore"):
        g0 = g / np.sqrt((g * g).sum(axis=1))[:, None]
        txy = g[:, 0] ** 2 + g[:, 1] ** 2
        g1 = np.stack([-g[:, 1], g[:, 0], np.zeros(len(g))], axis=1) / np.sqrt(txy)[:, None]
        t = 1.0 / np.sqrt(g[:, 0] ** 2 * g[:, 2] ** 2 + g[:, 1] ** 2 * g[:, 2] ** 2 + txy * txy)
        g2 = np.stack([g[:, 0] * g[:, 2], g[:, 1] * g[:, 2], -txy], axis=1) * t[:, None]
    return [np.ascontiguousarray(a.reshape(-1, 3)) for a in (g0, g1, g2)]


def g_scoring(r, k):
    n = NPK[k % len(NPK)]
    ubi = np.ascontiguousarray(r.uniform(-5, 5, (3, 3)))
    gv = np.ascontiguousarray(r.uniform(-1, 1, (n, 3)))
    labels = r.integers(-1, 3, n).astype(np.int32)
    calls = [
        dict(fn="score", res="int", args=[IN(ubi, "ubi"), IN(gv, "gv"), ("d", 0.3), n], pre="gv is ng x 3"),
        dict(fn="score_and_refine", res=None,
             args=[INOUT(ubi.copy(), "ubi"), IN(gv, "gv"), ("d", 0.3), OUT(1, np.int32, name="n"), OUT(1, np.float64, name="sumdrlv2"), n],
             pre="gv is ng x 3"),
        dict(fn="score_and_assign", res="int",
             args=[IN(ubi, "ubi"), IN(gv, "gv"), ("d", 0.3), INOUT(np.full(n, 2.0), "drlv2"), INOUT(labels.copy(), "labels"), 1, n],
             pre="drlv2 and labels have ng entries"),
        dict(fn="refine_assigned", res=None,
             args=[INOUT(ubi.copy(), "ubi"), IN(gv, "gv"), IN(labels, "labels"), 1, OUT(1, np.int32, name="npk"),
                   OUT(1, np.float64, name="drlv2"), n], pre="labels has ng entries"),
        dict(fn="score_gvec_z", res=None, cls="score_gvec_z:recompute1",
             args=[IN(ubi, "ubi"), IN(np.linalg.inv(ubi), "ub"), IN(gv, "gv"), OUT((n, 3), np.float64, name="g0"),
                   OUT((n, 3), np.float64, name="g1"), OUT((n, 3), np.float64, name="g2"), OUT((n, 3), np.float64, name="e"), 1, n],
             pre="recompute=1 so g0,g1,g2 are outputs"),
        dict(fn="score_gvec_z", res=None, cls="score_gvec_z:recompute0",
             args=[IN(ubi, "ubi"), IN(np.linalg.inv(ubi), "ub"), IN(gv, "gv")] + [INOUT(a, nm) for a, nm in zip(_gz_frames(gv), ("g0", "g1", "g2"))]
             + [OUT((n, 3), np.float64, name="e"), 0, n],
             pre="recompute=0: g0,g1,g2 hold the frames of an earlier call and are read (the interface declares them inout, so "
                 "a write inside them would not be a memory error), e is the output"),
        dict(fn="verify_rounding", res="int", args=[int(r.integers(0, 2 ** 30))], pre="none"),
    ]
    u1 = np.ascontiguousarray(np.linalg.qr(r.normal(size=(3, 3)))[0])
    u2 = np.ascontiguousarray(np.linalg.qr(r.normal(size=(3, 3)))[0])
    for f in ("misori_cubic", "misori_orthorhombic", "misori_tetragonal", "misori_monoclinic"):
        calls.append(dict(fn=f, res="double", args=[IN(u1, "u1"), IN(u2, "u2")], pre="3x3 matrices"))
    z = "n0" if n == 0 else "n+"
    # n == 0 is a well-formed call of every kernel below except cluster1d (see g_pending)
    nv, dim = min(n, 200), int(r.integers(1, 5))
    calls.append(dict(fn="closest_vec", res=None, cls="closest_vec:" + z,
                      args=[IN(r.normal(size=(nv, dim)), "x"), dim, nv, OUT(nv, np.int32, name="ic")], pre="nv >= 0"))
    x = r.uniform(-1, 1, min(n, 500))
    xs = k % 2
    if xs:
        x = np.sort(x)                 # closest() does not document an ordering: sorted and unsorted x
    nvv = int(pick(r, [7, 7, 1, 0, 20]))
    calls.append(dict(fn="closest", res=None, cls="closest:%s:%s:nv%d" % (z, "sorted" if xs else "unsorted", nvv),
                      args=[IN(x, "x"), IN(r.uniform(-1, 1, nvv), "v"), OUT(1, np.int32, name="ibest"), OUT(1, np.float64, name="best"),
                            len(x), nvv], pre="none"))
    m = int(r.integers(1, 50))
    ind = r.integers(0, m, n)
    for fn, dt in (("put_incr64", np.int64), ("put_incr32", np.int32)):
        for bc in (0, 1):
            calls.append(dict(fn=fn, res=None, cls="put_incr:inrange:" + z,
                              args=[INOUT(np.zeros(m, np.float32), "data"), IN(ind.astype(dt), "ind"),
                                    IN(r.random(n).astype(np.float32), "vals"), bc, n, m],
                              pre="all indices in 0..m-1 (boundscheck=0 does not test them)"))
        if n and n <= 100:
            # boundscheck=1 is the documented way to pass indices that may be out of range: they must be skipped
            # (the kernel prints one line per rejected index, hence only for small n)
            bad = ind.astype(dt)
            hostile = [-1, m, m + 1, -m, np.iinfo(dt).max, np.iinfo(dt).min, 2 ** 31 - 1, -2 ** 31]
            if dt is np.int64:
                hostile += [2 ** 32, 2 ** 32 + 1, -2 ** 32 + 1]      # equal to valid indices after truncation to 32 bits
            sel = r.random(n) < 0.5
            sel[0] = True
            bad[sel] = r.choice(np.array(hostile, dtype=dt), int(sel.sum()))
            calls.append(dict(fn=fn, res=None, cls="put_incr:outofrange",
                              args=[INOUT(np.zeros(m, np.float32), "data"), IN(bad, "ind"),
                                    IN(r.random(n).astype(np.float32), "vals"), 1, n, m],
                              pre="boundscheck=1: any index value; out-of-range ones are reported and skipped"))
    if n >= 1:
        ar = r.uniform(0, 10, min(n, 300))
        order = np.argsort(ar).astype(np.int32)
        calls.append(dict(fn="cluster1d", res=None,
                          args=[IN(ar, "ar"), len(ar), IN(order, "order"), ("d", 0.1), OUT(1, np.int32, name="nclusters"),
                                OUT(len(ar), np.int32, name="ids"), OUT(len(ar), np.float64, full=False, name="avgs")],
                          pre="n >= 1; order = argsort(ar)"))
    a = np.sort(r.integers(0, 50, min(n, 300))).astype(np.int32)
    b = np.sort(r.integers(0, 50, int(r.integers(0, 40)))).astype(np.int32)
    calls.append(dict(fn="count_shared", res="int", args=[IN(a, "pi"), len(a), IN(b, "pj"), len(b)], pre="both sorted"))
    return calls


def g_diffraction(r, k):
    n = NPK[k % len(NPK)]
    xyz = np.ascontiguousarray(r.uniform(1e4, 1e5, (n, 3)))
    om = r.uniform(-180, 180, n)
    if k % 2 and n:
        om = r.choice(r.uniform(-180, 180, 4), n)     # few distinct omega values, in random order
    t = r.uniform(-100, 100, 3)
    sc = ("d", 1.0), ("d", 0.3), ("d", 2.0), ("d", -3.0)
    calls = [
        dict(fn="compute_gv", res=None, args=[IN(xyz, "xlylzl"), IN(om, "omega")] + list(sc) + [IN(t, "t"), OUT((n, 3), np.float64, name="gv"), n],
             pre="arrays have ng rows"),
        dict(fn="compute_geometry", res=None,
             args=[IN(xyz, "xlylzl"), IN(om, "omega")] + list(sc) + [IN(t, "t"), OUT((n, 6), np.float64, name="out"), n],
             pre="arrays have ng rows"),
        dict(fn="compute_xlylzl", res=None,
             args=[IN(r.uniform(0, 2048, n), "s"), IN(r.uniform(0, 2048, n), "f"), IN(np.array([1000., 1000., 50., 50.]), "p"),
                   IN(np.eye(3).ravel(), "r"), IN(np.array([1e5, 0., 0.]), "dist"), OUT((n, 3), np.float64, name="xlylzl"), n],
             pre="none"),
    ]
    ubi = np.zeros((3, 3))
    ubi[0] = r.normal(size=3)
    ubi[1] = r.normal(size=3)
    calls.append(dict(fn="quickorient", res=None, args=[INOUT(ubi, "ubi"), IN(r.normal(size=(3, 3)), "bt")],
                      pre="ubi[0], ubi[1] hold two non-collinear g-vectors"))
    return calls


def g_darkflat(r, k):
    shape = SHAPES[k % len(SHAPES)]
    if k % 4 == 2:
        shape = pick(r, ASPECT)       # several thousand pixels / long and short rows for the "parallel for simd" loops
    npx = shape[0] * shape[1]
    img = (r.random(shape) * 100).astype(np.float32)
    drk = (r.random(shape) * 10).astype(np.float32)
    d16 = r.integers(0, 65535, shape).astype(np.uint16)
    # sigma-clipped statistics: iteration count cycles through 3,1,2,5,0,3, verbose=1 every fifth round, cut from the
    # case rng (the defaults are 3 / 3.0 / 0);
    # a small cut can leave no active pixel (nactive == 0): mean/std become NaN, which is a value, not a memory error
    nit, cut, verbose = [3, 1, 2, 5, 0, 3][k % 6], float(pick(r, [3.0, 3.0, 1.0, 0.5, 10.0])), int(k % 5 == 4)
    mv = "meanvar:n%d:%s" % (nit, "verbose" if verbose else "quiet")
    # histogram: pixel values are in [-30,130) or [0,100); bin range narrower than, equal to or wider than the data
    himg = img if r.random() < 0.3 else (r.random(shape) * 160 - 30).astype(np.float32)
    hk = ["narrow", "wide", "tiny", "exact", "narrow"][k % 5]
    # "tiny": a bin range one thousandth wide next to data spanning 160 units: bin numbers up to ~6e6, far outside
    # 0..nhist-1 on both sides but still representable as int (high == low itself gives an infinite bin number whose
    # conversion to int has no defined value: not a well-formed call, not generated)
    low, high = dict(narrow=(20.0, 80.0), wide=(-100.0, 500.0), tiny=(50.0, 50.001), exact=(0.0, 100.0))[hk]
    nh = int(r.integers(1, 40))
    calls = [
        dict(fn="uint16_to_float_darksub", res=None, args=[OUT(npx, np.float32, name="img"), IN(drk.ravel(), "drk"), IN(d16.ravel(), "data"), npx], pre="none"),
        dict(fn="uint16_to_float_darkflm", res=None,
             args=[OUT(npx, np.float32, name="img"), IN(drk.ravel(), "drk"), IN(drk.ravel() + 1, "flm"), IN(d16.ravel(), "data"), npx], pre="none"),
        dict(fn="frelon_lines", res=None, args=[INOUT(img.copy(), "img"), shape[0], shape[1], ("f", 50.0)], pre="none"),
        dict(fn="frelon_lines_sub", res=None, args=[INOUT(img.copy(), "img"), IN(drk, "drk"), shape[0], shape[1], ("f", 50.0)], pre="none"),
        dict(fn="array_mean_var_cut", res=None, cls=mv,
             args=[IN(img, "img"), npx, OUT(1, np.float32, name="mean"), OUT(1, np.float32, name="std"), nit, ("f", cut), verbose],
             pre="npx >= 1"),
        dict(fn="array_mean_var_msk", res=None, cls=mv,
             args=[IN(img, "img"), OUT(npx, np.uint8, name="msk"), npx, OUT(1, np.float32, name="mean"), OUT(1, np.float32, name="std"),
                   nit, ("f", cut), verbose], pre="npx >= 1"),
        dict(fn="array_stats", res=None,
             args=[IN(img, "img"), npx] + [OUT(1, np.float32, name=nm) for nm in ("minval", "maxval", "mean", "var")], pre="none"),
        dict(fn="array_histogram", res=None, cls="histogram:%s" % ("inrange" if (hk in ("wide", "exact") and himg is img) or hk == "wide"
                                                                   else "outofrange"),
             args=[IN(himg, "img"), npx, ("f", low), ("f", high), OUT(nh, np.int32, name="hist"), nh],
             pre="nhist >= 1, high > low; pixels below low / above high are counted in the first / last bin"),
        dict(fn="bgcalc", res=None,
             args=[IN(img, "img"), OUT(shape, np.float32, name="bg"), OUT(shape, np.uint8, name="msk"), shape[0], shape[1],
                   ("f", 0.1), ("f", 0.05), ("f", 1.0)], pre="none"),
    ]
    perm = r.permutation(npx).astype(np.uint32)
    calls += [
        dict(fn="reorder_u16_a32", res=None, args=[IN(d16, "data"), IN(perm, "adr"), OUT(npx, np.uint16, name="out"), npx],
             pre="adr is a permutation of 0..N-1"),
        dict(fn="reorder_f32_a32", res=None, args=[IN(img, "data"), IN(perm, "adr"), OUT(npx, np.float32, name="out"), npx],
             pre="adr is a permutation of 0..N-1"),
        dict(fn="reorderlut_u16_a32", res=None, args=[IN(d16, "data"), IN(perm, "lut"), OUT(npx, np.uint16, name="out"), npx],
             pre="lut values in 0..N-1"),
        dict(fn="reorderlut_f32_a32", res=None, args=[IN(img, "data"), IN(perm, "lut"), OUT(npx, np.float32, name="out"), npx],
             pre="lut values in 0..N-1"),
    ]
    a0 = (np.arange(shape[0]) * shape[1]).astype(np.uint32)
    a1 = np.ones(shape, np.int16)
    a1[:, 0] = 0
    calls.append(dict(fn="reorder_u16_a32_a16", res=None,
                      args=[IN(d16, "data"), IN(a0, "adr0"), IN(a1, "adr1"), OUT(shape, np.uint16, name="out"), shape[0], shape[1]],
                      pre="adr0/adr1 address every output pixel exactly once"))
    return calls


def g_splat(r, k):
    w, h = [(8, 8), (16, 12), (64, 64), (5, 40), (40, 5), (2, 2)][k % 6]
    ng = NPK[k % 7]
    # view matrix: identity (as the first version of this generator) or a random rotation times a zoom factor, and
    # g-vectors up to |g| = 3 A^-1: most points then project outside the picture, some exactly around its edges.
    # |s*g| stays below 1e4, far inside the int range of the (int) conversion
    ident = (k % 3 == 0)
    u = np.eye(3) if ident else np.linalg.qr(r.normal(size=(3, 3)))[0] * float(pick(r, [0.3, 1.0, 3.0, 10.0]))
    gve = np.ascontiguousarray(r.uniform(-1, 1, (ng, 3)) * (1.0 if ident else 3.0))
    npx = int(pick(r, [0, 1, 2, 3]))
    return [dict(fn="splat", res=None, cls="splat:%s" % ("identity" if ident else "rotated"),
                 args=[OUT((h, w, 4), np.uint8, name="rgba"), w, h, IN(gve, "gve"), ng, IN(np.ascontiguousarray(u).ravel(), "u"), npx],
                 pre="rgba is w*h*4 bytes")]


def g_pending(r, k):
    """calls whose well-formedness follows from the property statement ("any number of peaks ... including zero") but on
    which the pinned tree misbehaved (repaired in /repo, see known_findings.json)"""
    calls = []
    if True:
        calls.append(dict(fn="cluster1d", res=None, cls="cluster1d:n0",
                          args=[IN(np.zeros(0), "ar"), 0, IN(np.zeros(0, np.int32), "order"), ("d", 0.1),
                                OUT(1, np.int32, name="nclusters"), OUT(0, np.int32, name="ids"),
                                OUT(0, np.float64, full=False, name="avgs")],
                          pre="n == 0: nothing to cluster"))
    return calls


GENERATORS = [g_connectedpixels, g_blobproperties, g_bloboverlaps, g_clean_mask, g_localmaxlabel, g_sparse, g_overlaps,
              g_tosparse, g_scoring, g_diffraction, g_darkflat, g_splat, g_pending]
