"""Per-kernel, precondition-respecting call generators for the compiled kernels (C20).

Each generator returns a list of call specs:
   dict(fn=<exported C name>, res=<'int'|'double'|None>, args=[...], pre=<documented preconditions>)
where an argument is a python int -> C int, ('f', x) -> float, ('d', x) -> double, or a Buf.
Buf roles:
   in      kernel may only read it
   out     kernel output; with full=True every byte is promised defined on return
   inout   read and written
   scratch work space: may be read only after the kernel has written it
The preconditions written next to each generator are the *documented* ones (from the !DOC blocks, the .pyf
dimension declarations and the Python callers); ill-formed calls are out of scope.
"""
import re, os
import numpy as np
from .common import REPO


class Buf(object):
    def __init__(self, arr, role, full=False, name=""):
        self.arr = np.ascontiguousarray(arr)
        self.role = role
        self.full = full
        self.name = name


def IN(a, name=""):
    return Buf(a, "in", name=name)


def OUT(shape, dtype, full=True, name=""):
    return Buf(np.zeros(shape, dtype), "out", full=full, name=name)


def INOUT(a, name=""):
    return Buf(a, "inout", name=name)


def SCRATCH(shape, dtype, name=""):
    return Buf(np.zeros(shape, dtype), "scratch", name=name)


def nproperty():
    txt = open(os.path.join(REPO, "src", "blobs.h")).read()
    m = re.search(r"enum\s*\{(.*?)NPROPERTY\b", txt, re.S)
    body = re.sub(r"/\*.*?\*/", "", m.group(1), flags=re.S)
    names = [x.strip().split("=")[0].strip() for x in body.split(",") if x.strip()]
    return len(names), {n: i for i, n in enumerate(names)}


NPROP, PROPIDX = nproperty()
NPROP2D = 11

SHAPES = [(2, 2), (2, 3), (3, 2), (2, 9), (9, 2), (3, 3), (4, 7), (8, 8), (17, 5), (31, 33), (64, 64)]


def img_f32(r, shape, kind):
    if kind == "zeros":
        return np.zeros(shape, np.float32)
    if kind == "full":
        return (r.random(shape) * 100 + 10).astype(np.float32)
    if kind == "checker":
        ii, jj = np.indices(shape)
        return np.where((ii + jj) % 2 == 0, 20.0, 0.0).astype(np.float32)
    if kind == "border":
        a = np.zeros(shape, np.float32)
        a[0, :] = a[-1, :] = 30
        a[:, 0] = a[:, -1] = 30
        return a
    return np.where(r.random(shape) < r.choice([0.1, 0.5, 0.9]), r.random(shape) * 100 + 10, 0).astype(np.float32)


KINDS = ["bernoulli", "zeros", "full", "checker", "border", "bernoulli"]


def sparse_pattern(r, shape, kind):
    """sorted coo pattern honouring: empty rows, first/last row+col occupied, single pixel, nnz 0"""
    ns, nf = shape
    if kind == "nnz0":
        m = np.zeros(shape, bool)
    elif kind == "nnz1":
        m = np.zeros(shape, bool)
        m[int(r.integers(ns)), int(r.integers(nf))] = True
    elif kind == "corners":
        m = np.zeros(shape, bool)
        m[0, 0] = m[0, -1] = m[-1, 0] = m[-1, -1] = True
    elif kind == "emptyrows":
        m = r.random(shape) < 0.5
        m[::2] = False
    elif kind == "full":
        m = np.ones(shape, bool)
    else:
        m = r.random(shape) < r.choice([0.1, 0.5, 0.9])
    i, j = np.nonzero(m)
    return i.astype(np.uint16), j.astype(np.uint16), m


SPK = ["bernoulli", "nnz0", "nnz1", "corners", "emptyrows", "full", "bernoulli"]


def g_connectedpixels(r, k):
    shape = SHAPES[k % len(SHAPES)]
    if k % 23 == 7:
        shape = (260, 260)     # > 16384 provisional labels with 4-connectivity checkerboard
        img = img_f32(r, shape, "checker")
    else:
        img = img_f32(r, shape, KINDS[k % len(KINDS)])
    return [dict(fn="v_connectedpixels", res="int",
                 args=[IN(img, "data"), OUT(shape, np.int32, name="labels"), ("f", 5.0), 0, int(k % 2), shape[0], shape[1]],
                 pre="ns,nf >= 2; labels has ns*nf entries")]


def _labels(r, shape, kind):
    from scipy import ndimage
    img = img_f32(r, shape, kind)
    lab, n = ndimage.label(img > 5, structure=np.ones((3, 3)))
    return img, lab.astype(np.int32), int(n)


def g_blobproperties(r, k):
    shape = SHAPES[k % len(SHAPES)]
    img, lab, n = _labels(r, shape, KINDS[k % len(KINDS)])
    calls = [dict(fn="blobproperties", res=None,
                  args=[IN(img, "data"), IN(lab, "labels"), n, ("f", 1.5), 0, shape[0], shape[1],
                        OUT((max(n, 0), NPROP), np.float64, name="results")],
                  pre="labels in 0..np; results has np*NPROPERTY entries")]
    return calls


def _props(img, lab, n, omega):
    res = np.zeros((n, NPROP))
    res[:, PROPIDX["bb_mn_f"]] = img.shape[1] + 1
    res[:, PROPIDX["bb_mn_s"]] = img.shape[0] + 1
    res[:, PROPIDX["bb_mx_f"]] = -1
    res[:, PROPIDX["bb_mx_s"]] = -1
    res[:, PROPIDX["bb_mx_o"]] = omega
    res[:, PROPIDX["bb_mn_o"]] = omega
    for (i, j), l in np.ndenumerate(lab):
        if l > 0:
            b = res[l - 1]
            v = float(img[i, j])
            b[PROPIDX["s_1"]] += 1
            b[PROPIDX["s_I"]] += v
            if v > b[PROPIDX["mx_I"]]:
                b[PROPIDX["mx_I"]] = v
            for nm, val in (("bb_mx_f", j), ("bb_mx_s", i)):
                b[PROPIDX[nm]] = max(b[PROPIDX[nm]], val)
            for nm, val in (("bb_mn_f", j), ("bb_mn_s", i)):
                b[PROPIDX[nm]] = min(b[PROPIDX[nm]], val)
    return res


def g_bloboverlaps(r, k):
    shape = SHAPES[k % len(SHAPES)]
    if shape[0] * shape[1] > 400:
        shape = (12, 15)
    img1, l1, n1 = _labels(r, shape, KINDS[k % len(KINDS)])
    img2, l2, n2 = _labels(r, shape, KINDS[(k + 1) % len(KINDS)])
    if n1 == 0 or n2 == 0:
        # labelimage.mergelast only calls bloboverlaps when both frames have peaks
        return []
    res1, res2 = _props(img1, l1, n1, 0.0), _props(img2, l2, n2, 1.0)
    return [dict(fn="bloboverlaps", res="int",
                 args=[INOUT(l1, "labels1"), n1, INOUT(res1, "results1"), INOUT(l2, "labels2"), n2, INOUT(res2, "results2"),
                       0, shape[0], shape[1]],
                 pre="labels1 in 0..n1, labels2 in 0..n2, n1,n2 >= 1 (as labelimage.mergelast calls it); results from blobproperties"),
            dict(fn="blob_moments", res=None, args=[INOUT(res1.copy(), "results"), n1], pre="results from blobproperties")]


def g_clean_mask(r, k):
    shape = SHAPES[k % len(SHAPES)]
    msk = (img_f32(r, shape, KINDS[k % len(KINDS)]) > 5).astype(np.int8)
    img = img_f32(r, shape, KINDS[(k + 2) % len(KINDS)])
    return [dict(fn="clean_mask", res="int", args=[IN(msk, "msk"), OUT(shape, np.int8, name="ret"), shape[0], shape[1]],
                 pre="ns,nf >= 2"),
            dict(fn="make_clean_mask", res="int",
                 args=[IN(img, "img"), ("f", 5.0), OUT(shape, np.int8, name="msk"), OUT(shape, np.int8, name="ret"),
                       shape[0], shape[1]], pre="ns,nf >= 2")]


def g_localmaxlabel(r, k):
    shape = [(3, 3), (3, 4), (4, 3), (3, 17), (17, 3), (5, 5), (16, 16), (33, 31), (64, 64)][k % 9]
    img = (r.random(shape) * 100).astype(np.float32)
    return [dict(fn="localmaxlabel", res="int",
                 args=[IN(img, "data"), OUT(shape, np.int32, name="labels"), OUT(shape, np.uint8, name="wrk"),
                       shape[0], shape[1]], pre="ns,nf >= 3")]


def g_sparse(r, k):
    shape = SHAPES[k % len(SHAPES)]
    i, j, m = sparse_pattern(r, shape, SPK[k % len(SPK)])
    nnz = len(i)
    v = (r.random(nnz) * 100 + 1).astype(np.float32)
    v[r.random(nnz) < 0.2] = 0.0
    calls = []
    calls.append(dict(fn="sparse_is_sorted", res="int", args=[IN(i, "i"), IN(j, "j"), nnz], pre="none"))
    calls.append(dict(fn="sparse_connectedpixels", res="int",
                      args=[IN(v, "v"), IN(i, "i"), IN(j, "j"), nnz, ("f", 0.5), OUT(nnz, np.int32, name="labels")],
                      pre="i,j sorted row-major without duplicates"))
    zs = (shape[0] + 2) * (shape[1] + 2)
    calls.append(dict(fn="sparse_connectedpixels_splat", res="int",
                      args=[IN(v, "v"), IN(i, "i"), IN(j, "j"), nnz, ("f", 0.5), OUT(nnz, np.int32, full=False, name="labels"),
                            SCRATCH(zs, np.int32, name="Z"), shape[0], shape[1]],
                      pre="sorted; Z has (ni+2)*(nj+2) entries; i < ni, j < nj"))
    calls.append(dict(fn="sparse_smooth", res=None,
                      args=[IN(v, "v"), IN(i, "i"), IN(j, "j"), nnz, OUT(nnz, np.float32, name="s")], pre="sorted"))
    calls.append(dict(fn="sparse_localmaxlabel", res="int",
                      args=[IN(v, "v"), IN(i, "i"), IN(j, "j"), nnz, OUT(nnz, np.float32, name="MV"),
                            OUT(nnz, np.int32, name="iMV"), OUT(nnz, np.int32, name="labels")], pre="sorted"))
    # labels for 2D properties
    from scipy import ndimage
    lab, n = ndimage.label(m, structure=np.ones((3, 3)))
    lb = lab[i, j].astype(np.int32)
    calls.append(dict(fn="sparse_blob2Dproperties", res=None,
                      args=[IN(v, "v"), IN(i, "i"), IN(j, "j"), nnz, IN(lb, "labels"), OUT((n, NPROP2D), np.float64, name="results"),
                            int(n)], pre="labels in 0..npk"))
    # mask_to_coo
    if nnz >= 1:
        calls.append(dict(fn="mask_to_coo", res="int",
                          args=[IN(m.astype(np.int8), "msk"), shape[0], shape[1], OUT(nnz, np.uint16, name="i"),
                                OUT(nnz, np.uint16, name="j"), nnz, SCRATCH(shape[0], np.int32, name="w")],
                          pre="nnz == number of non-zero mask pixels >= 1; w has ns entries"))
    return calls


def g_overlaps(r, k):
    shape = SHAPES[k % len(SHAPES)]
    i1, j1, m1 = sparse_pattern(r, shape, SPK[k % len(SPK)])
    i2, j2, m2 = sparse_pattern(r, shape, SPK[(k + 3) % len(SPK)])
    n1, n2 = len(i1), len(i2)
    calls = [dict(fn="sparse_overlaps", res="int",
                  args=[IN(i1, "i1"), IN(j1, "j1"), OUT(n1, np.int32, name="k1"), n1, IN(i2, "i2"), IN(j2, "j2"),
                        OUT(n2, np.int32, name="k2"), n2], pre="both patterns sorted")]
    from scipy import ndimage
    l1, p1 = ndimage.label(m1, structure=np.ones((3, 3)))
    l2, p2 = ndimage.label(m2, structure=np.ones((3, 3)))
    la, lb = l1[i1, j1].astype(np.int32), l2[i2, j2].astype(np.int32)
    both = m1 & m2
    r_ = l1[both].astype(np.int32)
    c_ = l2[both].astype(np.int32)
    n = len(r_)
    nt = max(p1, p2) + 1
    calls.append(dict(fn="compress_duplicates", res="int",
                      args=[INOUT(r_, "i"), INOUT(c_, "j"), OUT(n, np.int32, full=False, name="oi"),
                            OUT(n, np.int32, full=False, name="oj"), SCRATCH(nt, np.int32, name="tmp"), n, nt],
                      pre="labels >= 0 and < nt (tmp longer than the largest label)"))
    if p1 >= 1 and p2 >= 1:
        calls.append(dict(fn="coverlaps", res="int",
                          args=[IN(i1, "row1"), IN(j1, "col1"), IN(la, "labels1"), n1, IN(i2, "row2"), IN(j2, "col2"),
                                IN(lb, "labels2"), n2, SCRATCH((p1, p2), np.int32, name="mat"), p1, p2,
                                OUT(3 * p1 * p2, np.int32, full=False, name="results")],
                          pre="labels in 1..npk; mat npk1*npk2; results 3*npk1*npk2"))
    return calls


def g_tosparse(r, k):
    shape = SHAPES[k % len(SHAPES)]
    n = shape[0] * shape[1]
    msk = (r.random(shape) < 0.8).astype(np.uint8)
    calls = []
    d16 = r.integers(0, 65535, shape).astype(np.uint16)
    calls.append(dict(fn="tosparse_u16", res="int",
                      args=[IN(d16, "img"), IN(msk, "msk"), OUT(n, np.uint16, full=False, name="row"),
                            OUT(n, np.uint16, full=False, name="col"), OUT(n, np.uint16, full=False, name="val"),
                            int(r.choice([0, 30000, 65535])), shape[0], shape[1]], pre="row/col/val have ns*nf entries"))
    d32 = r.integers(0, 2 ** 32 - 1, shape, dtype=np.uint64).astype(np.uint32)
    calls.append(dict(fn="tosparse_u32", res="int",
                      args=[IN(d32, "img"), IN(msk, "msk"), OUT(n, np.uint16, full=False, name="row"),
                            OUT(n, np.uint16, full=False, name="col"), OUT(n, np.uint32, full=False, name="val"),
                            ("f", float(r.choice([0, 2.0 ** 31]))), shape[0], shape[1]], pre="row/col/val have ns*nf entries"))
    df = (r.random(shape) * 100).astype(np.float32)
    calls.append(dict(fn="tosparse_f32", res="int",
                      args=[IN(df, "img"), IN(msk, "msk"), OUT(n, np.uint16, full=False, name="row"),
                            OUT(n, np.uint16, full=False, name="col"), OUT(n, np.float32, full=False, name="val"),
                            ("f", float(r.choice([-1, 50, 1000]))), shape[0], shape[1]], pre="row/col/val have ns*nf entries"))
    return calls


NPK = [0, 1, 2, 3, 7, 100, 4095, 4096, 4097, 8191, 8192, 8193]


def g_scoring(r, k):
    n = NPK[k % len(NPK)]
    ubi = np.ascontiguousarray(r.uniform(-5, 5, (3, 3)))
    gv = np.ascontiguousarray(r.uniform(-1, 1, (n, 3)))
    labels = r.integers(-1, 3, n).astype(np.int32)
    calls = [
        dict(fn="score", res="int", args=[IN(ubi, "ubi"), IN(gv, "gv"), ("d", 0.3), n], pre="gv is ng x 3"),
        dict(fn="score_and_refine", res=None,
             args=[INOUT(ubi.copy(), "ubi"), IN(gv, "gv"), ("d", 0.3), OUT(1, np.int32, name="n"), OUT(1, np.float64, name="sumdrlv2"), n],
             pre="gv is ng x 3"),
        dict(fn="score_and_assign", res="int",
             args=[IN(ubi, "ubi"), IN(gv, "gv"), ("d", 0.3), INOUT(np.full(n, 2.0), "drlv2"), INOUT(labels.copy(), "labels"), 1, n],
             pre="drlv2 and labels have ng entries"),
        dict(fn="refine_assigned", res=None,
             args=[INOUT(ubi.copy(), "ubi"), IN(gv, "gv"), IN(labels, "labels"), 1, OUT(1, np.int32, name="npk"),
                   OUT(1, np.float64, name="drlv2"), n], pre="labels has ng entries"),
        dict(fn="score_gvec_z", res=None,
             args=[IN(ubi, "ubi"), IN(np.linalg.inv(ubi), "ub"), IN(gv, "gv"), OUT((n, 3), np.float64, name="g0"),
                   OUT((n, 3), np.float64, name="g1"), OUT((n, 3), np.float64, name="g2"), OUT((n, 3), np.float64, name="e"), 1, n],
             pre="recompute=1 so g0,g1,g2 are outputs"),
        dict(fn="verify_rounding", res="int", args=[int(r.integers(0, 2 ** 30))], pre="none"),
    ]
    u1 = np.ascontiguousarray(np.linalg.qr(r.normal(size=(3, 3)))[0])
    u2 = np.ascontiguousarray(np.linalg.qr(r.normal(size=(3, 3)))[0])
    for f in ("misori_cubic", "misori_orthorhombic", "misori_tetragonal", "misori_monoclinic"):
        calls.append(dict(fn=f, res="double", args=[IN(u1, "u1"), IN(u2, "u2")], pre="3x3 matrices"))
    if n >= 1:
        nv, dim = min(n, 200), int(r.integers(1, 5))
        calls.append(dict(fn="closest_vec", res=None,
                          args=[IN(r.normal(size=(nv, dim)), "x"), dim, nv, OUT(nv, np.int32, name="ic")], pre="nv >= 1"))
        x = np.sort(r.uniform(-1, 1, min(n, 500)))
        calls.append(dict(fn="closest", res=None,
                          args=[IN(x, "x"), IN(r.uniform(-1, 1, 7), "v"), OUT(1, np.int32, name="ibest"), OUT(1, np.float64, name="best"),
                                len(x), 7], pre="none"))
        m = int(r.integers(1, 50))
        ind = r.integers(0, m, n)
        for fn, dt in (("put_incr64", np.int64), ("put_incr32", np.int32)):
            for bc in (0, 1):
                calls.append(dict(fn=fn, res=None,
                                  args=[INOUT(np.zeros(m, np.float32), "data"), IN(ind.astype(dt), "ind"),
                                        IN(r.random(n).astype(np.float32), "vals"), bc, n, m],
                                  pre="all indices in 0..m-1 (boundscheck=0 does not test them)"))
        ar = r.uniform(0, 10, min(n, 300))
        order = np.argsort(ar).astype(np.int32)
        calls.append(dict(fn="cluster1d", res=None,
                          args=[IN(ar, "ar"), len(ar), IN(order, "order"), ("d", 0.1), OUT(1, np.int32, name="nclusters"),
                                OUT(len(ar), np.int32, name="ids"), OUT(len(ar), np.float64, full=False, name="avgs")],
                          pre="n >= 1; order = argsort(ar)"))
    a = np.sort(r.integers(0, 50, min(n, 300))).astype(np.int32)
    b = np.sort(r.integers(0, 50, int(r.integers(0, 40)))).astype(np.int32)
    calls.append(dict(fn="count_shared", res="int", args=[IN(a, "pi"), len(a), IN(b, "pj"), len(b)], pre="both sorted"))
    return calls


def g_diffraction(r, k):
    n = NPK[k % len(NPK)]
    xyz = np.ascontiguousarray(r.uniform(1e4, 1e5, (n, 3)))
    om = r.uniform(-180, 180, n)
    if k % 2 and n:
        om = r.choice(r.uniform(-180, 180, 4), n)     # few distinct omega values, in random order
    t = r.uniform(-100, 100, 3)
    sc = ("d", 1.0), ("d", 0.3), ("d", 2.0), ("d", -3.0)
    calls = [
        dict(fn="compute_gv", res=None, args=[IN(xyz, "xlylzl"), IN(om, "omega")] + list(sc) + [IN(t, "t"), OUT((n, 3), np.float64, name="gv"), n],
             pre="arrays have ng rows"),
        dict(fn="compute_geometry", res=None,
             args=[IN(xyz, "xlylzl"), IN(om, "omega")] + list(sc) + [IN(t, "t"), OUT((n, 6), np.float64, name="out"), n],
             pre="arrays have ng rows"),
        dict(fn="compute_xlylzl", res=None,
             args=[IN(r.uniform(0, 2048, n), "s"), IN(r.uniform(0, 2048, n), "f"), IN(np.array([1000., 1000., 50., 50.]), "p"),
                   IN(np.eye(3).ravel(), "r"), IN(np.array([1e5, 0., 0.]), "dist"), OUT((n, 3), np.float64, name="xlylzl"), n],
             pre="none"),
    ]
    ubi = np.zeros((3, 3))
    ubi[0] = r.normal(size=3)
    ubi[1] = r.normal(size=3)
    calls.append(dict(fn="quickorient", res=None, args=[INOUT(ubi, "ubi"), IN(r.normal(size=9), "bt")],
                      pre="ubi[0], ubi[1] hold two non-collinear g-vectors"))
    return calls


def g_darkflat(r, k):
    shape = SHAPES[k % len(SHAPES)]
    npx = shape[0] * shape[1]
    img = (r.random(shape) * 100).astype(np.float32)
    drk = (r.random(shape) * 10).astype(np.float32)
    d16 = r.integers(0, 65535, shape).astype(np.uint16)
    calls = [
        dict(fn="uint16_to_float_darksub", res=None, args=[OUT(npx, np.float32, name="img"), IN(drk, "drk"), IN(d16, "data"), npx], pre="none"),
        dict(fn="uint16_to_float_darkflm", res=None,
             args=[OUT(npx, np.float32, name="img"), IN(drk, "drk"), IN(drk + 1, "flm"), IN(d16, "data"), npx], pre="none"),
        dict(fn="frelon_lines", res=None, args=[INOUT(img.copy(), "img"), shape[0], shape[1], ("f", 50.0)], pre="none"),
        dict(fn="frelon_lines_sub", res=None, args=[INOUT(img.copy(), "img"), IN(drk, "drk"), shape[0], shape[1], ("f", 50.0)], pre="none"),
        dict(fn="array_mean_var_cut", res=None,
             args=[IN(img, "img"), npx, OUT(1, np.float32, name="mean"), OUT(1, np.float32, name="std"), 3, ("f", 3.0), 0], pre="npx >= 1"),
        dict(fn="array_mean_var_msk", res=None,
             args=[IN(img, "img"), OUT(npx, np.uint8, name="msk"), npx, OUT(1, np.float32, name="mean"), OUT(1, np.float32, name="std"),
                   3, ("f", 3.0), 0], pre="npx >= 1"),
        dict(fn="array_stats", res=None,
             args=[IN(img, "img"), npx] + [OUT(1, np.float32, name=nm) for nm in ("minval", "maxval", "mean", "var")], pre="none"),
        dict(fn="array_histogram", res=None,
             args=[IN(img, "img"), npx, ("f", 0.0), ("f", 100.0), OUT(int(r.integers(1, 40)), np.int32, name="hist"), None], pre="nhist >= 1"),
        dict(fn="bgcalc", res=None,
             args=[IN(img, "img"), OUT(shape, np.float32, name="bg"), OUT(shape, np.uint8, name="msk"), shape[0], shape[1],
                   ("f", 0.1), ("f", 0.05), ("f", 1.0)], pre="none"),
    ]
    calls[-2]["args"][-1] = len(calls[-2]["args"][-2].arr)
    perm = r.permutation(npx).astype(np.uint32)
    calls += [
        dict(fn="reorder_u16_a32", res=None, args=[IN(d16, "data"), IN(perm, "adr"), OUT(npx, np.uint16, name="out"), npx],
             pre="adr is a permutation of 0..N-1"),
        dict(fn="reorder_f32_a32", res=None, args=[IN(img, "data"), IN(perm, "adr"), OUT(npx, np.float32, name="out"), npx],
             pre="adr is a permutation of 0..N-1"),
        dict(fn="reorderlut_u16_a32", res=None, args=[IN(d16, "data"), IN(perm, "lut"), OUT(npx, np.uint16, name="out"), npx],
             pre="lut values in 0..N-1"),
        dict(fn="reorderlut_f32_a32", res=None, args=[IN(img, "data"), IN(perm, "lut"), OUT(npx, np.float32, name="out"), npx],
             pre="lut values in 0..N-1"),
    ]
    a0 = (np.arange(shape[0]) * shape[1]).astype(np.uint32)
    a1 = np.ones(shape, np.int16)
    a1[:, 0] = 0
    calls.append(dict(fn="reorder_u16_a32_a16", res=None,
                      args=[IN(d16, "data"), IN(a0, "adr0"), IN(a1, "adr1"), OUT(shape, np.uint16, name="out"), shape[0], shape[1]],
                      pre="adr0/adr1 address every output pixel exactly once"))
    return calls


def g_splat(r, k):
    w, h = [(8, 8), (16, 12), (64, 64), (5, 40)][k % 4]
    ng = NPK[k % 7]
    gve = np.ascontiguousarray(r.uniform(-1, 1, (ng, 3)))
    return [dict(fn="splat", res=None,
                 args=[OUT((h, w, 4), np.uint8, name="rgba"), w, h, IN(gve, "gve"), ng, IN(np.eye(3).ravel(), "u"), int(k % 3)],
                 pre="rgba is w*h*4 bytes")]


GENERATORS = [g_connectedpixels, g_blobproperties, g_bloboverlaps, g_clean_mask, g_localmaxlabel, g_sparse, g_overlaps,
              g_tosparse, g_scoring, g_diffraction, g_darkflat, g_splat]
