"""C18, further write/read histories (added after the coverage audit):

  hdf_history_case   every HDF5 columnfile writer/reader pair the repository offers, and overwrite histories in which the
                     second write has another TITLE SET (fewer, more, disjoint titles)
  grain_h5_history   grain.to_h5py_group onto an existing group (the documented "modify existing data" route),
                     write_grain_file_h5 twice, other group names, cross-format readers of the text grain files
  text_reader_case   the text reader on files as other tools / users write them: blank lines, several title lines,
                     a truncated (ragged) last row, header names with brackets and commas, values containing '='
  sparse_history     sparse frames written twice into the same group (same / different number of pixels), uint32 indices
"""
import contextlib, io, os, shutil
import numpy as np
from .common import rng


def quiet():
    return contextlib.redirect_stdout(io.StringIO())


def exact(a, b):
    a, b = np.asarray(a, float), np.asarray(b, float)
    return a.shape == b.shape and np.array_equal(a, b) and np.array_equal(np.signbit(a), np.signbit(b))


def hdf_history_case(run, seed, idx, columnfile, tmpd, gen_values):
    import h5py
    r = rng(seed, "C18", "hdfhist", idx)
    pool = ["sc", "fc", "omega", "Number_of_pixels", "spot3d_id", "gx", "eps11", "foo", "my_col", "tth", "sum_intensity"]
    cls = lambda t: ("INTS" if t in columnfile.INTS else "FLOATS")
    k1 = int(r.integers(1, 7))
    t1 = [pool[i] for i in r.permutation(len(pool))[:k1]]
    n = int(r.choice([1, 2, 7, 100]))
    d1 = {t: gen_values(r, n, cls(t)) for t in t1}
    desc = dict(index=idx, kind="hdf-history", titles=t1, nrows=n)
    run.case(("hdf-history", tuple(t1), n), nontrivial=True, sample=desc if idx < 2 else None)

    def V(key, what):
        run.violation(key, what, desc)

    def same(cf, titles, data, key, what):
        if set(cf.titles) != set(titles):
            V(key + ":titles", "%s: title set %r read back as %r" % (what, sorted(titles), sorted(cf.titles)))
            return False
        for t in titles:
            got = np.asarray(cf.getcolumn(t))
            if not exact(got, data[t]) and not (cls(t) == "INTS" and np.array_equal(got.astype(float), data[t])):
                V(key + ":value", "%s: column %s not exactly preserved" % (what, t))
                return False
            if cls(t) == "INTS" and got.dtype.kind != "i":
                V(key + ":int-dtype", "%s: integer-typed column %s read back as %s" % (what, t, got.dtype))
                return False
        return True
    d = tmpd()
    try:
        cf1 = columnfile.colfile_from_dict({t: d1[t].copy() for t in t1})
        # --- all writer forms x reader forms
        forms = ["name", "open-file", "from-text-file", "colfileobj", "compressed"]
        form = forms[idx % len(forms)]
        h5 = os.path.join(d, "w.h5")
        written = d1
        with quiet():
            if form == "name":
                columnfile.colfile_to_hdf(cf1, h5, name="peaks")
            elif form == "open-file":
                with h5py.File(h5, "a") as hh:
                    columnfile.colfile_to_hdf(cf1, hh, name="peaks")
            elif form == "from-text-file":
                # colfile given as a file name, group named after the file (name=None)
                fn = os.path.join(d, "pk.flt")
                cf1.writefile(fn)
                written = {t: np.asarray(columnfile.columnfile(fn).getcolumn(t), float) for t in t1}
                columnfile.colfile_to_hdf(fn, h5)
            elif form == "colfileobj":
                columnfile.colfileobj_to_hdf(cf1, h5, name="peaks")
            else:
                columnfile.colfile_to_hdf(cf1, h5, name="peaks", compression="gzip", compression_opts=4)
        gname = "pk.flt" if form == "from-text-file" else "peaks"
        run.count("hdf_writer_form_" + form)
        with quiet():
            b1 = columnfile.colfile_from_hdf(h5, name=gname)
            b2 = columnfile.colfile_from_hdf(h5)                 # autodetect the only peaks group
            b3 = columnfile.columnfile(h5)
        for b, route in ((b1, "name"), (b2, "autodetect"), (b3, "columnfile(hdf)")):
            same(b, t1, written, "hdf:%s:read-%s" % (form, route), "%s writer, %s reader" % (form, route))
        run.count("hdf_history_roundtrips")
        if form != "compressed" and hasattr(columnfile, "mmap_h5colf"):
            try:
                with quiet():
                    mm = columnfile.mmap_h5colf(h5, path=gname)
                ok = same(mm, t1, written, "hdf:mmap", "mmap_h5colf reader")
                run.count("hdf_mmap_reads")
                del mm
            except Exception as e:
                V("hdf:mmap:exception:" + type(e).__name__, "mmap_h5colf on a file written by %s raised %s: %s"
                  % (form, type(e).__name__, e))
        # --- colfileobj_to_hdf twice: documented to create the group, so the second write must refuse and leave the old data
        if form == "colfileobj":
            cfx = columnfile.colfile_from_dict({t: gen_values(r, n, cls(t)) for t in t1})
            raised = None
            try:
                with quiet():
                    columnfile.colfileobj_to_hdf(cfx, h5, name="peaks")
            except Exception as e:
                raised = e
            with quiet():
                b = columnfile.colfile_from_hdf(h5, name="peaks")
            if raised is None:
                if not all(exact(b.getcolumn(t), cfx.getcolumn(t)) or cls(t) == "INTS" and
                           np.array_equal(np.asarray(b.getcolumn(t), float), np.asarray(cfx.getcolumn(t), float)) for t in t1):
                    V("hdf:colfileobj-twice:silent", "second colfileobj_to_hdf did not raise and the file does not hold the new data")
            else:
                same(b, t1, written, "hdf:colfileobj-twice:mixture", "after a refused second colfileobj_to_hdf")
            run.count("hdf_colfileobj_second_write")
            return
        # --- overwrite with another title set
        how = ["fewer", "more", "disjoint", "overlap"][int(r.integers(0, 4))]
        if how == "fewer" and len(t1) < 2:
            how = "more"
        rest = [p for p in pool if p not in t1]
        if how == "fewer":
            t2 = t1[:int(r.integers(1, len(t1)))]
        elif how == "more":
            t2 = t1 + rest[:int(r.integers(1, 3))]
        elif how == "disjoint":
            t2 = rest[:int(r.integers(1, 4))]
        else:
            t2 = t1[:max(1, len(t1) // 2)] + rest[:2]
        n2 = n if r.random() < 0.6 else n + 1
        d2 = {t: gen_values(r, n2, cls(t)) for t in t2}
        cf2 = columnfile.colfile_from_dict({t: d2[t].copy() for t in t2})
        raised = None
        with quiet():
            try:
                columnfile.colfile_to_hdf(cf2, h5, name=gname)
            except Exception as e:
                raised = e
            try:
                b = columnfile.colfile_from_hdf(h5, name=gname)
                if set(b.titles) == set(t2) and b.nrows == n2 and all(
                        np.array_equal(np.asarray(b.getcolumn(t), float), d2[t]) for t in t2):
                    state = "new"
                elif set(b.titles) == set(t1) and b.nrows == n and all(
                        np.array_equal(np.asarray(b.getcolumn(t), float), written[t]) for t in t1):
                    state = "old"
                else:
                    stale = sorted(set(b.titles) - set(t2))
                    state = "a mixture: titles %r, %d rows, columns %r left from the first write" % (sorted(b.titles), b.nrows, stale)
            except Exception as e:
                state = "unreadable (%s: %s)" % (type(e).__name__, str(e)[:80])
        run.count("hdf_overwrites_other_titles")
        run.count("hdf_overwrites_other_titles_" + how)
        if state not in ("new", "old") or (raised is None and state != "new") or (raised is not None and state != "old"):
            # mechanism: colfile_to_hdf never removes datasets of the group that are not titles of the columnfile written now
            leftover = bool(set(t1) - set(t2))
            key = "hdf:overwrite-other-titles:stale-columns" if leftover and raised is None else \
                ("hdf:overwrite-other-titles:mixture-after-error" if raised is not None else "hdf:overwrite-other-titles:lost")
            V(key, "group written with titles %r (%d rows) then with %r (%d rows)%s: the file holds %s"
              % (t1, n, t2, n2, "" if raised is None else " (second write raised %s)" % type(raised).__name__, state))
    finally:
        shutil.rmtree(d, ignore_errors=True)


def grain_h5_history(run, seed, idx, grain, indexing, tmpd):
    import h5py
    r = rng(seed, "C18", "grh5", idx)
    from . import xtal
    ng = int(r.integers(1, 6))

    def mk(tag):
        gs = []
        for k in range(ng):
            cell = xtal.random_cell(r, "triclinic", 3, 12)
            ubi = np.linalg.inv(xtal.random_rotation(r) @ xtal.Bmat(cell))
            g = grain.grain(ubi, translation=r.normal(0, 100, 3) if r.random() < 0.8 else None)
            if r.random() < 0.8:
                g.name = "%s_%d" % (tag, k)
            if r.random() < 0.8:
                g.npks = int(r.integers(1, 10 ** 6))
                g.nuniq = int(r.integers(1, 10 ** 6))
            if r.random() < 0.5:
                g.intensity_info = "sum_of_all = %f , middle 45 from 90 = %f" % (r.random(), r.random())
            gs.append(g)
        return gs
    A, B = mk("first"), mk("second")
    gname = str(r.choice(["grains", "grains_v2", "phase1/grains"]))
    desc = dict(index=idx, kind="grain-h5-history", ngrains=ng, group=gname)
    run.case(("grain-h5-history", ng, gname), nontrivial=True, sample=desc if idx < 2 else None)

    def V(key, what):
        run.violation(key, what, desc)

    def cmp(got, want, key, what):
        if len(got) != len(want):
            V(key + ":count", "%s: %d grains written, %d read" % (what, len(want), len(got)))
            return
        for k, (a, b) in enumerate(zip(got, want)):
            if not np.array_equal(np.asarray(a.ubi), np.asarray(b.ubi)):
                V(key + ":ubi", "%s: grain %d ubi not exactly preserved" % (what, k))
            ta, tb = a.translation, b.translation
            if (ta is None) != (tb is None) and tb is not None or (tb is not None and not np.array_equal(ta, tb)):
                V(key + ":translation", "%s: grain %d translation %r read back as %r" % (what, k, tb, ta))
            for attr in ("name", "npks", "nuniq", "intensity_info"):
                wb = getattr(b, attr, None)
                if wb is None:
                    continue
                wa = getattr(a, attr, None)
                if isinstance(wb, str):
                    ok = isinstance(wa, str) and wa.strip() == wb.strip()
                else:
                    ok = wa is not None and int(wa) == int(wb)
                if not ok:
                    V(key + ":" + attr, "%s: grain %d %s %r read back as %r" % (what, k, attr, wb, wa))
    d = tmpd()
    try:
        fn = os.path.join(d, "g.h5")
        grain.write_grain_file_h5(fn, A, group_name=gname)
        cmp(grain.read_grain_file_h5(fn, group_name=gname), A, "grain-h5:roundtrip", "write_grain_file_h5/read_grain_file_h5")
        run.count("grain_h5_history_roundtrips")
        # documented overwrite route: to_h5py_group "uses require_group to modify existing data if present"
        full = [g for g in B]
        with h5py.File(fn, "a") as hh:
            gg = hh[gname]
            for k, g in enumerate(full):
                g.to_h5py_group(gg, str(k))
        got = grain.read_grain_file_h5(fn, group_name=gname)
        # attributes the second grain does not carry are not promised to disappear: compare what B carries
        cmp(got, B, "grain-h5:overwrite-group", "to_h5py_group onto the existing groups")
        run.count("grain_h5_overwrites")
        # a second write_grain_file_h5 into the same group name must either replace or refuse and leave the file readable
        raised = None
        try:
            grain.write_grain_file_h5(fn, A, group_name=gname)
        except Exception as e:
            raised = e
        got = grain.read_grain_file_h5(fn, group_name=gname)
        cmp(got, A if raised is None else B, "grain-h5:write-twice", "second write_grain_file_h5 (%s)"
            % ("accepted" if raised is None else "refused with " + type(raised).__name__))
        run.count("grain_h5_second_write")
        # cross-format readers of the text files
        tf = os.path.join(d, "g.map")
        grain.write_grain_file(tf, A)
        ub = indexing.readubis(tf)
        if len(ub) != len(A) or any(np.abs(np.asarray(u) - g.ubi).max() > 0.5e-8 * np.abs(g.ubi).max() * 2 for u, g in zip(ub, A)):
            V("grain-text:readubis-on-grain-file", "indexing.readubis does not return the UBIs of a write_grain_file file")
        uf = os.path.join(d, "g.ubi")
        indexing.write_ubi_file(uf, [g.ubi for g in A])
        gl = grain.read_grain_file(uf)
        # write_ubi_file prints 6 decimals
        if len(gl) != len(A) or any(np.abs(np.asarray(q.ubi) - g.ubi).max() > 0.5e-6 * 1.01 + 1e-12 for q, g in zip(gl, A)):
            V("grain-text:read_grain_file-on-ubi-file", "grain.read_grain_file does not return the UBIs of a write_ubi_file file")
        run.count("grain_cross_format_reads")
    finally:
        shutil.rmtree(d, ignore_errors=True)


def text_reader_case(run, seed, idx, columnfile, tmpd):
    r = rng(seed, "C18", "txt", idx)
    titles = ["sc", "fc", "omega", "foo"][:int(r.integers(1, 5))]
    n = int(r.integers(1, 30))
    data = np.round(r.uniform(-500, 500, (n, len(titles))) * 16) / 16          # exactly printable with %r
    hdr = [("cell__a", 4.04), ("cell_lattice_[P,A,B,C,I,F,R]", "F"), ("wavelength", 0.2845),
           ("comment", "a=b"), ("omegasign", 1), ("fit_tolerance", 0.05)]
    hdr = [hdr[i] for i in r.permutation(len(hdr))[:int(r.integers(0, 6))]]
    variant = ["plain", "blank-lines", "two-title-lines", "ragged-last-row", "no-trailing-newline", "tabs"][idx % 6]
    desc = dict(index=idx, kind="text-reader", titles=titles, nrows=n, variant=variant, header=[h[0] for h in hdr])
    run.case(("text-reader", variant, len(titles), n, len(hdr)), nontrivial=True, sample=desc if idx < 2 else None)

    def V(key, what):
        run.violation(key, what, desc)
    d = tmpd()
    try:
        fn = os.path.join(d, "t.flt")
        sep = "\t" if variant == "tabs" else "  "
        lines = []
        for k, v in hdr:
            lines.append("# %s = %s" % (k, v))
            if variant == "blank-lines" and r.random() < 0.5:
                lines.append("")
        if variant == "two-title-lines":
            lines.append("#  " + "  ".join("old%d" % i for i in range(len(titles))))
        lines.append("#" + sep + sep.join(titles))
        if variant == "blank-lines":
            lines.append("   ")
        for row in data:
            lines.append(sep + sep.join(repr(float(x)) for x in row))
        want = data
        if variant == "ragged-last-row" and len(titles) > 1:
            # a file caught while it was being written: the last line is incomplete and is documented to be skipped
            lines.append(sep + sep.join(repr(float(x)) for x in data[0][:-1]))
        txt = "\n".join(lines) + ("" if variant == "no-trailing-newline" else "\n")
        with open(fn, "w") as f:
            f.write(txt)
        try:
            with quiet():
                cf = columnfile.columnfile(fn)
        except Exception as e:
            V("text-reader:%s:exception:%s" % (variant, type(e).__name__), "reading a %s file raised %s: %s"
              % (variant, type(e).__name__, e))
            return
        run.count("text_reader_variants")
        if list(cf.titles) != titles:
            V("text-reader:%s:titles" % variant, "titles %r read as %r" % (titles, list(cf.titles)))
            return
        if cf.nrows != len(want):
            V("text-reader:%s:nrows" % variant, "%d complete rows in the file, %d read" % (len(want), cf.nrows))
            return
        for j, t in enumerate(titles):
            if not np.array_equal(np.asarray(cf.getcolumn(t), float), want[:, j]):
                V("text-reader:%s:value" % variant, "column %s differs from the file" % t)
                return
        for k, v in hdr:
            g = cf.parameters.parameters.get(k, None)
            if g != v or type(g) != type(v):
                V("text-reader:%s:header" % variant, "header line '# %s = %s' read as %r (%s)" % (k, v, g, type(g).__name__))
    finally:
        shutil.rmtree(d, ignore_errors=True)


def sparse_history(run, seed, idx, sparseframe, tmpd):
    import h5py
    r = rng(seed, "C18", "sph", idx)
    shape = (int(r.integers(2, 70)), int(r.integers(2, 70)))

    def mk(nnz):
        flat = np.sort(r.choice(shape[0] * shape[1], size=nnz, replace=False))
        dt = np.uint16 if idx % 3 else np.uint32
        row, col = (flat // shape[1]).astype(dt), (flat % shape[1]).astype(dt)
        px = {"intensity": r.uniform(1, 1000, nnz).astype(np.float32), "labels": r.integers(0, 50, nnz).astype(np.int32)}
        return sparseframe.sparse_frame(row, col, shape, itype=dt, pixels=px), px
    n1 = int(r.integers(1, min(60, shape[0] * shape[1])))
    n2 = n1 if idx % 2 == 0 else int(r.integers(1, min(60, shape[0] * shape[1])))
    desc = dict(index=idx, kind="sparse-history", shape=shape, nnz=[n1, n2])
    run.case(("sparse-history", shape, n1, n2), nontrivial=True, sample=desc if idx < 2 else None)

    def V(key, what):
        run.violation(key, what, desc)

    def same(got, fr, px, key, what):
        if got.shape != tuple(shape) or got.nnz != fr.nnz or not np.array_equal(got.row, fr.row) or \
                not np.array_equal(got.col, fr.col):
            V(key + ":coords", "%s: shape/nnz/row/col not preserved" % what)
            return
        if got.row.dtype != fr.row.dtype:
            V(key + ":itype", "%s: index type %s read back as %s" % (what, fr.row.dtype, got.row.dtype))
        for k, v in px.items():
            if k not in got.pixels or not np.array_equal(got.pixels[k], v) or got.pixels[k].dtype != v.dtype:
                V(key + ":pixels", "%s: pixel array %s not preserved exactly (dtype %s)" % (what, k, v.dtype))
    d = tmpd()
    try:
        fn = os.path.join(d, "s.h5")
        f1, p1 = mk(n1)
        f2, p2 = mk(n2)
        with h5py.File(fn, "a") as hh:
            f1.to_hdf_group(hh.require_group("frame"))
        with h5py.File(fn, "r") as hh:
            same(sparseframe.from_hdf_group(hh["frame"]), f1, p1, "sparse-h5:roundtrip", "first write")
        run.count("sparse_history_roundtrips")
        raised = None
        try:
            with h5py.File(fn, "a") as hh:
                f2.to_hdf_group(hh.require_group("frame"))
        except Exception as e:
            raised = e
        try:
            with h5py.File(fn, "r") as hh:
                got = sparseframe.from_hdf_group(hh["frame"])
            same(got, f2 if raised is None else f1, p2 if raised is None else p1,
                 "sparse-h5:overwrite-%s" % ("same-nnz" if n1 == n2 else "other-nnz"),
                 "second write into the same group (%s)" % ("accepted" if raised is None else "refused with " + type(raised).__name__))
        except Exception as e:
            V("sparse-h5:overwrite:unreadable", "after a second write (%s) the group cannot be read: %s: %s"
              % ("accepted" if raised is None else "refused", type(e).__name__, e))
        run.count("sparse_overwrites")
    finally:
        shutil.rmtree(d, ignore_errors=True)
