"""Kernel driver for C20, run as a child process:
   python -m vlib.kworker '<json cfg>'     cfg: mode=asan|vrt|poison, seed, rounds, threads
asan  : libk_asan.so, every buffer lives in an exactly-sized block from the (interposed) malloc; ASan/UBSan reports go to
        log_path and are attributed to the call after which the log grew
vrt   : libk_sched.so, every buffer registered with its rights; per-access monitor + never-written outputs
poison: libk_plain.so, outputs pre-filled with two different byte patterns; promised outputs must not depend on them
Prints one JSON line."""
import ctypes as C, glob, json, os, sys, time
import numpy as np
from . import klib, kspecs, build
from .common import rng


# kernels that accumulate floating point sums in an OpenMP reduction: combination order depends on the schedule
FLOAT_REDUCTIONS = {"array_mean_var_cut", "array_mean_var_msk", "array_stats", "frelon_lines", "frelon_lines_sub"}


def call_args(spec, ptrs):
    args = []
    bi = 0
    for a in spec["args"]:
        if isinstance(a, kspecs.Buf):
            args.append(C.c_void_p(ptrs[bi]))
            bi += 1
        elif isinstance(a, tuple):
            args.append(C.c_float(a[1]) if a[0] == "f" else C.c_double(a[1]))
        else:
            args.append(C.c_int(int(a)))
    return args


def get_fn(lib, spec):
    f = getattr(lib, spec["fn"])
    f.restype = {"int": C.c_int, "double": C.c_double, None: None}[spec["res"]]
    f.argtypes = None
    return f


def describe(spec):
    d = []
    for a in spec["args"]:
        if isinstance(a, kspecs.Buf):
            d.append("%s:%s%s" % (a.name, a.arr.dtype, list(a.arr.shape)))
        elif isinstance(a, tuple):
            d.append(repr(a[1]))
        else:
            d.append(str(a))
    return "%s(%s)" % (spec["fn"], ", ".join(d))


def pyf_signatures():
    """{function: [argument names in C call order]} from the interface file the f2py module is generated from"""
    import re
    from .common import REPO
    txt = open(os.path.join(REPO, "src", "_cImageD11.pyf")).read()
    txt = re.sub(r"&[ \t]*\n", " ", txt)
    sigs = {}
    for m in re.finditer(r"^[ \t]*(?:subroutine|function)[ \t]+(\w+)[ \t]*\(([^)]*)\)", txt, re.M):
        sigs[m.group(1)] = [a.strip() for a in m.group(2).split(",") if a.strip()]
    return sigs


def wrapper_arguments(mod, sigs, spec):
    """(wrapper, positional args, keyword args, names of hidden arguments) for one call spec.  The spec lists the
    arguments in C order, the .pyf block names them in the same order, the wrapper's doc line says which of them are
    visible (hidden ones - the dimensions - are computed by the wrapper from the .pyf declarations: that computation is
    what this layer checks)"""
    import re
    name = spec["fn"][2:] if spec["fn"].startswith("v_") else spec["fn"]
    w = getattr(mod, name)
    names = sigs[name]
    if len(names) != len(spec["args"]):
        raise RuntimeError("%s: .pyf lists %d arguments, the call spec %d" % (name, len(names), len(spec["args"])))
    val = dict(zip(names, spec["args"]))
    doc = w.__doc__.splitlines()[0]
    inside = doc[doc.index("(") + 1:doc.rindex(")")]
    req, opt = (inside.split("[") + [""])[:2]
    req = [a.strip() for a in req.split(",") if a.strip()]
    opt = [a.strip() for a in opt.replace("]", "").split(",") if a.strip()]
    return w, req, opt, val, [n for n in names if n not in req and n not in opt]


def name_of(spec):
    return spec["fn"][2:] if spec["fn"].startswith("v_") else spec["fn"]


def main():
    cfg = json.loads(sys.argv[1])
    mode, seed, rounds = cfg["mode"], cfg["seed"], cfg["rounds"]
    # some kernels print (verbose=1, boundscheck=1 rejections, "Error" lines): C stdio is flushed at exit, i.e. after
    # our JSON line.  Keep the real stdout for the result and point fd 1 at /dev/null for everything else.
    sys.stdout.flush()
    result_fd = os.dup(1)
    devnull = os.open(os.devnull, os.O_WRONLY)
    os.dup2(devnull, 1)
    out = dict(counters={}, violations=[], kernels={}, samples=[])
    cnt = out["counters"]

    class LogWatch(object):
        """sizes of the sanitizer log AND of this process' stderr (redirected to a file): gcc's UBSan runtime prints its
        'runtime error' reports to fd 2 whatever log_path says, so both are watched; text that is no sanitizer report
        (python warnings) is dropped"""
        def __init__(self, logpat):
            self.files = [logpat, cfg["log_path"] + ".stderr.%d" % os.getpid()]
            sys.stderr.flush()
            fd = os.open(self.files[1], os.O_WRONLY | os.O_CREAT | os.O_APPEND, 0o644)
            os.dup2(fd, 2)
            os.close(fd)
            self.pos = [0, 0]

        def sizes(self):
            return [os.path.getsize(f) if os.path.exists(f) else 0 for f in self.files]

        def mark(self):
            self.pos = self.sizes()

        def new_text(self):
            """sanitizer reports written since mark() ('' if none); moves the mark"""
            txt = ""
            now = self.sizes()
            for f, a, b in zip(self.files, self.pos, now):
                if b > a:
                    with open(f, errors="replace") as fh:
                        fh.seek(a)
                        txt += fh.read()
            self.pos = now
            return txt if ("runtime error" in txt or "Sanitizer" in txt) else ""

    def count(k, n=1):
        cnt[k] = cnt.get(k, 0) + n
    if mode == "asan":
        lib = C.CDLL(build.kernel_lib("asan"))
        libc = C.CDLL(None)
        libc.malloc.restype = C.c_void_p
        libc.malloc.argtypes = [C.c_size_t]
        libc.free.argtypes = [C.c_void_p]
        logpat = cfg["log_path"] + ".%d" % os.getpid()
        watch = LogWatch(logpat)
    elif mode == "vrt":
        v = klib.Vrt()
        lib = v.lib
    elif mode == "f2py":
        # the ASan+UBSan build of the real extension module (this process runs under build.child_env("asan"))
        import ImageD11._cImageD11 as mod
        ok, where = build.assert_overlay_loaded()
        if not ok:
            os.write(result_fd, (json.dumps(dict(error="compiled module not from the overlay: %s" % where)) + "\n").encode())
            return
        lib = None
        sigs = pyf_signatures()
        libc = C.CDLL(None)
        libc.malloc.restype = C.c_void_p
        libc.malloc.argtypes = [C.c_size_t]
        libc.free.argtypes = [C.c_void_p]
        logpat = cfg["log_path"] + ".%d" % os.getpid()
        watch = LogWatch(logpat)
    else:
        lib = C.CDLL(build.kernel_lib("plain"))
    t0 = time.time()
    seen_keys = set()
    secs = out["seconds_by_kernel"] = {}
    for rd in range(rounds):
        for gi, gen in enumerate(kspecs.GENERATORS):
            r = rng(seed, "C20", mode, rd, gi)
            try:
                specs = gen(r, rd)
            except Exception as e:
                out["violations"].append(dict(key="harness:generator", what="generator %s failed: %s" % (gen.__name__, e), replay={}))
                continue
            for spec in specs:
                if cfg.get("only") and spec["fn"] not in cfg["only"]:
                    continue
                bufs = [a for a in spec["args"] if isinstance(a, kspecs.Buf)]
                desc = describe(spec)
                out["kernels"][spec["fn"]] = out["kernels"].get(spec["fn"], 0) + 1
                if spec.get("cls"):
                    # input-class counters: the check requires the classes that must have been exercised
                    count("cls:%s:%s" % (mode, spec["cls"]))
                if len(out["samples"]) < 8 and spec["fn"] not in [s.split("(")[0] for s in out["samples"]]:
                    out["samples"].append(desc)
                f = get_fn(lib, spec) if lib is not None else None
                tk0 = time.time()
                replay = dict(mode=mode, round=rd, generator=gen.__name__, call=desc)
                if mode == "f2py":
                    try:
                        w, req, opt, val, hidden = wrapper_arguments(mod, sigs, spec)
                    except Exception as e:
                        out["violations"].append(dict(key="harness:f2py-signature", what="%s: %s" % (spec["fn"], e), replay=replay))
                        continue
                    for nt in cfg["threads"]:
                        mod.cimaged11_omp_set_num_threads(nt)
                        blocks, conv = [], {}
                        for nm, a in val.items():
                            if isinstance(a, kspecs.Buf):
                                nb = a.arr.nbytes
                                if nb:
                                    # numpy array living in an exactly-sized block of the interposed malloc: red zones
                                    # start at the first byte the declaration must not reach
                                    p = libc.malloc(nb)
                                    C.memmove(p, a.arr.ctypes.data, nb)
                                    blocks.append(p)
                                    conv[nm] = np.frombuffer((C.c_ubyte * nb).from_address(p), dtype=a.arr.dtype).reshape(a.arr.shape)
                                else:
                                    conv[nm] = np.zeros(a.arr.shape, a.arr.dtype)
                            elif isinstance(a, tuple):
                                conv[nm] = float(a[1])
                            else:
                                conv[nm] = int(a)
                        watch.mark()
                        try:
                            w(*[conv[n] for n in req], **{n: conv[n] for n in opt})
                            count("f2py_calls")
                            cnt["f2py_hidden_dimension_arguments"] = cnt.get("f2py_hidden_dimension_arguments", 0) + len(hidden)
                            out.setdefault("f2py_accepted", {})[spec["fn"]] = out.setdefault("f2py_accepted", {}).get(spec["fn"], 0) + 1
                        except Exception as e:
                            # the wrapper refused the call (shape/type test of the interface): no kernel ran, nothing
                            # for this property to decide; listed so that an interface that refuses everything is seen
                            count("f2py_wrapper_refusals")
                            out.setdefault("f2py_refused", {}).setdefault(spec["fn"], "%s: %s" % (desc, str(e)[:200]))
                        txt = watch.new_text()
                        if txt:
                            out["violations"].append(dict(key="pending", what="f2py wrapper " + desc, report=txt[:6000],
                                                          replay=dict(replay, threads=nt)))
                        # output delivery: the same call with ONE output / in-out array given the way callers may hold it
                        # (a column of a wider table, numpy's default integer width).  The wrapper may refuse it; if it
                        # accepts, the caller's own array must hold what the ordinary call produced - a wrapper that
                        # fills a temporary copy and drops it leaves the promised output undefined.  One thread only
                        # (multi-thread float reductions differ from run to run).
                        if nt == 1 and not txt:
                            for nm, a in val.items():
                                if not (isinstance(a, kspecs.Buf) and a.role in ("out", "inout") and a.arr.size >= 2
                                        and nm in conv and isinstance(conv[nm], np.ndarray)):
                                    continue
                                kinds = ["strided"]
                                if a.arr.dtype == np.int32:
                                    kinds.append("int64")
                                for kind in kinds:
                                    conv2 = {}
                                    for nm2, a2 in val.items():
                                        if isinstance(a2, kspecs.Buf):
                                            conv2[nm2] = a2.arr.copy()
                                        elif isinstance(a2, tuple):
                                            conv2[nm2] = float(a2[1])
                                        else:
                                            conv2[nm2] = int(a2)
                                    if kind == "int64":
                                        var = a.arr.astype(np.int64)
                                    else:
                                        wide = np.zeros(a.arr.shape + (2,), a.arr.dtype)
                                        wide[..., 0] = a.arr
                                        var = wide[..., 0]
                                    conv2[nm] = var
                                    try:
                                        w(*[conv2[n] for n in req], **{n: conv2[n] for n in opt})
                                    except Exception:
                                        count("f2py_output_variants_refused")
                                        continue
                                    count("f2py_output_variants_accepted")
                                    same = np.array_equal(np.asarray(var).astype(a.arr.dtype), conv[nm], equal_nan=(a.arr.dtype.kind == "f"))
                                    if not same:
                                        out["violations"].append(dict(
                                            key="f2py:output-not-delivered:%s:%s" % (name_of(spec), nm),
                                            what="wrapper accepted a %s array for the %s argument %s of %s but the caller's array "
                                                 "does not hold the result of the call" % (kind, a.role, nm, name_of(spec)),
                                            replay=dict(replay, threads=nt, variant=kind, argument=nm)))
                        # input acceptance: the same call with ONE input array given as a column of a wider table (same
                        # values, other strides).  Refusal is fine; if the wrapper accepts, every output must be what the
                        # ordinary call produced (the wrapper's copy-in must honour shape and order of the declaration).
                        if nt == 1 and (rd % 3 == 0):
                            outs = [nm for nm, a in val.items() if isinstance(a, kspecs.Buf) and a.role in ("out", "inout")
                                    and isinstance(conv.get(nm), np.ndarray)]
                            for nm, a in val.items():
                                if not (isinstance(a, kspecs.Buf) and a.role == "in" and a.arr.size >= 2 and outs):
                                    continue
                                conv2 = {}
                                for nm2, a2 in val.items():
                                    if isinstance(a2, kspecs.Buf):
                                        conv2[nm2] = a2.arr.copy()
                                    elif isinstance(a2, tuple):
                                        conv2[nm2] = float(a2[1])
                                    else:
                                        conv2[nm2] = int(a2)
                                wide = np.zeros(a.arr.shape + (2,), a.arr.dtype)
                                wide[..., 0] = a.arr
                                conv2[nm] = wide[..., 0]
                                try:
                                    w(*[conv2[n] for n in req], **{n: conv2[n] for n in opt})
                                except Exception:
                                    count("f2py_input_variants_refused")
                                    continue
                                count("f2py_input_variants_accepted")
                                for on in outs:
                                    if not np.array_equal(conv2[on], conv[on], equal_nan=(conv[on].dtype.kind == "f")):
                                        out["violations"].append(dict(
                                            key="f2py:input-variant-changes-result:%s:%s" % (name_of(spec), nm),
                                            what="with the input %s of %s given as a strided array (same values) the output %s "
                                                 "differs from the ordinary call" % (nm, name_of(spec), on),
                                            replay=dict(replay, threads=nt, argument=nm)))
                                        break
                        conv = None
                        for p in blocks:
                            libc.free(p)
                elif mode == "asan":
                    for nt in cfg["threads"]:
                        lib.cimaged11_omp_set_num_threads(nt)
                        ptrs = []
                        for b in bufs:
                            nb = b.arr.nbytes
                            p = libc.malloc(nb if nb else 16)
                            # a zero-length buffer gets a 16 byte block and the pointer to its END (aligned for every
                            # element type, so UBSan alignment checks stay quiet): any access is out of bounds
                            if nb == 0:
                                ptrs.append(p + 16)
                            else:
                                C.memmove(p, b.arr.ctypes.data, nb)
                                ptrs.append(p)
                            b._p = p
                        watch.mark()
                        f(*call_args(spec, ptrs))
                        count("asan_calls")
                        txt = watch.new_text()
                        if txt:
                            out["violations"].append(dict(key="pending", what=desc, report=txt[:6000], replay=dict(replay, threads=nt)))
                        for b in bufs:
                            libc.free(b._p)
                elif mode == "vrt":
                    first_result = None
                    base = [b.arr.copy() for b in bufs]
                    for (nt, sch) in cfg["threads"]:
                        # sch 0 sequential team, 1 random schedule, 4 race-directed (two sequential profiling passes that find
                        # the code locations touching cells shared between threads, then schedules that park threads there)
                        plan = [(sch, 1)] if sch != 4 else [(2, 1), (3, 1), (4, cfg.get("directed_runs", 3))]
                        arrs = [a.copy() for a in base]
                        if sch == 4:
                            v.lib.vrt_profile_clear()
                        for (m_, reps) in plan:
                          for rep in range(reps):
                            for a, a0 in zip(arrs, base):
                                a[...] = a0
                            sseed = int(r.integers(1, 2 ** 62))
                            v.begin(sseed, nt, int(r.choice([3, 20, 100])), int(r.choice([0, 300])), m_)
                            regs = []
                            for b, a in zip(bufs, arrs):
                                rights = klib.R if b.role == "in" else klib.RW
                                regs.append(v.region(b.name, a, rights, track=b.role in ("out", "scratch")))
                            rv = f(*call_args(spec, [a.ctypes.data for a in arrs]))
                            st = v.stats()
                            count("vrt_calls")
                            count("vrt_accesses_checked", st["accesses"])
                            count("vrt_switches", st["switches"])
                            if m_ == 4:
                                count("vrt_directed_runs")
                                count("vrt_parks", int(v.lib.vrt_parks()))
                                cnt["vrt_hot_pcs_max"] = max(cnt.get("vrt_hot_pcs_max", 0), int(v.lib.vrt_hot_count()))
                            snap = [(b.name, a.copy()) for b, a in zip(bufs, arrs)
                                    if b.role == "inout" or (b.role == "out" and b.full)]
                            if first_result is None:
                                first_result = (rv, snap)
                            elif m_ in (1, 4):
                                count("schedule_determinism_comparisons")
                                fr = spec["fn"] in FLOAT_REDUCTIONS
                                bad = None
                                if not fr and rv != first_result[0] and not (rv != rv):
                                    bad = "return value %r vs %r" % (rv, first_result[0])
                                for (nm, a), (_, a0) in zip(snap, first_result[1]):
                                    same = np.allclose(a, a0, rtol=1e-4, atol=1e-4, equal_nan=True) if fr else \
                                        (a.tobytes() == a0.tobytes())
                                    if not same:
                                        bad = "buffer %s" % nm
                                if bad and not cfg.get("determinism_is_violation"):
                                    out.setdefault("schedule_dependent_observed", {}).setdefault(spec["fn"], desc)
                                elif bad:
                                    key = "schedule-dependent:%s" % spec["fn"]
                                    if key not in seen_keys:
                                        seen_keys.add(key)
                                        out["violations"].append(dict(
                                            key=key, what="%s: result under a controlled schedule (threads %d, mode %d, seed %d) "
                                            "differs from the sequential single-thread result: %s; call %s"
                                            % (spec["fn"], nt, m_, sseed, bad, desc),
                                            replay=dict(replay, threads=nt, sched=m_, sched_seed=sseed)))
                            if st["violations"]:
                                for ev in v.violations()[:3]:
                                    key = "access:%s:%s" % (ev["kind"], ev.get("where", spec["fn"]).split(" ")[0])
                                    if (key, ev.get("where")) not in seen_keys:
                                        seen_keys.add((key, ev.get("where")))
                                        out["violations"].append(dict(
                                            key=key, what="%s: %s of %d bytes at %s offset %d (%s) in call %s"
                                            % (spec["fn"], ev["kind"], ev["size"], ev["region"], ev["region_offset"],
                                               ev.get("where", "?"), desc),
                                            replay=dict(replay, threads=nt, sched=m_, sched_seed=sseed)))
                                count("vrt_access_events", st["violations"])
                            for b, rg in zip(bufs, regs):
                                if b.role == "out" and b.full and b.arr.nbytes:
                                    nu, first = v.unwritten(rg)
                                    if nu:
                                        key = "definedness:%s:%s" % (spec["fn"], b.name)
                                        if key not in seen_keys:
                                            seen_keys.add(key)
                                            out["violations"].append(dict(
                                                key=key, what="%s: %d of %d bytes of promised output %s never written (first at byte %d) in %s"
                                                % (spec["fn"], nu, b.arr.nbytes, b.name, first, desc),
                                                replay=dict(replay, threads=nt, sched=m_)))
                                    count("outputs_checked_for_definedness")
                else:   # poison
                    res = []
                    for pat in (0xAA, 0x55):
                        arrs = []
                        for b in bufs:
                            a = b.arr.copy()
                            if b.role in ("out", "scratch"):
                                a.view(np.uint8).reshape(-1)[:] = pat
                            arrs.append(a)
                        lib.cimaged11_omp_set_num_threads(cfg["threads"][0])
                        rv = f(*call_args(spec, [a.ctypes.data for a in arrs]))
                        res.append((rv, arrs))
                    count("poison_calls", 2)
                    for bi, b in enumerate(bufs):
                        if b.role == "out" and b.full and b.arr.nbytes:
                            a0 = res[0][1][bi].view(np.uint8).reshape(-1)
                            a1 = res[1][1][bi].view(np.uint8).reshape(-1)
                            count("outputs_checked_for_definedness")
                            if not np.array_equal(a0, a1):
                                k = int(np.nonzero(a0 != a1)[0][0])
                                key = "definedness:%s:%s" % (spec["fn"], b.name)
                                if key not in seen_keys:
                                    seen_keys.add(key)
                                    out["violations"].append(dict(
                                        key=key, what="%s: promised output %s depends on the previous buffer content (byte %d) in %s"
                                        % (spec["fn"], b.name, k, desc), replay=replay))
                    if res[0][0] != res[1][0] and not (res[0][0] != res[0][0]):
                        out["violations"].append(dict(key="definedness:%s:return" % spec["fn"],
                                                      what="return value depends on buffer poison in %s" % desc, replay=replay))
                secs[spec["fn"]] = secs.get(spec["fn"], 0.0) + time.time() - tk0
        if time.time() - t0 > cfg.get("budget_s", 1e9):
            out["stopped_after_rounds"] = rd + 1
            break
    os.write(result_fd, (json.dumps(out) + "\n").encode())


if __name__ == "__main__":
    main()
