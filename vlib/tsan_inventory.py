"""ThreadSanitizer race inventory for the OpenMP kernels.
python -m vlib.tsan_inventory <kernel> <nimages> <seed>  -> one JSON line
The workload runs in a child python under LD_PRELOAD=libtsan.so with the kernel library linked against the pthread
GOMP shim; reports are collected from log files and de-duplicated by the pair of innermost source lines."""
import glob, json, os, re, shutil, subprocess, sys, tempfile
from . import build
from .common import WORK, PY, VERIF


def parse_logs(pattern):
    pairs = {}
    nrep = 0
    for f in glob.glob(pattern):
        txt = open(f, errors="replace").read()
        for block in txt.split("WARNING: ThreadSanitizer: data race")[1:]:
            nrep += 1
            locs = []
            kinds = []
            for m in re.finditer(r"\n  (Write|Read|Previous write|Previous read|Atomic write|Atomic read|Previous atomic write|Previous atomic read) of size (\d+).*?\n\s+#0 (\S+) (\S+?):(\d+)", block):
                kinds.append(m.group(1).replace("Previous ", "").lower())
                locs.append("%s:%s" % (os.path.basename(m.group(4)), m.group(5)))
            if len(locs) >= 2:
                key = tuple(sorted(zip(locs[:2], kinds[:2])))
                pairs[key] = pairs.get(key, 0) + 1
    return nrep, pairs


def main():
    kernel, nimg, seed = sys.argv[1], int(sys.argv[2]), int(sys.argv[3])
    lib = build.kernel_lib("tsan")
    tmp = tempfile.mkdtemp(prefix="tsan_", dir=os.path.join(WORK, "tmp") if os.path.isdir(os.path.join(WORK, "tmp")) else None)
    env = dict(os.environ)
    env["LD_PRELOAD"] = build.gcc_file("libtsan.so")
    env["TSAN_OPTIONS"] = "halt_on_error=0:report_signal_unsafe=0:log_path=%s/tsan:exitcode=0:history_size=4" % tmp
    env["PYTHONPATH"] = VERIF
    env["VERIF_TSAN_LIB"] = lib
    try:
        p = subprocess.run([PY, "-m", "vlib.tsan_worker", kernel, str(nimg), str(seed)], env=env, cwd=VERIF,
                           stdout=subprocess.PIPE, stderr=subprocess.PIPE, timeout=2400)
        nrep, pairs = parse_logs(os.path.join(tmp, "tsan*"))
        runs = 0
        try:
            runs = json.loads(p.stdout.decode().strip().splitlines()[-1])["runs"]
        except Exception:
            pass
        out = dict(kernel=kernel, runs=runs, reports=nrep, rc=p.returncode,
                   pairs=[dict(a="%s (%s)" % k[0], b="%s (%s)" % k[1], count=c) for k, c in sorted(pairs.items())])
        if p.returncode != 0:
            out["stderr"] = p.stderr.decode(errors="replace")[-400:]
        print(json.dumps(out))
    finally:
        shutil.rmtree(tmp, ignore_errors=True)


if __name__ == "__main__":
    main()
