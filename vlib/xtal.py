"""Harness-side crystallography helpers (independent of ImageD11)."""
import numpy as np

LD = np.longdouble


def metric(cell):
    a, b, c, al, be, ga = [float(x) for x in cell]
    ca, cb, cg = [np.cos(np.radians(x)) for x in (al, be, ga)]
    return np.array([[a * a, a * b * cg, a * c * cb],
                     [a * b * cg, b * b, b * c * ca],
                     [a * c * cb, b * c * ca, c * c]], float)


def cell_from_metric(G):
    a, b, c = np.sqrt(np.diag(G))
    al = np.degrees(np.arccos(G[1, 2] / b / c))
    be = np.degrees(np.arccos(G[0, 2] / a / c))
    ga = np.degrees(np.arccos(G[0, 1] / a / b))
    return np.array([a, b, c, al, be, ga])


def Bmat(cell):
    """Busing-Levy B: upper triangular, positive diagonal, B^T B = G* (unique:
    it is the transposed Cholesky factor of the reciprocal metric)."""
    Gi = np.linalg.inv(metric(cell))
    Gi = 0.5 * (Gi + Gi.T)
    return np.linalg.cholesky(Gi).T


def volume_ok(cell, vmin=0.05):
    al, be, ga = np.radians(cell[3:])
    v2 = 1 - np.cos(al) ** 2 - np.cos(be) ** 2 - np.cos(ga) ** 2 + \
        2 * np.cos(al) * np.cos(be) * np.cos(ga)
    return v2 > vmin


def random_rotation(r, kind="haar"):
    if kind == "identity":
        return np.eye(3)
    if kind == "near-identity":
        ax = r.normal(size=3)
        return rot_axis_angle(ax, 10 ** r.uniform(-9, -3))
    if kind == "pi":
        ax = r.normal(size=3)
        return rot_axis_angle(ax, np.pi)
    if kind == "near-pi":
        ax = r.normal(size=3)
        return rot_axis_angle(ax, np.pi - 10 ** r.uniform(-6, -2))
    q = r.normal(size=4)
    q /= np.sqrt((q * q).sum())
    w, x, y, z = q
    return np.array([[1 - 2 * (y * y + z * z), 2 * (x * y - z * w), 2 * (x * z + y * w)],
                     [2 * (x * y + z * w), 1 - 2 * (x * x + z * z), 2 * (y * z - x * w)],
                     [2 * (x * z - y * w), 2 * (y * z + x * w), 1 - 2 * (x * x + y * y)]])


def rot_axis_angle(ax, ang):
    ax = np.asarray(ax, float)
    ax = ax / np.sqrt((ax * ax).sum())
    K = np.array([[0, -ax[2], ax[1]], [ax[2], 0, -ax[0]], [-ax[1], ax[0], 0]])
    return np.eye(3) + np.sin(ang) * K + (1 - np.cos(ang)) * (K @ K)


def rot_from_rodrigues(rod):
    rod = np.asarray(rod, float)
    rr = rod @ rod
    K = np.array([[0, -rod[2], rod[1]], [rod[2], 0, -rod[0]], [-rod[1], rod[0], 0]])
    return ((1 - rr) * np.eye(3) + 2 * np.outer(rod, rod) + 2 * K) / (1 + rr)


def random_sym_stretch(r, mag):
    """symmetric positive definite S = I + e, |e| ~ mag"""
    e = r.uniform(-mag, mag, (3, 3))
    e = 0.5 * (e + e.T)
    return np.eye(3) + e


KINDS = ["triclinic", "monoclinic", "orthorhombic", "tetragonal", "hexagonal", "rhombohedral", "cubic"]


def random_cell(r, kind="triclinic", lo=2.0, hi=30.0):
    while True:
        a, b, c = r.uniform(lo, hi, 3)
        if kind == "triclinic":
            al, be, ga = r.uniform(55, 125, 3)
        elif kind == "monoclinic":
            al, ga, be = 90.0, 90.0, r.uniform(91, 125)
        elif kind == "orthorhombic":
            al = be = ga = 90.0
        elif kind == "tetragonal":
            b = a
            al = be = ga = 90.0
        elif kind == "hexagonal":
            b = a
            al = be = 90.0
            ga = 120.0
        elif kind == "rhombohedral":
            b = c = a
            al = be = ga = r.uniform(55, 115)
        elif kind == "cubic":
            b = c = a
            al = be = ga = 90.0
        else:
            raise ValueError(kind)
        cell = [float(x) for x in (a, b, c, al, be, ga)]
        if volume_ok(cell):
            return cell


def is_int_matrix(M, tol):
    return bool(np.abs(M - np.round(M)).max() <= tol)


def lattice_equiv(ubi1, ubi2, tol=1e-6):
    """same lattice (proper): M = ubi1 . inv(ubi2) integer with det +1"""
    M = ubi1 @ np.linalg.inv(ubi2)
    return is_int_matrix(M, tol) and abs(np.linalg.det(np.round(M)) - 1) < 1e-9
