"""icontract postconditions on ImageD11.columnfile.columnfile (M-CONTRACT, DESIGN.md 3.6).

install() wraps the public mutators of the real class with named-function postconditions (explicit error=) and
counts evaluations; references bound before install() would bypass them, so a zero count is reported as
inconclusive by the caller.  Used by the C17 check for its own histories and for re-running the repository's
columnfile tests with the contracts switched on.
"""
import numpy as np
import icontract

COUNT = {"evaluations": 0}


class PostBroken(AssertionError):
    pass


def _views_ok(cf):
    n = cf.nrows
    for t in cf.titles:
        a = getattr(cf, t, None)
        g = cf.getcolumn(t)
        if a is None or np.ndim(a) != 1 or len(a) != n or len(g) != n:
            return False
        if not np.array_equal(np.asarray(a, float), np.asarray(g, float), equal_nan=True):
            return False
    return True


def _rows(cf):
    if cf.nrows > 20000 or len(cf.titles) == 0:
        return None
    arr = np.array([np.asarray(cf.getcolumn(t), float) for t in cf.titles]).T
    return sorted(map(tuple, np.nan_to_num(arr, nan=-9.87e300).tolist()))


# ---- snapshots
def snap_rows(self):
    return _rows(self)


def snap_nrows(self):
    return self.nrows


def snap_titles(self):
    return list(self.titles)


def snap_cols(self):
    return {t: np.array(self.getcolumn(t), copy=True) for t in self.titles} if self.nrows <= 20000 else None


# ---- postconditions (argument names match the wrapped methods)
def post_filter(self, mask, OLD):
    COUNT["evaluations"] += 1
    return self.nrows == int(np.count_nonzero(np.asarray(mask, bool))) and _views_ok(self) and \
        list(self.titles) == OLD.titles


def post_reorder(self, indices, OLD):
    COUNT["evaluations"] += 1
    return self.nrows == OLD.n and _views_ok(self) and (OLD.rows is None or _rows(self) == OLD.rows)


def post_sortby(self, name, OLD):
    COUNT["evaluations"] += 1
    key = np.asarray(self.getcolumn(name), float)
    return self.nrows == OLD.n and _views_ok(self) and not (np.diff(key) < 0).any() and \
        (OLD.rows is None or _rows(self) == OLD.rows)


def post_addcolumn(self, col, name, OLD):
    COUNT["evaluations"] += 1
    if self.nrows != OLD.n or name not in self.titles or not _views_ok(self):
        return False
    got = np.asarray(self.getcolumn(name))
    want = np.asarray(col, float)
    # an existing column living in a typed 2-D array keeps that type: numpy's cast of the written values is accepted
    cast = want.astype(got.dtype).astype(float) if got.dtype.kind in "iuf" else want
    if not np.array_equal(got.astype(float), want, equal_nan=True) and not np.array_equal(got.astype(float), cast, equal_nan=True):
        return False
    if OLD.cols is not None:
        for t, v in OLD.cols.items():
            if t != name and not np.array_equal(np.asarray(self.getcolumn(t), float), np.asarray(v, float), equal_nan=True):
                return False
    return [t for t in self.titles if t != name] == [t for t in OLD.titles if t != name]


def post_copy(self, result):
    COUNT["evaluations"] += 1
    if result.nrows != self.nrows or list(result.titles) != list(self.titles) or not _views_ok(result):
        return False
    for t in self.titles:
        if not np.array_equal(np.asarray(result.getcolumn(t), float), np.asarray(self.getcolumn(t), float), equal_nan=True):
            return False
        for u in self.titles:
            if np.shares_memory(np.asarray(result.getcolumn(t)), np.asarray(self.getcolumn(u))):
                return False
    return True


def post_copyrows(self, rows, result):
    COUNT["evaluations"] += 1
    if list(result.titles) != list(self.titles) or not _views_ok(result):
        return False
    for t in self.titles:
        want = np.asarray(self.getcolumn(t))[rows]
        if not np.array_equal(np.asarray(result.getcolumn(t), float), np.asarray(want, float), equal_nan=True):
            return False
    return True


def post_removerows(self, column_name, OLD):
    COUNT["evaluations"] += 1
    return self.nrows <= OLD.n and _views_ok(self)


def post_set_bigarray(self, ar):
    COUNT["evaluations"] += 1
    return self.nrows == len(ar[0]) and _views_ok(self)


def install():
    from ImageD11 import columnfile as cfm
    C = cfm.columnfile
    if getattr(C, "_verif_contracts", False):
        return C
    E = icontract.ensure
    S = icontract.snapshot

    def wrap(name, post, snaps):
        f = getattr(C, name)
        def err():
            return PostBroken("postcondition %s of columnfile.%s violated" % (post.__name__, name))
        f = E(post, error=err)(f)
        for snapf, nm in snaps:
            f = S(snapf, name=nm)(f)
        setattr(C, name, f)
    wrap("filter", post_filter, [(snap_titles, "titles")])
    wrap("reorder", post_reorder, [(snap_nrows, "n"), (snap_rows, "rows")])
    wrap("sortby", post_sortby, [(snap_nrows, "n"), (snap_rows, "rows")])
    wrap("addcolumn", post_addcolumn, [(snap_nrows, "n"), (snap_titles, "titles"), (snap_cols, "cols")])
    wrap("copy", post_copy, [])
    wrap("copyrows", post_copyrows, [])
    wrap("removerows", post_removerows, [(snap_nrows, "n")])
    wrap("set_bigarray", post_set_bigarray, [])
    C.bigarray = property(fget=C.get_bigarray, fset=C.set_bigarray)
    C._verif_contracts = True
    return C


if __name__ == "__main__":
    # run the repository's own columnfile tests with the contracts on
    import sys, json
    install()
    import pytest
    rc = pytest.main(["-q", "-p", "no:cacheprovider", "-x"] + sys.argv[1:])
    print("CONTRACT_EVALUATIONS %d" % COUNT["evaluations"])
    sys.exit(int(rc))
