"""Controlled-scheduler tier of C13, run as a child process (no ImageD11 import, no libgomp):
python -m vlib.sched_c13 '<json config>'  -> prints one JSON line with counters/violations/cases."""
import json, sys, time
import numpy as np
from . import klib
from .common import rng
from .checks import c13

SETTINGS = [(40, 0), (8, 300), (3, 300), (200, 100), (15, 600), (2, 0)]   # (mean gap, per-mille yield-after-write)
THREADS = (2, 3, 4, 8, 16, 64)


BUF = {}


def run_one(v, img, nt, seed, gap, pyw, poison, mode=1):
    # the same two buffers are re-used for every run on one image so that the addresses seen by the profiling passes
    # of the race-directed mode are those of the scheduled runs
    key = img.shape
    if key not in BUF:
        BUF.clear()
        BUF[key] = (np.empty(img.shape, np.int32), np.empty(img.shape, np.uint8))
    lab, wrk = BUF[key]
    lab[...] = poison[0]
    wrk[...] = poison[1]
    v.begin(seed, nt, gap, pyw, mode)
    v.region("data", img, klib.R)
    rl = v.region("labels", lab, klib.RW, track=True)
    rw = v.region("wrk", wrk, klib.RW, track=True)
    n = v.lib.localmaxlabel(klib.ptr(img), klib.ptr(lab), klib.ptr(wrk), img.shape[0], img.shape[1])
    st = v.stats()
    st["parks"] = int(v.lib.vrt_parks())
    return n, lab.copy(), st, (rl, rw)


def main():
    cfg = json.loads(sys.argv[1])
    v = klib.Vrt()
    out = dict(counters={}, violations=[], cases=[], extra={})
    cnt = out["counters"]

    def count(k, n=1):
        cnt[k] = cnt.get(k, 0) + n
    hashes = set()
    if "replay" in cfg:
        cs = cfg["replay"]
        r = rng(cs["img_seed"], "C13", "sched", cs["index"])
        img = c13.gen_image(r, tuple(cs["shape"]), cs["cls"])
        want, npk, plen = c13.ref_dense(img)
        v.lib.vrt_profile_clear()
        for pm in (2, 3):
            run_one(v, img, cs["threads"], 1, 50, 0, (0, 0), mode=pm)
        n, lab, st, _ = run_one(v, img, cs["threads"], cs["sched_seed"], cs["gap"], cs["pyw"], tuple(cs["poison"]),
                                mode=cs.get("mode", 1))
        if n != npk or not np.array_equal(lab, want):
            out["violations"].append(dict(key="localmaxlabel:controlled-schedule", what="replayed: %d pixels differ"
                                          % int((lab != want).sum()), replay=cs))
        print(json.dumps(out))
        return
    seed, nimg, nseeds = cfg["seed"], cfg["nimg"], cfg["seeds"]
    shapes = [(3, 3), (3, 17), (17, 3), (6, 6), (12, 12), (24, 20), (32, 32), (48, 40), (64, 64)]
    t0 = time.time()
    nviol = 0
    for idx in range(nimg):
        r = rng(seed, "C13", "sched", idx)
        shape = shapes[idx % len(shapes)]
        cls = c13.CLASSES[(idx // 3) % len(c13.CLASSES)]
        img = c13.gen_image(r, shape, cls)
        want, npk, plen = c13.ref_dense(img)
        for ti, nt in enumerate(THREADS):
            block = max(1, img.size // nt)
            bad_here = False
            # race-directed: two sequential profiling passes, then every third run parks threads at the hot accesses
            v.lib.vrt_profile_clear()
            for pm in (2, 3):
                run_one(v, img, nt, 1, 50, 0, (0, 0), mode=pm)
            count("hot_code_locations", int(v.lib.vrt_hot_count()))
            for k in range(nseeds):
                gap, pyw = SETTINGS[(k + ti) % len(SETTINGS)]
                sseed = int(r.integers(1, 2 ** 62))
                poison = [(0, 0), (-77, 9), (2 ** 30, 200)][k % 3]
                mode = 4 if k % 3 == 2 else 1
                n, lab, st, regs = run_one(v, img, nt, sseed, gap, pyw, poison, mode=mode)
                count("controlled_runs")
                if mode == 4:
                    count("race_directed_runs")
                    count("parks_at_shared_accesses", st["parks"])
                count("instrumented_accesses", st["accesses"])
                count("baton_switches", st["switches"])
                hashes.add((idx, nt, st["schedule_hash"]))
                if st["violations"]:
                    count("access_monitor_events", st["violations"])
                    if not bad_here:
                        out["violations"].append(dict(
                            key="localmaxlabel:access-monitor",
                            what="access monitor: %r" % (v.violations()[:2],),
                            replay=dict(source="sched", index=idx, img_seed=seed, shape=shape, cls=cls, threads=nt,
                                        sched_seed=sseed, gap=gap, pyw=pyw, poison=poison)))
                        bad_here = True
                for rg, nm in zip(regs, ("labels", "wrk")):
                    nu, first = v.unwritten(rg)
                    if nu and not bad_here:
                        out["violations"].append(dict(
                            key="localmaxlabel:output-not-written",
                            what="%d bytes of %s never written by the kernel (first offset %d)" % (nu, nm, first),
                            replay=dict(source="sched", index=idx, img_seed=seed, shape=shape, cls=cls, threads=nt,
                                        sched_seed=sseed, gap=gap, pyw=pyw, poison=poison)))
                        bad_here = True
                if n != npk or not np.array_equal(lab, want):
                    count("controlled_runs_differing")
                    if not bad_here and nviol < 6:
                        nviol += 1
                        bad_here = True
                        out["violations"].append(dict(
                            key="localmaxlabel:controlled-schedule",
                            what="labels differ from the steepest-ascent reference in %d pixels under a controlled schedule "
                                 "(threads %d, scheduler seed %d, gap %d, yield-after-write %d/1000, %d switches); "
                                 "replays exactly" % (int((lab != want).sum()), nt, sseed, gap, pyw, st["switches"]),
                            replay=dict(source="sched", index=idx, img_seed=seed, shape=shape, cls=cls, threads=nt,
                                        sched_seed=sseed, gap=gap, pyw=pyw, poison=poison, mode=mode)))
            out["cases"].append(dict(descriptor=[cls, list(shape), hash(img.tobytes()), nt, "sched"],
                                     nontrivial=bool(npk >= 2 or plen > block),
                                     sample=dict(source="sched", shape=shape, cls=cls, threads=nt, seeds=nseeds,
                                                 maxima=npk) if (idx < 2 and ti == 0) else None))
        if time.time() - t0 > 2400:
            out["extra"]["stopped_early_after_images"] = idx + 1
            break
    cnt["distinct_schedules"] = len(hashes)
    out["extra"]["settings"] = SETTINGS
    out["extra"]["threads"] = list(THREADS)
    print(json.dumps(out))


if __name__ == "__main__":
    main()
