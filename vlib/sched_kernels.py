"""Controlled-scheduler determinism tier for individual OpenMP kernels (used by C01, C07, C11).
python -m vlib.sched_kernels '<json: fns=[...], seed, rounds, threads=[[nt,sched],...]>'
Runs the kernel generators of vlib/kspecs.py restricted to the named kernels under the vrt runtime and reports any
result that differs from the sequential single-thread result as a violation.  Prints one JSON line."""
import json, subprocess, sys, os
from .common import PY, VERIF


def run(fns, seed, rounds, threads):
    env = dict(os.environ)
    env["PYTHONPATH"] = VERIF
    env.pop("LD_PRELOAD", None)
    cfg = dict(mode="vrt", seed=seed, rounds=rounds, threads=threads, only=fns, determinism_is_violation=True)
    p = subprocess.run([PY, "-m", "vlib.kworker", json.dumps(cfg)], env=env, cwd=VERIF, stdout=subprocess.PIPE,
                       stderr=subprocess.PIPE, timeout=3000)
    if p.returncode != 0:
        return dict(error="rc=%d %s" % (p.returncode, p.stderr.decode(errors="replace")[-400:]))
    return json.loads(p.stdout.decode().strip().splitlines()[-1])


def attach(runobj, fns, rounds, threads, label):
    """run and merge into a common.Run"""
    out = run(fns, runobj.seed, rounds, threads)
    if "error" in out:
        runobj.inconc("controlled-scheduler tier failed: %s" % out["error"])
        return
    c = out["counters"]
    runobj.count("sched_controlled_runs", c.get("vrt_calls", 0))
    runobj.count("sched_determinism_comparisons", c.get("schedule_determinism_comparisons", 0))
    runobj.count("sched_baton_switches", c.get("vrt_switches", 0))
    runobj.count("sched_instrumented_accesses", c.get("vrt_accesses_checked", 0))
    runobj.count("sched_race_directed_runs", c.get("vrt_directed_runs", 0))
    runobj.count("sched_parks_at_shared_accesses", c.get("vrt_parks", 0))
    for v in out["violations"]:
        runobj.violation("%s:%s" % (label, v["key"]), v["what"], v["replay"])


if __name__ == "__main__":
    cfg = json.loads(sys.argv[1])
    print(json.dumps(run(cfg["fns"], cfg.get("seed", 0), cfg.get("rounds", 10), cfg.get("threads", [[1, 0], [4, 1]]))))
