"""C17, second engine: free random histories judged by per-operation snapshot contracts.

The lock-step dict model in checks/c17.py needs fresh, independent values for every write.  This engine has no model:
before each operation it snapshots the real object (values of every column and which columns share storage), applies an
operation whose parameters are all drawn at random, and decides the statement's clauses from snapshot -> result:

  rectangular      every column has nrows entries through the attribute, item and getcolumn views
  same data        the three views have equal values AND a write through one view is seen through the others
  write ops        the written column holds the written values; columns that did not share storage with it before the
                   operation are unchanged (a column that the caller made an alias of it may follow it)
  row ops          filter / removerows / reorder / sortby: EVERY column equals its snapshot with the one selection or
                   permutation applied (for sortby: key ascending and the rows, as tuples, are a permutation)
  copies           equal values, no shared storage, and a write into the copy leaves the original alone

So it can use inputs the model cannot: columns that alias other columns (cf.addcolumn(cf.a, "d"), cf.c = cf.b), python
lists, integer / float32 / strided inputs, targets chosen among ALL current titles, boolean / integer / slice / list
row selectors, all-False filters (nrows == 0) and truly empty start states.
"""
import os
from collections import OrderedDict
import numpy as np


class Broken(Exception):
    def __init__(self, key, what):
        Exception.__init__(self, what)
        self.key, self.what = key, what


POOL = ["a", "b", "c", "n1", "n2", "n3", "n4"]
STARTS = ["new+set_bigarray", "file", "dict", "hdf", "empty", "dict-int", "dict-readonly-column"]


def start(columnfile, kind, r, tmpdir, tag):
    n = int(r.choice([0, 1, 2, 5, 8, 13]))
    if kind == "empty":
        return columnfile.newcolumnfile([])
    titles = ["a", "b", "c"]
    data = OrderedDict((t, np.round(r.uniform(-9, 9, n) * 4) / 4) for t in titles)   # exactly printable
    if kind == "dict-int":
        data["a"] = r.integers(-5, 6, n)
    if kind == "new+set_bigarray":
        cf = columnfile.newcolumnfile(list(titles))
        cf.set_bigarray([np.array(data[t]) for t in titles])
        return cf
    if kind in ("dict", "dict-int"):
        return columnfile.colfile_from_dict(OrderedDict((t, np.array(data[t])) for t in titles))
    if kind == "dict-readonly-column":
        # one column is a read-only array (a memory-mapped column, a view of somebody else's data); a row operation that
        # cannot write it is refused, and a refusal leaves every column as it was
        arrs = OrderedDict((t, np.array(data[t])) for t in titles)
        arrs["b"].flags.writeable = False
        return columnfile.colfile_from_dict(arrs)
    if n == 0:
        n = 3
        data = OrderedDict((t, np.round(r.uniform(-9, 9, n) * 4) / 4) for t in titles)
    fn = os.path.join(tmpdir, "free_%s.flt" % tag)
    with open(fn, "w") as f:
        f.write("#  a  b  c\n")
        for i in range(n):
            f.write("  %r  %r  %r\n" % (float(data["a"][i]), float(data["b"][i]), float(data["c"][i])))
    if kind == "file":
        return columnfile.columnfile(fn)
    h5 = os.path.join(tmpdir, "free_%s.h5" % tag)
    if os.path.exists(h5):
        os.remove(h5)
    columnfile.colfile_to_hdf(columnfile.columnfile(fn), h5, name="peaks")
    return columnfile.colfile_from_hdf(h5, name="peaks")


def fl(v):
    return np.asarray(v, float)


def snapshot(cf):
    snap = OrderedDict()
    for t in cf.titles:
        snap[t] = np.array(cf.getcolumn(t), float, copy=True)
    groups = {}
    ts = list(cf.titles)
    for t in ts:
        groups[t] = set(u for u in ts if np.shares_memory(np.asarray(cf.getcolumn(t)), np.asarray(cf.getcolumn(u))))
    return snap, groups


def views(cf, t, where):
    try:
        return OrderedDict((("attribute", getattr(cf, t)), ("item", cf[t]), ("getcolumn", cf.getcolumn(t))))
    except Exception as e:
        raise Broken("view-exception", "%s: reading column %s raised %s: %s" % (where, t, type(e).__name__, e))


def rectangular(cf, where, run=None):
    n = cf.nrows
    if not isinstance(n, (int, np.integer)):
        raise Broken("nrows-type", "%s: nrows is %r" % (where, n))
    for t in cf.titles:
        vs = views(cf, t, where)
        for vn, v in vs.items():
            if np.isscalar(v) or np.ndim(v) != 1:
                raise Broken("view-not-array:" + vn, "%s: the %s view of column %s is a %s, not a 1-D array"
                             % (where, vn, t, type(v).__name__))
            if len(v) != n:
                raise Broken("ragged:" + vn, "%s: column %s has %d entries through the %s view, nrows is %d"
                             % (where, t, len(v), vn, n))
        g = fl(vs["getcolumn"])
        for vn in ("attribute", "item"):
            if not np.array_equal(fl(vs[vn]), g, equal_nan=True):
                raise Broken("views-differ:" + vn, "%s: column %s: %s view %r, getcolumn %r"
                             % (where, t, vn, fl(vs[vn]).tolist(), g.tolist()))


def write_through(cf, r, where):
    """a write through one view must be visible through the others (the views are the same data)"""
    if cf.nrows == 0 or not cf.titles:
        return False
    t = cf.titles[int(r.integers(0, len(cf.titles)))]
    i = int(r.integers(0, cf.nrows))
    vs = views(cf, t, where)
    names = list(vs)
    src = names[int(r.integers(0, 3))]
    arr = vs[src]
    if not isinstance(arr, np.ndarray) or not arr.flags.writeable:
        return False
    old = arr[i]
    new = old + 1 if np.issubdtype(arr.dtype, np.integer) else old + 0.5
    arr[i] = new
    try:
        for vn, v in views(cf, t, where).items():
            if v[i] != new:
                raise Broken("views-not-same-data:" + vn, "%s: wrote column %s[%d] through the %s view, the %s view still "
                             "shows the old value" % (where, t, i, src, vn))
    finally:
        arr[i] = old
    return True


def value(r, n, cf, allow_alias=True):
    """(array-like to write, expected float values, kind)"""
    kinds = ["fresh", "fresh", "list", "int", "float32", "strided"]
    if allow_alias and cf.titles and cf.nrows == n:
        kinds += ["alias-attr", "alias-getcolumn", "alias-item"]
    kind = kinds[int(r.integers(0, len(kinds)))]
    base = np.round(r.uniform(-50, 50, n) * 8) / 8
    if kind == "fresh":
        return base, base.copy(), kind
    if kind == "list":
        return base.tolist(), base.copy(), kind
    if kind == "int":
        v = r.integers(-20, 20, n)
        return v, v.astype(float), kind
    if kind == "float32":
        v = base.astype(np.float32)
        return v, v.astype(float), kind
    if kind == "strided":
        big = np.zeros((n, 3))
        big[:, 1] = base
        return big[:, 1], base.copy(), kind
    t = cf.titles[int(r.integers(0, len(cf.titles)))]
    v = {"alias-attr": getattr(cf, t), "alias-getcolumn": cf.getcolumn(t), "alias-item": cf[t]}[kind]
    return v, fl(v).copy(), kind + ":" + t


def check_write(cf, snap, groups, target, want, where, new_title=False):
    rectangular(cf, where)
    exp_titles = list(snap) + ([target] if new_title else [])
    if list(cf.titles) != exp_titles:
        raise Broken("titles", "%s: titles %r, expected %r" % (where, list(cf.titles), exp_titles))
    got = fl(cf.getcolumn(target))
    # an in-place overwrite of an integer (or float32) column keeps the column's type: numpy casts the written values
    raw = np.asarray(cf.getcolumn(target))
    cast = np.asarray(want).astype(raw.dtype).astype(float) if raw.dtype.kind in "iuf" else want
    if not np.array_equal(got, want, equal_nan=True) and not np.array_equal(got, cast, equal_nan=True):
        raise Broken("written-values", "%s: column %s holds %r, written %r" % (where, target, got.tolist(), want.tolist()))
    tied = groups.get(target, set())
    for t, v in snap.items():
        if t == target or t in tied:
            continue
        if not np.array_equal(fl(cf.getcolumn(t)), v, equal_nan=True):
            raise Broken("other-column-changed", "%s: column %s changed from %r to %r although it shared no storage with %s"
                         % (where, t, v.tolist(), fl(cf.getcolumn(t)).tolist(), target))


def check_rows(cf, snap, sel, where):
    rectangular(cf, where)
    if list(cf.titles) != list(snap):
        raise Broken("titles", "%s: titles %r, expected %r" % (where, list(cf.titles), list(snap)))
    for t, v in snap.items():
        want = v[sel]
        got = fl(cf.getcolumn(t))
        if not np.array_equal(got, want, equal_nan=True):
            raise Broken("rows-not-same-selection", "%s: column %s is %r, the selection applied to its old values gives %r"
                         % (where, t, got.tolist(), want.tolist()))


def no_share(cf, c2, where, key):
    for t in cf.titles:
        for u in c2.titles:
            for a in (cf.getcolumn(t), getattr(cf, t)):
                for b in (c2.getcolumn(u), getattr(c2, u)):
                    if isinstance(a, np.ndarray) and isinstance(b, np.ndarray) and np.shares_memory(a, b):
                        raise Broken("shared-storage", "%s: column %s of the result shares storage with column %s of "
                                     "the original" % (where, u, t))


def step(columnfile, cf, r, log):
    """apply one random operation; returns the object to continue with"""
    titles = list(cf.titles)
    n = cf.nrows
    snap, groups = snapshot(cf)
    ops = ["addcolumn", "setitem", "setattr", "filter", "reorder", "copy", "copyrows", "bigarray", "inplace"]
    if titles:
        ops += ["setcolumn", "sortby", "removerows", "filter", "reorder", "sortby", "wrong-length"]
    op = ops[int(r.integers(0, len(ops)))]
    if titles and n == 0 and r.random() < 0.15:
        op = "wrong-length"          # an emptied table (all rows filtered away) is where a length test is easiest to lose
    if not titles and op in ("filter", "reorder", "copy", "copyrows", "bigarray", "inplace", "setattr"):
        op = "addcolumn"

    def pick(existing):
        if existing and titles:
            return titles[int(r.integers(0, len(titles)))]
        free = [p for p in POOL if p not in titles]
        return free[int(r.integers(0, len(free)))] if free else None

    if op == "wrong-length":
        # a column of another length offered to a table that has columns: refused, or at least the table stays
        # rectangular; a refusal leaves every column as it was
        existing = r.random() < 0.5
        name = pick(existing) or pick(True)
        m = n + int(r.integers(1, 4)) if (n == 0 or r.random() < 0.6) else int(r.integers(0, n))
        how = ["addcolumn", "setitem", "setcolumn"][int(r.integers(0, 3 if name in titles else 2))]
        log.append("%s(%s, %d values for %d rows)" % (how, name, m, n))
        where = " -> ".join(log[-6:])
        bad = np.arange(m, dtype=float) + 0.5
        try:
            if how == "addcolumn":
                cf.addcolumn(bad, name)
            elif how == "setitem":
                cf[name] = bad
            else:
                cf.setcolumn(bad, name)
            accepted = True
        except Exception:
            accepted = False
        rectangular(cf, where)
        if not accepted:
            check_rows(cf, snap, slice(None), where + " (after the refused write)")
        return cf, "wrong-length:" + ("accepted" if accepted else "refused") + (":empty-table" if n == 0 else "")
    if op in ("addcolumn", "setitem", "setcolumn", "setattr"):
        existing = bool(titles) and (op in ("setcolumn", "setattr") or r.random() < 0.5)
        name = pick(existing)
        if name is None:
            existing, name = True, pick(True)
        scalar = op in ("setitem", "setattr") and existing and r.random() < 0.3
        if scalar:
            s = float(np.round(r.uniform(-9, 9) * 4) / 4)
            val, want, kind = (s if r.random() < 0.7 else np.float64(s)), np.full(n, s), "scalar"
        else:
            val, want, kind = value(r, n, cf)
        log.append("%s(%s, %s)" % (op, name, kind))
        where = " -> ".join(log[-6:])
        if op == "addcolumn":
            cf.addcolumn(val, name)
        elif op == "setcolumn":
            cf.setcolumn(val, name)
        elif op == "setitem":
            cf[name] = val
        else:
            setattr(cf, name, val)
        check_write(cf, snap, groups, name, want, where, new_title=not existing)
        return cf, op + (":alias" if kind.startswith("alias") else ":" + kind)
    if op == "inplace":
        # the user idiom cf.a[:] = v / cf.a *= 2 (issue 289): a write through a view is a write to the column
        name = pick(True)
        how = int(r.integers(0, 3))
        log.append("inplace(%s,%d)" % (name, how))
        where = " -> ".join(log[-6:])
        col = [getattr(cf, name), cf[name], cf.getcolumn(name)][how]
        if not isinstance(col, np.ndarray):
            raise Broken("view-not-array", "%s: column %s is held as a %s" % (where, name, type(col).__name__))
        if not col.flags.writeable:
            return cf, "inplace:readonly"
        if np.issubdtype(col.dtype, np.integer):
            col *= 2
            want = snap[name] * 2
        else:
            col *= 0.5
            want = snap[name] * 0.5
        check_write(cf, snap, groups, name, want, where)
        return cf, "inplace"
    if op == "filter":
        c = r.random()
        m = np.zeros(n, bool) if c < 0.12 else (np.ones(n, bool) if c < 0.2 else r.random(n) < 0.6)
        if r.random() < 0.3:
            m = m.tolist() if r.random() < 0.5 else m.astype(int)
        log.append("filter(%d of %d)" % (int(np.sum(np.asarray(m, bool))), n))
        cf.filter(m)
        check_rows(cf, snap, np.asarray(m, bool), " -> ".join(log[-6:]))
        return cf, "filter" + (":to-empty" if cf.nrows == 0 else "")
    if op == "removerows":
        name = pick(True)
        col = snap[name]
        if n == 0:
            log.append("removerows(%s, absent)" % name)
            cf.removerows(name, [3])
            check_rows(cf, snap, np.ones(0, bool), " -> ".join(log[-6:]))
            return cf, "removerows:empty"
        nv = int(r.integers(1, 4))
        vals = [col[int(r.integers(0, n))] if r.random() < 0.8 else 1234.0 for _ in range(nv)]
        if r.random() < 0.5:
            # documented integer comparison (tol <= 0): x.astype(int) == val
            vals = [int(v) for v in vals]
            keep = ~np.isin(col.astype(int), vals)
            log.append("removerows(%s, %r)" % (name, vals))
            cf.removerows(name, vals)
        else:
            tol = float(r.choice([0.1, 0.3, 1.0]))
            keep = np.ones(n, bool)
            for v in vals:
                keep &= ~(np.abs(col - v) < tol)
            log.append("removerows(%s, %r, tol=%g)" % (name, vals, tol))
            cf.removerows(name, vals, tol=tol)
        check_rows(cf, snap, keep, " -> ".join(log[-6:]))
        return cf, "removerows"
    if op == "reorder":
        perm = r.permutation(n)
        log.append("reorder(%r)" % perm.tolist())
        cf.reorder(perm if r.random() < 0.8 else perm.tolist())
        check_rows(cf, snap, perm, " -> ".join(log[-6:]))
        return cf, "reorder"
    if op == "sortby":
        name = pick(True)
        log.append("sortby(%s)" % name)
        where = " -> ".join(log[-6:])
        cf.sortby(name)
        rectangular(cf, where)
        key = fl(cf.getcolumn(name))
        if (np.diff(key) < 0).any():
            raise Broken("sortby:not-sorted", "%s: key column is %r" % (where, key.tolist()))
        before = sorted(zip(*[snap[t].tolist() for t in snap]))
        after = sorted(zip(*[fl(cf.getcolumn(t)).tolist() for t in snap]))
        if before != after:
            raise Broken("sortby:rows-not-permuted", "%s: the rows are no longer the same tuples: one permutation was not "
                         "applied to every column" % where)
        return cf, "sortby"
    if op == "copy":
        log.append("copy()")
        where = " -> ".join(log[-6:])
        c2 = cf.copy()
        check_rows(c2, snap, slice(None), where)
        no_share(cf, c2, where, "copy")
        if c2.nrows:
            t = c2.titles[int(r.integers(0, len(c2.titles)))]
            c2.getcolumn(t)[:] = 777.0
            check_rows(cf, snap, slice(None), where + " (original after writing into its copy)")
            c2.getcolumn(t)[:] = snap[t]
        return c2, "copy"
    if op == "copyrows":
        kind = ["bool", "int", "slice", "list", "int-repeat"][int(r.integers(0, 5))]
        if kind == "bool":
            rows = r.random(n) < 0.5
        elif kind == "int":
            rows = np.flatnonzero(r.random(n) < 0.5)
        elif kind == "list":
            rows = np.flatnonzero(r.random(n) < 0.5).tolist()
        elif kind == "int-repeat":
            rows = r.integers(0, max(n, 1), int(r.integers(0, 6))) if n else np.zeros(0, int)
        else:
            a = int(r.integers(0, n + 1))
            rows = slice(a, int(r.integers(a, n + 1)), int(r.choice([1, 1, 2])))
        log.append("copyrows(%s)" % kind)
        where = " -> ".join(log[-6:])
        c2 = cf.copyrows(rows)
        check_rows(c2, snap, rows, where)
        no_share(cf, c2, where, "copyrows")
        if c2.nrows:
            t = c2.titles[int(r.integers(0, len(c2.titles)))]
            keep = fl(c2.getcolumn(t)).copy()
            c2.getcolumn(t)[:] = 888.0
            check_rows(cf, snap, slice(None), where + " (original after writing into its row copy)")
            c2.getcolumn(t)[:] = keep
        else:
            check_rows(cf, snap, slice(None), where + " (original)")
        return c2, "copyrows:" + kind
    if op == "bigarray":
        if r.random() < 0.5:
            log.append("get_bigarray")
            where = " -> ".join(log[-6:])
            b = cf.bigarray
            if np.shape(b) != (len(titles), n) and not (n == 0 or not titles):
                raise Broken("bigarray:shape", "%s: bigarray shape %r, expected %r" % (where, np.shape(b), (len(titles), n)))
            check_rows(cf, snap, slice(None), where)
            return cf, "get_bigarray"
        n2 = int(r.choice([n, n, n + 1, max(n - 1, 0), 4]))
        arr = np.round(r.uniform(-9, 9, (len(titles), n2)) * 4) / 4
        how = int(r.integers(0, 3))
        log.append("set_bigarray(%d rows, form %d)" % (n2, how))
        where = " -> ".join(log[-6:])
        if how == 0:
            cf.set_bigarray([a.copy() for a in arr])
        elif how == 1:
            cf.bigarray = arr.copy()
        else:
            cf.bigarray = [a.tolist() for a in arr] if len(titles) else []
        rectangular(cf, where)
        if cf.nrows != n2 and len(titles):
            raise Broken("set_bigarray:nrows", "%s: nrows %d after setting %d rows" % (where, cf.nrows, n2))
        for i, t in enumerate(titles):
            if not np.array_equal(fl(cf.getcolumn(t)), arr[i]):
                raise Broken("set_bigarray:values", "%s: column %s is %r, set %r" % (where, t, fl(cf.getcolumn(t)).tolist(),
                                                                                arr[i].tolist()))
        return cf, "set_bigarray"
    raise ValueError(op)


def run_history(run, columnfile, seed_rng, start_kind, length, tmpdir, tag, replay_desc):
    r = seed_rng
    log = ["start:" + start_kind]
    try:
        cf = start(columnfile, start_kind, r, tmpdir, tag)
        rectangular(cf, log[0])
    except Broken as b:
        run.violation("free:start:%s:%s" % (start_kind, b.key), b.what, replay_desc)
        return
    for k in range(length):
        readonly = [t for t in cf.titles if not np.asarray(cf.getcolumn(t)).flags.writeable]
        before = snapshot(cf)[0] if readonly else None
        try:
            cf, opk = step(columnfile, cf, r, log)
            run.count("free_steps_checked")
            run.count("free_op_" + opk.split(":")[0])
            if ":alias" in opk:
                run.count("free_alias_writes")
            if cf.nrows == 0:
                run.count("free_steps_on_zero_rows")
            if write_through(cf, r, " -> ".join(log[-6:])):
                run.count("free_write_through_probes")
        except Broken as b:
            opn = log[-1].split("(")[0]
            run.violation("free:%s:%s" % (opn, b.key), "%s" % b.what, dict(replay_desc, steps=k + 1, log=log[-8:]))
            return
        except Exception as e:
            opn = log[-1].split("(")[0]
            if readonly and isinstance(e, ValueError) and "read-only" in str(e):
                # the operation could not write a read-only column: a legitimate refusal - if nothing was half done
                run.count("free_refusals_on_read_only_columns")
                try:
                    rectangular(cf, " -> ".join(log[-6:]))
                    for t, v in before.items():
                        if t not in cf.titles or not np.array_equal(fl(cf.getcolumn(t)), v, equal_nan=True):
                            raise Broken("half-applied-after-refusal", "%s raised '%s' and left column %s changed: the operation "
                                         "was applied to some columns and not to others" % (" -> ".join(log[-6:]), e, t))
                except Broken as b:
                    run.violation("free:%s:%s" % (opn, b.key), "%s" % b.what, dict(replay_desc, steps=k + 1, log=log[-8:]))
                    return
                continue
            import traceback
            tb = traceback.extract_tb(e.__traceback__)[-1]
            run.violation("free:%s:exception:%s" % (opn, type(e).__name__),
                          "%s raised %s: %s (%s:%d)" % (" -> ".join(log[-6:]), type(e).__name__, e,
                                                        os.path.basename(tb.filename), tb.lineno),
                          dict(replay_desc, steps=k + 1, log=log[-8:]))
            return
