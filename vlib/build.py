"""Build engine: everything is rebuilt from /repo's *current working tree*.

  overlay(variant)   -> directory to put first on PYTHONPATH.  It holds
                        ImageD11/ = symlinks to every entry of /repo/ImageD11
                        except the compiled module, plus a freshly built
                        _cImageD11 (f2py) for this source hash.
                        variants: plain | asan
  kernel_lib(variant)-> path of a shared library built directly from
                        /repo/src/*.c (no f2py layer) + harness exports.c
                        variants: plain | asan | avi0 | aviP | tsan | sched

Products are cached in /verif/.work/build/<hash of sources+flags>/ under a file
lock, so concurrent checks share one compile and a changed tree always gets a
fresh one.
"""
from __future__ import print_function
import fcntl, glob, hashlib, os, shutil, subprocess, sys, time

from .common import VERIF, REPO, WORK, PY

CSRC = ["blobs.c", "cdiffraction.c", "cimaged11utils.c", "closest.c",
        "connectedpixels.c", "darkflat.c", "localmaxlabel.c", "sparse_image.c",
        "splat.c"]

CSUP = os.path.join(VERIF, "vlib", "csrc")

ASAN_FLAGS = "-fsanitize=address,undefined -fsanitize-recover=address -fno-omit-frame-pointer -g -O1"

LIBFLAGS = {
    "plain": ["-O2"],
    "asan": ["-O1", "-g", "-fno-omit-frame-pointer", "-fsanitize=address,undefined", "-fsanitize-recover=address"],
    "avi0": ["-O2", "-ftrivial-auto-var-init=zero"],
    "aviP": ["-O2", "-ftrivial-auto-var-init=pattern"],
    "tsan": ["-O1", "-g", "-fno-omit-frame-pointer", "-fsanitize=thread"],
    "sched": ["-O1", "-g", "-fno-omit-frame-pointer", "-fsanitize=thread"],
}


def _files_for_hash():
    fs = sorted(glob.glob(os.path.join(REPO, "src", "*.c")) +
                glob.glob(os.path.join(REPO, "src", "*.h")) +
                glob.glob(os.path.join(REPO, "src", "*.pyf")) +
                [os.path.join(REPO, "setup.py")])
    fs += sorted(glob.glob(os.path.join(CSUP, "*")))
    return fs


def source_hash(extra=""):
    h = hashlib.sha256()
    for f in _files_for_hash():
        h.update(os.path.basename(f).encode())
        with open(f, "rb") as fh:
            h.update(fh.read())
    h.update(extra.encode())
    return h.hexdigest()[:20]


class _Lock(object):
    def __init__(self, path):
        self.path = path

    def __enter__(self):
        os.makedirs(os.path.dirname(self.path), exist_ok=True)
        self.f = open(self.path, "w")
        fcntl.flock(self.f, fcntl.LOCK_EX)
        return self

    def __exit__(self, *a):
        fcntl.flock(self.f, fcntl.LOCK_UN)
        self.f.close()


def _run(cmd, cwd=None, env=None, log=None):
    p = subprocess.run(cmd, cwd=cwd, env=env, stdout=subprocess.PIPE,
                       stderr=subprocess.STDOUT, timeout=900)
    if log:
        with open(log, "wb") as f:
            f.write(p.stdout)
    if p.returncode != 0:
        sys.stderr.write(p.stdout.decode(errors="replace")[-4000:])
        raise RuntimeError("build command failed: %s" % " ".join(cmd))
    return p.stdout


def gcc_file(name):
    return subprocess.check_output(["gcc", "-print-file-name=" + name]).decode().strip()


def f2py_module(variant="plain"):
    """Build the real f2py extension out of tree; return the .so path."""
    assert variant in ("plain", "asan")
    hsh = source_hash("f2py:" + variant)
    d = os.path.join(WORK, "build", hsh)
    done = os.path.join(d, "DONE")
    with _Lock(os.path.join(WORK, "locks", hsh + ".lock")):
        if not os.path.exists(done):
            if os.path.exists(d):
                shutil.rmtree(d)
            os.makedirs(d)
            shutil.copytree(os.path.join(REPO, "src"), os.path.join(d, "src"),
                            ignore=shutil.ignore_patterns("old", "__pycache__"))
            shutil.copy(os.path.join(REPO, "setup.py"), d)
            shutil.copy(os.path.join(REPO, "README.md"), d)
            os.makedirs(os.path.join(d, "ImageD11"))
            shutil.copy(os.path.join(REPO, "ImageD11", "__init__.py"),
                        os.path.join(d, "ImageD11"))
            env = dict(os.environ)
            env.pop("PYTHONPATH", None)
            if variant == "asan":
                env["CFLAGS"] = ASAN_FLAGS
                env["LDFLAGS"] = "-fsanitize=address,undefined"
            else:
                env.pop("CFLAGS", None)
                env.pop("LDFLAGS", None)
            _run([PY, "setup.py", "build_ext", "--build-lib", "out",
                  "--build-temp", "tmp"], cwd=d, env=env,
                 log=os.path.join(d, "build.log"))
            so = glob.glob(os.path.join(d, "out", "ImageD11", "_cImageD11*.so"))
            if len(so) != 1:
                raise RuntimeError("f2py build produced %r" % (so,))
            shutil.rmtree(os.path.join(d, "tmp"), ignore_errors=True)
            with open(done, "w") as f:
                f.write(so[0])
    with open(done) as f:
        return f.read().strip()


def overlay(variant="plain"):
    """Directory for PYTHONPATH holding ImageD11 -> /repo sources + fresh .so"""
    so = f2py_module(variant)
    hsh = source_hash("f2py:" + variant)
    # one overlay per (C sources, tree location): a scratch copy with identical C sources but different Python files
    # must not re-point the symlinks a concurrent run on /repo is importing through
    tag = hsh if REPO == "/repo" else hsh + "-" + hashlib.sha256(os.path.realpath(REPO).encode()).hexdigest()[:8]
    top = os.path.join(WORK, "ovl", tag)
    pk = os.path.join(top, "ImageD11")
    with _Lock(os.path.join(WORK, "locks", tag + ".ovl.lock")):
        os.makedirs(pk, exist_ok=True)
        want = {}
        for e in os.listdir(os.path.join(REPO, "ImageD11")):
            if e.startswith("_cImageD11") or e == "__pycache__":
                continue
            want[e] = os.path.join(REPO, "ImageD11", e)
        want[os.path.basename(so)] = so
        for e in os.listdir(pk):
            p = os.path.join(pk, e)
            if e not in want or not os.path.islink(p) or os.readlink(p) != want[e]:
                if os.path.islink(p) or os.path.isfile(p):
                    os.unlink(p)
                else:
                    shutil.rmtree(p)
        for e, tgt in want.items():
            p = os.path.join(pk, e)
            if not os.path.lexists(p):
                os.symlink(tgt, p)
    return top


def kernel_lib(variant="plain"):
    assert variant in LIBFLAGS
    flags = LIBFLAGS[variant]
    hsh = source_hash("klib:" + variant + " ".join(flags))
    d = os.path.join(WORK, "build", hsh)
    out = os.path.join(d, "libk_%s.so" % variant)
    with _Lock(os.path.join(WORK, "locks", hsh + ".lock")):
        if not os.path.exists(out):
            if os.path.exists(d):
                shutil.rmtree(d)
            os.makedirs(d)
            srcs = [os.path.join(REPO, "src", c) for c in CSRC]
            srcs.append(os.path.join(CSUP, "exports.c"))
            cmd = ["gcc", "-shared", "-fPIC", "-fopenmp", "-I",
                   os.path.join(REPO, "src")] + flags
            objs = []
            # compile objects separately so the OpenMP runtime can be replaced
            for s in srcs:
                o = os.path.join(d, os.path.basename(s)[:-2] + ".o")
                _run(["gcc", "-c", "-fPIC", "-fopenmp", "-I",
                      os.path.join(REPO, "src")] + flags + [s, "-o", o])
                objs.append(o)
            tmp = out + ".tmp"
            if variant == "tsan":
                shim = os.path.join(d, "gomp_shim.o")
                _run(["gcc", "-c", "-fPIC", "-O1", "-g", "-fsanitize=thread",
                      os.path.join(CSUP, "gomp_shim.c"), "-o", shim])
                _run(["gcc", "-shared", "-Wl,-Bsymbolic", "-o", tmp] + objs + [shim,
                      "-fsanitize=thread", "-lpthread", "-lm"])
            elif variant == "sched":
                rt = os.path.join(d, "vrt.o")
                _run(["gcc", "-c", "-fPIC", "-O2", "-g",
                      os.path.join(CSUP, "vrt.c"), "-o", rt])
                _run(["gcc", "-shared", "-Wl,-Bsymbolic", "-o", tmp] + objs + [rt,
                      "-Wl,--wrap=malloc,--wrap=calloc,--wrap=realloc,--wrap=free,--wrap=memset",
                      "-lpthread", "-lm", "-ldl"])
            elif variant == "asan":
                _run(["gcc", "-shared", "-fopenmp", "-fsanitize=address,undefined",
                      "-o", tmp] + objs + ["-lm"])
            else:
                _run(["gcc", "-shared", "-fopenmp", "-o", tmp] + objs + ["-lm"])
            os.replace(tmp, out)
            for o in objs:
                os.unlink(o)
    return out


def deps_dir():
    """icontract / deal installed beside the repo's interpreter (offline)."""
    d = os.path.join(VERIF, ".deps")
    with _Lock(os.path.join(WORK, "locks", "deps.lock")):
        if not os.path.exists(os.path.join(d, "icontract")):
            _run([PY, "-m", "pip", "install", "--no-index", "--quiet",
                  "--find-links", "/opt/veriftools/wheels", "--target", d,
                  "icontract", "deal"])
    return d


def numba_cache():
    h = hashlib.sha256()
    for f in sorted(glob.glob(os.path.join(REPO, "ImageD11", "**", "*.py"),
                              recursive=True)):
        if "/sinograms/" in f or f.endswith("cImageD11.py") or f.endswith("sparseframe.py"):
            with open(f, "rb") as fh:
                h.update(fh.read())
    d = os.path.join(WORK, "nbcache", h.hexdigest()[:16])
    os.makedirs(d, exist_ok=True)
    return d


def child_env(variant="plain", extra=None, threads=None):
    """Environment for a harness process that imports ImageD11 from the overlay."""
    ovl = overlay(variant)
    env = dict(os.environ)
    parts = [ovl, VERIF]
    dd = os.path.join(VERIF, ".deps")
    if os.path.isdir(dd):
        parts.append(dd)
    env["PYTHONPATH"] = os.pathsep.join(parts)
    env["NUMBA_CACHE_DIR"] = numba_cache()
    env["PYTHONPYCACHEPREFIX"] = os.path.join(WORK, "pycache")
    env["PYTHONHASHSEED"] = "0"
    env["VERIF_OVERLAY"] = ovl
    env["MPLBACKEND"] = "Agg"
    env.setdefault("OMP_NUM_THREADS", "4")
    if threads is not None:
        env["OMP_NUM_THREADS"] = str(threads)
    if variant == "asan":
        # libstdc++ must be loaded with libasan or the first C++ exception thrown in any extension module (e.g. matplotlib
        # ft2font on import) dies in "CHECK failed: real___cxa_throw != 0"
        env["LD_PRELOAD"] = gcc_file("libasan.so") + " " + gcc_file("libstdc++.so.6")
        env.setdefault("ASAN_OPTIONS", "detect_leaks=0:halt_on_error=1:abort_on_error=0")
        env.setdefault("UBSAN_OPTIONS", "print_stacktrace=1:halt_on_error=1")
    if extra:
        env.update(extra)
    return env


def assert_overlay_loaded():
    """Called inside harness processes: the compiled module must be the one
    rebuilt from the working tree."""
    import ImageD11._cImageD11 as m
    ovl = os.environ.get("VERIF_OVERLAY", "")
    f = os.path.realpath(m.__file__)
    ok = bool(ovl) and os.path.abspath(m.__file__).startswith(ovl) and \
        f.startswith(os.path.join(WORK, "build"))
    return ok, m.__file__


def prune(keep=6):
    """Remove old build dirs (keep most recent)."""
    for sub in ("build", "ovl"):
        b = os.path.join(WORK, sub)
        if not os.path.isdir(b):
            continue
        ds = sorted((os.path.getmtime(os.path.join(b, x)), x) for x in os.listdir(b))
        for _, x in ds[:-keep * 3]:
            shutil.rmtree(os.path.join(b, x), ignore_errors=True)


if __name__ == "__main__":
    what = sys.argv[1] if len(sys.argv) > 1 else "all"
    t0 = time.time()
    if what == "all":
        print(overlay("plain"))
        print(overlay("asan"))
        for v in ("plain", "asan", "avi0", "aviP", "tsan", "sched"):
            print(kernel_lib(v))
        print(deps_dir())
    elif what == "overlay":
        print(overlay(sys.argv[2]))
    elif what == "klib":
        print(kernel_lib(sys.argv[2]))
    elif what == "prune":
        prune()
    print("build %.1fs" % (time.time() - t0), file=sys.stderr)
