"""ctypes access to the kernel libraries built by vlib.build.kernel_lib()."""
import ctypes as C
import numpy as np
from . import build

_cache = {}

dp = np.ctypeslib.ndpointer
c_int, c_double, c_float = C.c_int, C.c_double, C.c_float
P = C.c_void_p

SIGS = {
    # closest.c
    "score": (c_int, [P, P, c_double, c_int]),
    "score_and_refine": (None, [P, P, c_double, P, P, c_int]),
    "score_and_assign": (c_int, [P, P, c_double, P, P, c_int, c_int]),
    "refine_assigned": (None, [P, P, P, c_int, P, P, c_int]),
    "verify_rounding": (c_int, [c_int]),
    "v_refine_assigned_painted": (None, [c_int, P, P, P, c_int, P, P, c_int]),
    "v_score_and_refine_painted": (None, [c_int, P, P, c_double, P, P, c_int]),
    "v_paint_stack": (c_int, [c_int, c_int]),
    "localmaxlabel": (c_int, [P, P, P, c_int, c_int]),
    "v_connectedpixels": (c_int, [P, P, c_float, c_int, c_int, c_int, c_int]),
    # vrt runtime (sched variant only)
    "vrt_config": (None, [C.c_uint64, c_int, c_int, c_int, c_int]),
    "vrt_reset": (None, []),
    "vrt_region_add": (c_int, [P, C.c_uint64, c_int, c_int]),
    "vrt_stats": (None, [P]),
    "vrt_violation": (c_int, [c_int, P]),
    "vrt_unwritten": (C.c_int64, [c_int, P]),
    "vrt_profile_clear": (None, []),
    "vrt_hot_count": (c_int, []),
    "vrt_hot_pc": (C.c_uint64, [c_int]),
    "vrt_parks": (C.c_uint64, []),
    "vrt_shared_cells": (C.c_uint64, []),
    "cimaged11_omp_set_num_threads": (None, [c_int]),
    "cimaged11_omp_get_max_threads": (c_int, []),
}


def load(variant="plain"):
    if variant not in _cache:
        path = build.kernel_lib(variant)
        lib = C.CDLL(path)
        for name, (res, args) in SIGS.items():
            try:
                f = getattr(lib, name)
            except AttributeError:
                continue
            f.restype = res
            f.argtypes = args
        _cache[variant] = lib
    return _cache[variant]


def ptr(a):
    return a.ctypes.data_as(C.c_void_p)


R, W, RW = 1, 2, 3
VKIND = {1: "read-outside", 2: "write-outside", 3: "write-to-readonly", 4: "read-never-written", 5: "use-after-free"}


class Vrt(object):
    """Python side of the vrt runtime in libk_sched.so"""

    def __init__(self, lib=None):
        self.lib = lib or load("sched")
        self.path = build.kernel_lib("sched")

    def begin(self, seed, nthreads, mean_gap=50, pyw=0, sched=1):
        self.lib.vrt_reset()
        self.lib.vrt_config(int(seed) & (2 ** 63 - 1), int(mean_gap), int(pyw), int(nthreads), int(sched))
        self.regions = {}

    def region(self, name, arr, rights, track=False):
        i = self.lib.vrt_region_add(ptr(arr), arr.nbytes, rights, 1 if track else 0)
        self.regions[i] = (name, arr)
        return i

    def stats(self):
        out = np.zeros(8, np.uint64)
        self.lib.vrt_stats(ptr(out))
        return dict(accesses=int(out[0]), switches=int(out[1]), regions_run=int(out[2]), schedule_hash=int(out[3]),
                    violations=int(out[4]), sched_points=int(out[5]), nregions=int(out[6]), lib_base=int(out[7]))

    def violations(self, symbolize=True):
        res = []
        n = self.stats()["violations"]
        for i in range(min(n, 64)):
            out = np.zeros(7, np.int64)
            if not self.lib.vrt_violation(i, ptr(out)):
                break
            reg = int(out[5])
            d = dict(kind=VKIND.get(int(out[0]), str(out[0])), tid=int(out[1]), size=int(out[3]), pc_off=int(out[4]),
                     region=self.regions.get(reg, ("kernel-malloc#%d" % reg, None))[0], region_offset=int(out[6]))
            res.append(d)
        if symbolize and res:
            import subprocess
            offs = sorted(set(hex(v["pc_off"]) for v in res))
            try:
                txt = subprocess.run(["addr2line", "-f", "-e", self.path] + offs, stdout=subprocess.PIPE,
                                     timeout=30).stdout.decode().splitlines()
                m = {o: (txt[2 * k], txt[2 * k + 1].split("/")[-1]) for k, o in enumerate(offs)}
                for v in res:
                    v["where"] = "%s %s" % m[hex(v["pc_off"])]
            except Exception:
                pass
        return res

    def unwritten(self, region):
        first = C.c_int64(-1)
        n = self.lib.vrt_unwritten(region, C.byref(first))
        return int(n), int(first.value)
