"""ctypes access to the kernel libraries built by vlib.build.kernel_lib()."""
import ctypes as C
import numpy as np
from . import build

_cache = {}

dp = np.ctypeslib.ndpointer
c_int, c_double, c_float = C.c_int, C.c_double, C.c_float
P = C.c_void_p

SIGS = {
    # closest.c
    "score": (c_int, [P, P, c_double, c_int]),
    "score_and_refine": (None, [P, P, c_double, P, P, c_int]),
    "score_and_assign": (c_int, [P, P, c_double, P, P, c_int, c_int]),
    "refine_assigned": (None, [P, P, P, c_int, P, P, c_int]),
    "verify_rounding": (c_int, [c_int]),
    "v_refine_assigned_painted": (None, [c_int, P, P, P, c_int, P, P, c_int]),
    "v_score_and_refine_painted": (None, [c_int, P, P, c_double, P, P, c_int]),
    "v_paint_stack": (c_int, [c_int, c_int]),
    "cimaged11_omp_set_num_threads": (None, [c_int]),
    "cimaged11_omp_get_max_threads": (c_int, []),
}


def load(variant="plain"):
    if variant not in _cache:
        path = build.kernel_lib(variant)
        lib = C.CDLL(path)
        for name, (res, args) in SIGS.items():
            try:
                f = getattr(lib, name)
            except AttributeError:
                continue
            f.restype = res
            f.argtypes = args
        _cache[variant] = lib
    return _cache[variant]


def ptr(a):
    return a.ctypes.data_as(C.c_void_p)
