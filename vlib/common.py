"""Common plumbing for the ImageD11 runtime-monitoring checks.

Verdicts are three valued (DESIGN.md section 2):
    held          -> exit 0
    violated      -> exit 1 + "VIOLATION property=<id> replay=<path>"
    inconclusive  -> exit 2 + "INCONCLUSIVE property=<id> reason=..."
Known findings (known_findings.json, keyed by mechanism) print
"KNOWN-FINDING: property=<id> <what>" and do not fail the run.
"""
from __future__ import print_function
import hashlib, json, os, sys, time, traceback, random

VERIF = os.path.dirname(os.path.dirname(os.path.abspath(__file__)))
REPO = os.environ.get("VERIF_REPO", "/repo")
WORK = os.path.join(VERIF, ".work")
EVID = os.path.join(VERIF, "evidence")
REPLAYS = os.path.join(VERIF, "replays")
KNOWN = os.path.join(VERIF, "known_findings.json")
PY = "/venv/bin/python"


def seed_from_env():
    try:
        return int(os.environ.get("VERIF_SEED", "0"))
    except ValueError:
        return 0


def tier_from_env(default="quick"):
    t = os.environ.get("VERIF_TIER", default)
    return t if t in ("quick", "thorough") else default


def subseed(seed, prop, *idx):
    """Deterministic 63-bit integer from (seed, property, case index...)."""
    h = hashlib.sha256(repr((int(seed), prop) + tuple(idx)).encode()).digest()
    return int.from_bytes(h[:8], "little") & ((1 << 63) - 1)


def rng(seed, prop, *idx):
    import numpy as np
    return np.random.default_rng(subseed(seed, prop, *idx))


def pyrng(seed, prop, *idx):
    return random.Random(subseed(seed, prop, *idx))


def jsonable(o):
    """Convert numpy things to plain python for json."""
    try:
        import numpy as np
    except ImportError:  # pragma: no cover
        np = None
    if np is not None:
        if isinstance(o, np.ndarray):
            if o.size > 64:
                return {"ndarray_shape": list(o.shape), "dtype": str(o.dtype),
                        "head": jsonable(o.ravel()[:16].tolist()),
                        "sha": hashlib.sha256(np.ascontiguousarray(o).tobytes()).hexdigest()[:16]}
            return jsonable(o.tolist())
        if isinstance(o, (np.integer,)):
            return int(o)
        if isinstance(o, (np.floating,)):
            return jsonable(float(o))
        if isinstance(o, (np.bool_,)):
            return bool(o)
        if isinstance(o, (np.complexfloating,)):
            return [float(o.real), float(o.imag)]
    if isinstance(o, float):
        if o != o:
            return "nan"
        if o in (float("inf"), float("-inf")):
            return "inf" if o > 0 else "-inf"
        return o
    if isinstance(o, dict):
        return {str(k): jsonable(v) for k, v in o.items()}
    if isinstance(o, (list, tuple, set, frozenset)):
        return [jsonable(v) for v in o]
    if isinstance(o, (str, int, bool)) or o is None:
        return o
    if isinstance(o, bytes):
        return o.hex()
    return repr(o)


def load_known():
    try:
        with open(KNOWN) as f:
            d = json.load(f)
    except IOError:
        return []
    return d.get("findings", [])


class Violation(Exception):
    pass


class Run(object):
    """One run of one check.  Collects cases, violations, counters."""

    def __init__(self, prop, tier=None, seed=None, rule="", level="exploration"):
        self.prop = prop
        self.tier = tier or tier_from_env()
        self.seed = seed_from_env() if seed is None else seed
        self.level = level
        self.rule = rule
        self.t0 = time.time()
        self.evaluations = 0
        self.nontrivial = set()
        self.samples = []
        self.max_samples = 6
        self.counters = {}
        self.violations = []      # (key, what, replay_path)
        self.known_hits = {}      # key -> (what, count)
        self.inconclusive = []
        self.assumptions = []
        self.extra = {}
        self.known = {(k["property"], k["key"]): k for k in load_known()}
        self.exhaustive = None
        self._vio_keys = {}

    # -- counting ---------------------------------------------------------
    def count(self, name, n=1):
        self.counters[name] = self.counters.get(name, 0) + n

    def setmax(self, name, v):
        if v > self.counters.get(name, float("-inf")):
            self.counters[name] = v

    def case(self, descriptor=None, nontrivial=True, sample=None):
        """Record that one case was evaluated.  descriptor identifies the case
        for distinctness; nontrivial is the outcome of the property specific
        rule; sample (jsonable) may be kept as an example."""
        self.evaluations += 1
        pf = os.environ.get("VERIF_PROGRESS")
        if pf:
            try:
                with open(pf, "w") as f:
                    json.dump({"evaluation": self.evaluations, "sample": jsonable(sample),
                               "descriptor": repr(descriptor)[:300]}, f)
            except Exception:
                pass
        if nontrivial and descriptor is not None:
            self.nontrivial.add(hashlib.sha256(
                repr(descriptor).encode()).hexdigest()[:20])
        if sample is not None and len(self.samples) < self.max_samples:
            self.samples.append(jsonable(sample))

    # -- verdicts ----------------------------------------------------------
    def violation(self, key, what, replay=None):
        """Report a witness. key is the *mechanism* key used to match
        known_findings.json; what is a one line description; replay is a
        jsonable dict that replays the case."""
        k = self.known.get((self.prop, key))
        if k is not None and k.get("status") == "known":
            w, n = self.known_hits.get(key, (k.get("what", what), 0))
            self.known_hits[key] = (w, n + 1)
            if n == 0:
                self.extra.setdefault("known_finding_witnesses", {})[key] = jsonable(
                    {"what": what, "replay": replay})
            return False
        n = self._vio_keys.get(key, 0)
        self._vio_keys[key] = n + 1
        if n >= 3:   # keep at most three witnesses per mechanism key
            return True
        d = os.path.join(REPLAYS, self.prop)
        os.makedirs(d, exist_ok=True)
        body = {"property": self.prop, "key": key, "what": what,
                "seed": self.seed, "tier": self.tier, "case": jsonable(replay)}
        h = hashlib.sha256(json.dumps(body, sort_keys=True).encode()).hexdigest()[:12]
        path = os.path.join(d, "%s_%s.json" % (key.replace("/", "_")[:40], h))
        with open(path, "w") as f:
            json.dump(body, f, indent=1, sort_keys=True)
        self.violations.append((key, what, path))
        return True

    def inconc(self, reason):
        self.inconclusive.append(reason)

    def require_counter(self, name, minimum=1):
        if self.counters.get(name, 0) < minimum:
            self.inconc("monitor counter %s=%s < %s (deciding monitor not reached)"
                        % (name, self.counters.get(name, 0), minimum))

    # -- finish ------------------------------------------------------------
    def finish(self):
        wall = time.time() - self.t0
        cov = {
            "evaluations": int(self.evaluations),
            "distinct_nontrivial": int(len(self.nontrivial)),
            "rule": self.rule,
            "samples": self.samples if self.samples else ["(no samples recorded)"],
            "counters": jsonable(self.counters),
        }
        if self.exhaustive is not None:
            cov["exhaustive"] = bool(self.exhaustive)
        cov.update(jsonable(self.extra))
        if self.known_hits:
            cov["known_findings_observed"] = {k: {"what": w, "witnesses": n}
                                              for k, (w, n) in self.known_hits.items()}
        if self.inconclusive:
            cov["inconclusive_reasons"] = self.inconclusive
        ev = {
            "property_id": self.prop, "tier": self.tier, "seed": int(self.seed),
            "level": self.level, "coverage": cov,
            "assumptions": self.assumptions,
            "wall_s": round(wall, 3),
            "violations": len(self.violations),
        }
        if not os.environ.get("VERIF_NO_EVIDENCE"):
            os.makedirs(EVID, exist_ok=True)
            tmp = os.path.join(EVID, ".%s.json.tmp.%d" % (self.prop, os.getpid()))
            with open(tmp, "w") as f:
                json.dump(ev, f, indent=1, sort_keys=True)
            os.replace(tmp, os.path.join(EVID, "%s.json" % self.prop))
        # one line for every listed finding of this property: witnessed in this run, or listed but not driven by this
        # run's inputs (the list is the committed file; nothing is added to it at run time)
        listed = {k[1]: v for k, v in self.known.items() if k[0] == self.prop and v.get("status") == "known"}
        for key in sorted(set(listed) | set(self.known_hits)):
            what, n = self.known_hits.get(key, (listed.get(key, {}).get("what", ""), 0))
            print("KNOWN-FINDING: property=%s key=%s %s (witnesses this run: %d%s)"
                  % (self.prop, key, what, n, "" if n else " - not driven by this run's inputs"))
        print("%s tier=%s seed=%d evaluations=%d distinct_nontrivial=%d wall=%.1fs"
              % (self.prop, self.tier, self.seed, self.evaluations,
                 len(self.nontrivial), wall))
        for k in sorted(self.counters):
            print("  counter %-40s %s" % (k, self.counters[k]))
        if self.violations:
            for key, what, path in self.violations:
                print("  witness key=%s: %s" % (key, what))
                print("VIOLATION property=%s replay=%s" % (self.prop, path))
            sys.stdout.flush()
            return 1
        if self.inconclusive or self.evaluations == 0 or len(self.nontrivial) < 2:
            if not self.inconclusive:
                self.inconclusive.append("too few evaluations")
            for r in self.inconclusive:
                print("INCONCLUSIVE property=%s reason=%s" % (self.prop, r))
            sys.stdout.flush()
            return 2
        sys.stdout.flush()
        return 0


def guarded(run, fn, key_prefix, descriptor):
    """Run fn(); an unexpected exception is an inconclusive reason (harness
    bug until shown otherwise), not a violation."""
    try:
        return fn()
    except Violation:
        raise
    except Exception as e:   # pragma: no cover
        run.inconc("%s: unexpected %s: %s [%s]" % (
            key_prefix, type(e).__name__, e, descriptor))
        traceback.print_exc()
        return None
