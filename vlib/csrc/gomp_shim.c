/* gomp_shim.c - minimal OpenMP runtime on plain pthreads for ThreadSanitizer runs.
 *
 * libgomp synchronises with futexes that libtsan does not intercept, so TSan on
 * real libgomp drowns in false races.  gcc emits only a dozen GOMP entry points
 * for this code base; this shim implements them with fresh pthreads per
 * parallel region, pthread barriers and mutexes, so libtsan sees exactly the
 * happens-before edges OpenMP guarantees (fork, join, barrier, critical) and
 * nothing else.  Compiled with -fsanitize=thread.
 */
#define _GNU_SOURCE
#include <pthread.h>
#include <stdlib.h>

#define EXPORT __attribute__((visibility("default")))

static int cfg_threads = 4;
typedef struct {
    int tid;
    pthread_t th;
    int loops_seen;
} th_t;
static __thread th_t *me = NULL;
static int team_n = 0;
static void (*team_fn)(void *);
static void *team_data;
static pthread_barrier_t team_bar;
static pthread_mutex_t ws_mtx = PTHREAD_MUTEX_INITIALIZER, crit_mtx = PTHREAD_MUTEX_INITIALIZER,
                       atom_mtx = PTHREAD_MUTEX_INITIALIZER;
static struct {
    long next, end, incr, chunk;
} ws;
static int ws_gen = 0;

static void *worker(void *arg) {
    me = (th_t *)arg;
    team_fn(team_data);
    return NULL;
}

EXPORT void GOMP_parallel(void (*fn)(void *), void *data, unsigned nthreads, unsigned flags) {
    int n = nthreads ? (int)nthreads : cfg_threads, i;
    th_t *T;
    (void)flags;
    if (team_n) { /* nested */
        fn(data);
        return;
    }
    T = (th_t *)calloc((size_t)n, sizeof(th_t));
    team_fn = fn;
    team_data = data;
    team_n = n;
    ws_gen = 0;
    pthread_barrier_init(&team_bar, NULL, (unsigned)n);
    for (i = 0; i < n; i++) {
        T[i].tid = i;
        T[i].loops_seen = 0;
    }
    for (i = 1; i < n; i++) pthread_create(&T[i].th, NULL, worker, &T[i]);
    me = &T[0];
    fn(data);
    for (i = 1; i < n; i++) pthread_join(T[i].th, NULL);
    pthread_barrier_destroy(&team_bar);
    me = NULL;
    team_n = 0;
    free(T);
}

EXPORT void GOMP_barrier(void) {
    if (team_n > 1) pthread_barrier_wait(&team_bar);
}
EXPORT void GOMP_critical_start(void) { pthread_mutex_lock(&crit_mtx); }
EXPORT void GOMP_critical_end(void) { pthread_mutex_unlock(&crit_mtx); }
EXPORT void GOMP_atomic_start(void) { pthread_mutex_lock(&atom_mtx); }
EXPORT void GOMP_atomic_end(void) { pthread_mutex_unlock(&atom_mtx); }

static int next_chunk(long *istart, long *iend) {
    long s, e;
    int ok = 1;
    pthread_mutex_lock(&ws_mtx);
    if (ws.incr > 0) {
        if (ws.next >= ws.end) ok = 0;
    } else if (ws.next <= ws.end) ok = 0;
    if (ok) {
        s = ws.next;
        e = s + ws.chunk * ws.incr;
        if (ws.incr > 0 ? e > ws.end : e < ws.end) e = ws.end;
        ws.next = e;
        *istart = s;
        *iend = e;
    }
    pthread_mutex_unlock(&ws_mtx);
    return ok;
}

EXPORT int GOMP_loop_nonmonotonic_dynamic_start(long start, long end, long incr, long chunk, long *istart,
                                                long *iend) {
    if (!me) {
        *istart = start;
        *iend = end;
        return incr > 0 ? start < end : start > end;
    }
    pthread_mutex_lock(&ws_mtx);
    if (me->loops_seen == ws_gen) {
        ws.next = start;
        ws.end = end;
        ws.incr = incr;
        ws.chunk = chunk < 1 ? 1 : chunk;
        ws_gen++;
    }
    me->loops_seen++;
    pthread_mutex_unlock(&ws_mtx);
    return next_chunk(istart, iend);
}
EXPORT int GOMP_loop_nonmonotonic_dynamic_next(long *istart, long *iend) { return me ? next_chunk(istart, iend) : 0; }
EXPORT int GOMP_loop_dynamic_start(long a, long b, long c, long d, long *e, long *f) {
    return GOMP_loop_nonmonotonic_dynamic_start(a, b, c, d, e, f);
}
EXPORT int GOMP_loop_dynamic_next(long *e, long *f) { return GOMP_loop_nonmonotonic_dynamic_next(e, f); }
EXPORT void GOMP_loop_end_nowait(void) {}
EXPORT void GOMP_loop_end(void) { GOMP_barrier(); }

EXPORT int omp_get_thread_num(void) { return me ? me->tid : 0; }
EXPORT int omp_get_num_threads(void) { return me ? team_n : 1; }
EXPORT int omp_get_max_threads(void) { return cfg_threads; }
EXPORT void omp_set_num_threads(int n) { cfg_threads = n < 1 ? 1 : n; }
EXPORT int omp_in_parallel(void) { return team_n > 0; }
