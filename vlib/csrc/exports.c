/* Harness-side additions linked into every kernel library built from
 * /repo/src/*.c: re-exports of hidden (DLL_LOCAL) functions and
 * stack-painting helpers for the definedness differentials.            */
#include <stdint.h>
#include <string.h>
#include "cImageD11.h"

int connectedpixels(float *data, int32_t *labels, float threshold, int verbose,
                    int eightconnected, int ns, int nf);

DLL_PUBLIC
int v_connectedpixels(float *data, int32_t *labels, float threshold, int verbose,
                      int eightconnected, int ns, int nf) {
    return connectedpixels(data, labels, threshold, verbose, eightconnected, ns, nf);
}

/* Fill ~nbytes of stack below the caller with a byte pattern.  noinline and
 * volatile so the compiler really writes it.                              */
DLL_PUBLIC __attribute__((noinline))
int v_paint_stack(int pattern, int nbytes) {
    volatile unsigned char buf[65536];
    int i, n = nbytes;
    if (n > 65536) n = 65536;
    for (i = 0; i < n; i++) buf[i] = (unsigned char)pattern;
    return buf[n / 2];
}

/* trampolines: paint, then call the kernel from the same frame depth */
typedef double vec[3];
void refine_assigned(vec ubi[3], vec gv[], int labels[], int label, int *npk,
                     double *sumdrlv2, int ng);
DLL_PUBLIC __attribute__((noinline))
void v_refine_assigned_painted(int pattern, vec ubi[3], vec gv[], int labels[],
                               int label, int *npk, double *drlv2, int ng) {
    v_paint_stack(pattern, 32768);
    refine_assigned(ubi, gv, labels, label, npk, drlv2, ng);
}

void score_and_refine(vec ubi[3], vec gv[], double tol, int *n_arg,
                      double *sumdrlv2_arg, int ng);
DLL_PUBLIC __attribute__((noinline))
void v_score_and_refine_painted(int pattern, vec ubi[3], vec gv[], double tol,
                                int *npks, double *drlv2, int ng) {
    v_paint_stack(pattern, 32768);
    score_and_refine(ubi, gv, tol, npks, drlv2, ng);
}
