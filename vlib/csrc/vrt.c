/* vrt.c - verification runtime for the "sched" kernel library.
 *
 * The kernel objects are compiled by gcc with -fsanitize=thread -fopenmp, which
 * makes the compiler insert a call (__tsan_readN / __tsan_writeN / ...) before
 * every memory access that could be shared, and lowers OpenMP constructs to
 * GOMP_* calls.  This file implements BOTH sets of entry points (no libtsan, no
 * libgomp is linked), which gives:
 *
 *  1. a deterministic controlled scheduler: the threads of a team are real
 *     pthreads but only the holder of a baton runs; every instrumented access,
 *     barrier and dynamic-loop chunk hand-out is a schedule point at which a
 *     seeded PRNG may pass the baton.  Executions are sequentially consistent
 *     interleavings and a pure function of (inputs, thread count, seed).
 *
 *  2. a precise per-access monitor: every instrumented access is checked
 *     against the regions the kernel may touch (buffers registered by the
 *     harness with rights, blocks obtained through the wrapped malloc family,
 *     thread stacks, the library image); reads of never-written bytes of
 *     tracked regions are reported.
 */
#define _GNU_SOURCE
#include <dlfcn.h>
#include <link.h>
#include <pthread.h>
#include <semaphore.h>
#include <stdint.h>
#include <stdio.h>
#include <stdlib.h>
#include <string.h>

#define EXPORT __attribute__((visibility("default")))

void *__real_malloc(size_t);
void *__real_calloc(size_t, size_t);
void *__real_realloc(void *, size_t);
void __real_free(void *);
void *__real_memset(void *, int, size_t);

/* ------------------------------------------------------------------ PRNG */
static uint64_t rng_state = 88172645463325252ULL;
static inline uint64_t rnd64(void) {
    uint64_t x = rng_state;
    x ^= x >> 12;
    x ^= x << 25;
    x ^= x >> 27;
    rng_state = x;
    return x * 2685821657736338717ULL;
}
static inline uint32_t rnd_below(uint32_t n) { return (uint32_t)((rnd64() >> 33) % n); }

/* ------------------------------------------------------------- configuration */
static int cfg_threads = 4;
static int cfg_mean_gap = 50;      /* mean number of accesses between switches */
static int cfg_pyw = 0;            /* per-mille chance to yield right after a write */
static int cfg_sched = 1;

/* ------------------------------------------------------------------ counters */
static uint64_t n_access, n_switch, n_regions_run, sched_hash = 1469598103934665603ULL;
static uint64_t n_sched_points;
static uint64_t n_parks = 0;

/* ---------------------------------------------------------------- regions */
#define MAXREG 256
#define R_READ 1
#define R_WRITE 2
typedef struct {
    uintptr_t lo, hi;
    int rights;
    int kind;             /* 0 harness buffer, 1 kernel malloc, 2 freed */
    unsigned char *wr;    /* written bitmap (1 byte per byte) or NULL */
    int id;
} region_t;
static region_t regs[MAXREG];
static int nreg = 0;

#define MAXVIO 64
typedef struct {
    int kind;   /* 1 read outside, 2 write outside, 3 write to read-only, 4 read of never-written, 5 use after free */
    int tid;
    uint64_t addr, size, pc_off;
    int region;
    int64_t region_off;
} vio_t;
static vio_t vios[MAXVIO];
static uint64_t nvio = 0;

static uintptr_t lib_lo, lib_hi, lib_base;
#define MAXSTK 130
static uintptr_t stk_lo[MAXSTK], stk_hi[MAXSTK];
static int nstk = 0;

static void add_stack_of_self(void) {
    pthread_attr_t at;
    void *sa;
    size_t ss;
    if (nstk >= MAXSTK) return;
    if (pthread_getattr_np(pthread_self(), &at) != 0) return;
    pthread_attr_getstack(&at, &sa, &ss);
    pthread_attr_destroy(&at);
    stk_lo[nstk] = (uintptr_t)sa;
    stk_hi[nstk] = (uintptr_t)sa + ss;
    nstk++;
}

static int phdr_cb(struct dl_phdr_info *info, size_t size, void *data) {
    uintptr_t me = (uintptr_t)data;
    int i;
    uintptr_t lo = (uintptr_t)-1, hi = 0;
    for (i = 0; i < info->dlpi_phnum; i++) {
        if (info->dlpi_phdr[i].p_type != PT_LOAD) continue;
        uintptr_t a = info->dlpi_addr + info->dlpi_phdr[i].p_vaddr;
        uintptr_t b = a + info->dlpi_phdr[i].p_memsz;
        if (a < lo) lo = a;
        if (b > hi) hi = b;
    }
    if (me >= lo && me < hi) {
        lib_lo = lo;
        lib_hi = hi;
        lib_base = info->dlpi_addr;
        return 1;
    }
    return 0;
}

static int inited = 0;
static uintptr_t main_stk_lo, main_stk_hi;
static void vrt_init_once(void) {
    if (inited) return;
    inited = 1;
    dl_iterate_phdr(phdr_cb, (void *)&vrt_init_once);
    add_stack_of_self();
    if (nstk > 0) {
        main_stk_lo = stk_lo[0];
        main_stk_hi = stk_hi[0];
    }
}

EXPORT void vrt_config(uint64_t seed, int mean_gap, int pyw_permille, int nthreads, int sched) {
    vrt_init_once();
    rng_state = seed * 6364136223846793005ULL + 1442695040888963407ULL;
    if (rng_state == 0) rng_state = 1;
    rnd64();
    rnd64();
    cfg_mean_gap = mean_gap < 1 ? 1 : mean_gap;
    cfg_pyw = pyw_permille;
    cfg_threads = nthreads < 1 ? 1 : nthreads;
    cfg_sched = sched;
}

EXPORT void vrt_reset(void) {
    int i;
    vrt_init_once();
    for (i = 0; i < nreg; i++)
        if (regs[i].wr) __real_free(regs[i].wr);
    nreg = 0;
    nvio = 0;
    n_access = n_switch = n_regions_run = n_sched_points = 0;
    n_parks = 0;
    sched_hash = 1469598103934665603ULL;
    /* keep only the stack of the calling (main) thread */
    nstk = 0;
    add_stack_of_self();
}

static int add_region(uintptr_t lo, size_t n, int rights, int kind, int track, int preset) {
    int i;
    /* reuse a freed slot that overlaps (address reuse) */
    for (i = 0; i < nreg; i++) {
        if (regs[i].kind == 2 && regs[i].lo < lo + n && lo < regs[i].hi) {
            regs[i].lo = regs[i].hi = 0; /* forget it */
        }
    }
    if (nreg >= MAXREG) {
        /* compact forgotten entries */
        int j = 0;
        for (i = 0; i < nreg; i++)
            if (regs[i].hi != 0 || regs[i].lo != 0) regs[j++] = regs[i];
        nreg = j;
        if (nreg >= MAXREG) return -1;
    }
    regs[nreg].lo = lo;
    regs[nreg].hi = lo + n;
    regs[nreg].rights = rights;
    regs[nreg].kind = kind;
    regs[nreg].id = nreg;
    regs[nreg].wr = NULL;
    if (track && n > 0) {
        regs[nreg].wr = (unsigned char *)__real_malloc(n);
        __real_memset(regs[nreg].wr, preset ? 1 : 0, n);
    }
    return nreg++;
}

EXPORT int vrt_region_add(void *p, uint64_t n, int rights, int track) {
    vrt_init_once();
    return add_region((uintptr_t)p, (size_t)n, rights, 0, track, 0);
}

EXPORT void vrt_stats(uint64_t *out) {
    out[0] = n_access;
    out[1] = n_switch;
    out[2] = n_regions_run;
    out[3] = sched_hash;
    out[4] = nvio;
    out[5] = n_sched_points;
    out[6] = (uint64_t)nreg;
    out[7] = (uint64_t)lib_base;
}

EXPORT int vrt_violation(int i, int64_t *out) {
    if (i < 0 || (uint64_t)i >= nvio || i >= MAXVIO) return 0;
    out[0] = vios[i].kind;
    out[1] = vios[i].tid;
    out[2] = (int64_t)vios[i].addr;
    out[3] = (int64_t)vios[i].size;
    out[4] = (int64_t)vios[i].pc_off;
    out[5] = vios[i].region;
    out[6] = vios[i].region_off;
    return 1;
}

/* number of bytes of a tracked region that were never written (for outputs) */
EXPORT int64_t vrt_unwritten(int region, int64_t *first) {
    int64_t k, c = 0;
    if (region < 0 || region >= nreg || !regs[region].wr) return -1;
    *first = -1;
    for (k = 0; k < (int64_t)(regs[region].hi - regs[region].lo); k++)
        if (!regs[region].wr[k]) {
            if (c == 0) *first = k;
            c++;
        }
    return c;
}

/* ------------------------------------------------- race-directed scheduling
 * sched mode 2: profile pass 1 (sequential team): for every 4-byte cell remember which thread touched it and
 *               whether two different threads did, at least one of them writing  -> "shared-written" cells
 * sched mode 3: profile pass 2 (sequential team): every access to a shared-written cell adds its PC to the hot set
 * sched mode 4: random scheduling + a thread executing an access at a hot PC is PARKED with probability 1/2:
 *               it is not scheduled again until no other thread is runnable (or a random un-park), which holds it
 *               inside read-modify-write / publish windows while the other threads overtake it.               */
#define PT_BITS 20
#define PT_SIZE (1u << PT_BITS)
typedef struct {
    uintptr_t cell;
    int16_t tid;
    uint8_t written, shared;
} pcell_t;
static pcell_t *ptab = NULL;
#define HOT_MAX 512
static uintptr_t hot_pc[HOT_MAX];
static int n_hot = 0;
static uint8_t hot_filter[4096];
static uint64_t n_shared_cells = 0;

EXPORT void vrt_profile_clear(void) {
    if (!ptab) ptab = (pcell_t *)__real_calloc(PT_SIZE, sizeof(pcell_t));
    else __real_memset(ptab, 0, PT_SIZE * sizeof(pcell_t));
    n_hot = 0;
    n_shared_cells = 0;
    __real_memset(hot_filter, 0, sizeof(hot_filter));
}
EXPORT int vrt_hot_count(void) { return n_hot; }
EXPORT uint64_t vrt_hot_pc(int i) { return (i >= 0 && i < n_hot) ? (uint64_t)(hot_pc[i] - lib_base) : 0; }
EXPORT uint64_t vrt_parks(void) { return n_parks; }
EXPORT uint64_t vrt_shared_cells(void) { return n_shared_cells; }

static inline pcell_t *pfind(uintptr_t cell, int create) {
    uint32_t h = (uint32_t)((cell * 0x9E3779B97F4A7C15ULL) >> (64 - PT_BITS));
    int probe;
    for (probe = 0; probe < 64; probe++) {
        pcell_t *e = &ptab[(h + probe) & (PT_SIZE - 1)];
        if (e->cell == cell) return e;
        if (e->cell == 0) {
            if (!create) return NULL;
            e->cell = cell;
            e->tid = -1;
            return e;
        }
    }
    return NULL;
}

static inline int is_hot(uintptr_t pc) {
    int i;
    if (!hot_filter[(pc >> 1) & 4095]) return 0;
    for (i = 0; i < n_hot; i++)
        if (hot_pc[i] == pc) return 1;
    return 0;
}

/* ---------------------------------------------------------------- threads */
enum { T_RUNNABLE = 0, T_BARRIER, T_LOCKWAIT, T_DONE, T_PARKED };
typedef struct {
    int tid, state, loops_seen, yield_next, parks_left;
    int64_t countdown;
    sem_t sem;
    pthread_t th;
} thr_t;

#define MAXT 128
static thr_t T[MAXT];
static int team_n = 0, team_active = 0, ndone = 0, nbar = 0;
static __thread thr_t *me = NULL;
static void (*team_fn)(void *);
static void *team_data;
static int lock_held = 0; /* critical / atomic */

typedef struct {
    long next, end, incr, chunk;
} ws_t;
static ws_t ws;
static int ws_gen = 0;

static void record_vio(int kind, uintptr_t addr, size_t size, uintptr_t pc, int region, int64_t off) {
    if (nvio < MAXVIO) {
        vios[nvio].kind = kind;
        vios[nvio].tid = me ? me->tid : 0;
        vios[nvio].addr = addr;
        vios[nvio].size = size;
        vios[nvio].pc_off = pc - lib_base;
        vios[nvio].region = region;
        vios[nvio].region_off = off;
    }
    nvio++;
}

static inline void check_access(uintptr_t a, size_t n, int is_write, uintptr_t pc) {
    static __thread int last = -1;
    int i;
    region_t *r = NULL;
    if (last >= 0 && last < nreg && a >= regs[last].lo && a + n <= regs[last].hi) {
        r = &regs[last];
    } else {
        for (i = nreg - 1; i >= 0; i--) {
            if (a >= regs[i].lo && a + n <= regs[i].hi && regs[i].hi != 0) {
                r = &regs[i];
                last = i;
                break;
            }
        }
    }
    if (r) {
        if (r->kind == 2) {
            record_vio(5, a, n, pc, r->id, (int64_t)(a - r->lo));
            return;
        }
        if (is_write) {
            if (!(r->rights & R_WRITE)) record_vio(3, a, n, pc, r->id, (int64_t)(a - r->lo));
            if (r->wr) __real_memset(r->wr + (a - r->lo), 1, n);
        } else if (r->wr) {
            size_t k;
            for (k = 0; k < n; k++)
                if (!r->wr[a - r->lo + k]) {
                    record_vio(4, a, n, pc, r->id, (int64_t)(a - r->lo));
                    break;
                }
        }
        return;
    }
    /* stacks */
    {
        uintptr_t sp = (uintptr_t)__builtin_frame_address(0);
        (void)sp;
        for (i = 0; i < nstk; i++)
            if (a >= stk_lo[i] && a + n <= stk_hi[i]) return;
    }
    if (a >= lib_lo && a + n <= lib_hi) return; /* library data / rodata / GOT */
    /* partially overlapping a region, or entirely outside: find the nearest for the report */
    {
        int best = -1;
        int64_t bd = 0, off = 0;
        for (i = 0; i < nreg; i++) {
            int64_t d;
            if (regs[i].hi == 0) continue;
            if (a + n <= regs[i].lo) d = (int64_t)(regs[i].lo - a);
            else if (a >= regs[i].hi) d = (int64_t)(a - regs[i].hi) + 1;
            else d = 0;
            if (best < 0 || d < bd) {
                best = i;
                bd = d;
                off = (int64_t)a - (int64_t)regs[i].lo;
            }
        }
        record_vio(is_write ? 2 : 1, a, n, pc, best, off);
    }
}

static int pick_runnable(void) {
    int i, c = 0, k;
    for (i = 0; i < team_n; i++)
        if (T[i].state == T_RUNNABLE) c++;
    if (c == 0 || (cfg_sched == 4 && rnd_below(64) == 0)) {
        /* nobody else can run (or a rare random un-park): release the parked threads */
        int np = 0;
        for (i = 0; i < team_n; i++)
            if (T[i].state == T_PARKED) {
                T[i].state = T_RUNNABLE;
                np++;
            }
        c += np;
    }
    if (c == 0) return -1;
    k = (int)rnd_below((uint32_t)c);
    for (i = 0; i < team_n; i++)
        if (T[i].state == T_RUNNABLE) {
            if (k == 0) return i;
            k--;
        }
    return -1;
}

static void switch_to(int next) {
    sched_hash = (sched_hash ^ (uint64_t)(next + 1)) * 1099511628211ULL;
    if (next == me->tid) return;
    n_switch++;
    sem_post(&T[next].sem);
    sem_wait(&me->sem);
}

static void deadlock(const char *why) {
    fprintf(stderr, "vrt: scheduler deadlock: %s\n", why);
    fflush(stderr);
    abort();
}

static inline int64_t new_gap(void) {
    /* geometric-ish: uniform in [1, 2*mean) */
    return 1 + (int64_t)rnd_below((uint32_t)(2 * cfg_mean_gap));
}

static inline void profile_access(uintptr_t a, size_t n, int is_write, uintptr_t pc) {
    if (!team_active || !me || !ptab) return;
    if (cfg_sched == 2) {
        uintptr_t c;
        for (c = a >> 2; c <= (a + n - 1) >> 2; c++) {
            pcell_t *e = pfind(c + 1, 1);
            if (!e) continue;
            if (e->tid < 0) e->tid = (int16_t)me->tid;
            else if (e->tid != me->tid && !e->shared) {
                e->shared = 1;
            }
            if (is_write) e->written = 1;
        }
    } else if (cfg_sched == 3) {
        uintptr_t c;
        for (c = a >> 2; c <= (a + n - 1) >> 2; c++) {
            pcell_t *e = pfind(c + 1, 0);
            if (e && e->shared && e->written) {
                n_shared_cells++;
                if (!is_hot(pc) && n_hot < HOT_MAX) {
                    hot_pc[n_hot++] = pc;
                    hot_filter[(pc >> 1) & 4095] = 1;
                }
                break;
            }
        }
    } else if (cfg_sched == 4 && me->parks_left > 0 && is_hot(pc) && rnd_below(4) == 0) {
        int next;
        me->parks_left--;
        /* park: let the others overtake while we sit just before this access */
        me->state = T_PARKED;
        n_parks++;
        next = pick_runnable();
        if (next < 0) deadlock("parking left nobody runnable");
        if (T[me->tid].state == T_PARKED && next == me->tid) T[me->tid].state = T_RUNNABLE;
        sched_hash = (sched_hash ^ 0x9e37u) * 1099511628211ULL;
        if (next != me->tid) {
            n_switch++;
            sched_hash = (sched_hash ^ (uint64_t)(next + 1)) * 1099511628211ULL;
            sem_post(&T[next].sem);
            sem_wait(&me->sem);
        }
        me->state = T_RUNNABLE;
    }
}

static inline void sched_point(int is_write, int force) {
    int next;
    if (!team_active || !me) return;
    n_sched_points++;
    if (cfg_sched != 1 && cfg_sched != 4) return;
    if (me->yield_next) {
        me->yield_next = 0;
        force = 1;
    }
    if (is_write && cfg_pyw && (int)rnd_below(1000) < cfg_pyw) me->yield_next = 1;
    if (!force && --me->countdown > 0) return;
    me->countdown = new_gap();
    next = pick_runnable();
    if (next < 0) deadlock("no runnable thread at schedule point");
    switch_to(next);
}

static void thread_finish(void) {
    int next;
    me->state = T_DONE;
    ndone++;
    if (ndone == team_n) {
        if (me->tid != 0) sem_post(&T[0].sem);
        return;
    }
    next = pick_runnable();
    if (next < 0) deadlock("threads neither done nor runnable at thread exit");
    sched_hash = (sched_hash ^ (uint64_t)(next + 1)) * 1099511628211ULL;
    sem_post(&T[next].sem);
    if (me->tid == 0) sem_wait(&T[0].sem); /* woken by the last finisher */
}

static void *worker(void *arg) {
    me = (thr_t *)arg;
    sem_wait(&me->sem);
    team_fn(team_data);
    thread_finish();
    return NULL;
}

EXPORT void GOMP_parallel(void (*fn)(void *), void *data, unsigned nthreads, unsigned flags) {
    int n, i, first;
    (void)flags;
    vrt_init_once();
    if (team_active) { /* nested: run serially */
        fn(data);
        return;
    }
    n = nthreads ? (int)nthreads : cfg_threads;
    if (n > MAXT) n = MAXT;
    n_regions_run++;
    team_fn = fn;
    team_data = data;
    team_n = n;
    ndone = 0;
    nbar = 0;
    ws_gen = 0;
    lock_held = 0;
    for (i = 0; i < n; i++) {
        T[i].tid = i;
        T[i].state = T_RUNNABLE;
        T[i].loops_seen = 0;
        T[i].yield_next = 0;
        T[i].parks_left = 24;   /* bound the cost: a few dozen parks per thread and region */
        T[i].countdown = new_gap();
        sem_init(&T[i].sem, 0, 0);
    }
    me = &T[0];
    team_active = 1;
    {
        pthread_attr_t at;
        pthread_attr_init(&at);
        pthread_attr_setstacksize(&at, 1 << 20);
        for (i = 1; i < n; i++) {
            pthread_create(&T[i].th, &at, worker, &T[i]);
        }
        pthread_attr_destroy(&at);
    }
    /* stacks of the workers: they are blocked on their semaphore now or soon; query from here */
    for (i = 1; i < n; i++) {
        pthread_attr_t at;
        void *sa;
        size_t ss;
        if (nstk < MAXSTK && pthread_getattr_np(T[i].th, &at) == 0) {
            pthread_attr_getstack(&at, &sa, &ss);
            pthread_attr_destroy(&at);
            stk_lo[nstk] = (uintptr_t)sa;
            stk_hi[nstk] = (uintptr_t)sa + ss;
            nstk++;
        }
    }
    first = (cfg_sched == 1 || cfg_sched == 4) ? (int)rnd_below((uint32_t)n) : 0;
    sched_hash = (sched_hash ^ (uint64_t)(first + 1)) * 1099511628211ULL;
    if (first != 0) {
        sem_post(&T[first].sem);
        sem_wait(&T[0].sem);
    }
    fn(data);
    thread_finish();
    for (i = 1; i < n; i++) pthread_join(T[i].th, NULL);
    team_active = 0;
    nstk = 1; /* keep main stack only */
    for (i = 0; i < n; i++) sem_destroy(&T[i].sem);
    me = NULL;
    team_n = 0;
}

EXPORT void GOMP_barrier(void) {
    int i, next;
    if (!team_active || !me) return;
    me->state = T_BARRIER;
    nbar++;
    if (nbar == team_n - ndone) {
        for (i = 0; i < team_n; i++)
            if (T[i].state == T_BARRIER) T[i].state = T_RUNNABLE;
        nbar = 0;
    }
    next = pick_runnable();
    if (next < 0) deadlock("all threads blocked at barrier/lock");
    switch_to(next);
}

static void lock_acquire(void) {
    if (!team_active || !me) return;
    sched_point(0, 0);
    while (lock_held) {
        int next;
        me->state = T_LOCKWAIT;
        next = pick_runnable();
        if (next < 0) deadlock("lock held and nobody runnable");
        switch_to(next);
    }
    lock_held = 1;
}
static void lock_release(void) {
    int i;
    if (!team_active || !me) return;
    lock_held = 0;
    for (i = 0; i < team_n; i++)
        if (T[i].state == T_LOCKWAIT) T[i].state = T_RUNNABLE;
    sched_point(0, 0);
}
EXPORT void GOMP_critical_start(void) { lock_acquire(); }
EXPORT void GOMP_critical_end(void) { lock_release(); }
EXPORT void GOMP_atomic_start(void) { lock_acquire(); }
EXPORT void GOMP_atomic_end(void) { lock_release(); }

static int ws_next_chunk(long *istart, long *iend) {
    long s, e;
    sched_point(0, (cfg_sched == 1 || cfg_sched == 4) && rnd_below(4) == 0);
    if (ws.incr > 0) {
        if (ws.next >= ws.end) return 0;
        s = ws.next;
        e = s + ws.chunk * ws.incr;
        if (e > ws.end) e = ws.end;
    } else {
        if (ws.next <= ws.end) return 0;
        s = ws.next;
        e = s + ws.chunk * ws.incr;
        if (e < ws.end) e = ws.end;
    }
    ws.next = e;
    *istart = s;
    *iend = e;
    return 1;
}

EXPORT int GOMP_loop_nonmonotonic_dynamic_start(long start, long end, long incr, long chunk, long *istart,
                                                long *iend) {
    if (!team_active || !me) { /* orphaned: whole range */
        *istart = start;
        *iend = end;
        return (incr > 0) ? (start < end) : (start > end);
    }
    if (me->loops_seen == ws_gen) {
        ws.next = start;
        ws.end = end;
        ws.incr = incr;
        ws.chunk = chunk < 1 ? 1 : chunk;
        ws_gen++;
    }
    me->loops_seen++;
    return ws_next_chunk(istart, iend);
}
EXPORT int GOMP_loop_nonmonotonic_dynamic_next(long *istart, long *iend) {
    if (!team_active || !me) return 0;
    return ws_next_chunk(istart, iend);
}
EXPORT int GOMP_loop_dynamic_start(long a, long b, long c, long d, long *e, long *f) {
    return GOMP_loop_nonmonotonic_dynamic_start(a, b, c, d, e, f);
}
EXPORT int GOMP_loop_dynamic_next(long *e, long *f) { return GOMP_loop_nonmonotonic_dynamic_next(e, f); }
EXPORT void GOMP_loop_end_nowait(void) {}
EXPORT void GOMP_loop_end(void) { GOMP_barrier(); }

EXPORT int omp_get_thread_num(void) { return (team_active && me) ? me->tid : 0; }
EXPORT int omp_get_num_threads(void) { return (team_active && me) ? team_n : 1; }
EXPORT int omp_get_max_threads(void) { return cfg_threads; }
EXPORT void omp_set_num_threads(int n) { cfg_threads = n < 1 ? 1 : n; }
EXPORT int omp_in_parallel(void) { return team_active; }

/* ------------------------------------------------ compiler instrumentation */
#define PC ((uintptr_t)__builtin_return_address(0))
#define RD(N)                                                                                                          \
    EXPORT void __tsan_read##N(void *a) {                                                                              \
        n_access++;                                                                                                    \
        if (cfg_sched >= 2) profile_access((uintptr_t)a, N, 0, PC);                                                    \
        sched_point(0, 0);                                                                                             \
        check_access((uintptr_t)a, N, 0, PC);                                                                          \
    }                                                                                                                  \
    EXPORT void __tsan_unaligned_read##N(void *a) {                                                                    \
        n_access++;                                                                                                    \
        if (cfg_sched >= 2) profile_access((uintptr_t)a, N, 0, PC);                                                    \
        sched_point(0, 0);                                                                                             \
        check_access((uintptr_t)a, N, 0, PC);                                                                          \
    }
#define WR(N)                                                                                                          \
    EXPORT void __tsan_write##N(void *a) {                                                                             \
        n_access++;                                                                                                    \
        if (cfg_sched >= 2) profile_access((uintptr_t)a, N, 1, PC);                                                    \
        sched_point(1, 0);                                                                                             \
        check_access((uintptr_t)a, N, 1, PC);                                                                          \
    }                                                                                                                  \
    EXPORT void __tsan_unaligned_write##N(void *a) {                                                                   \
        n_access++;                                                                                                    \
        if (cfg_sched >= 2) profile_access((uintptr_t)a, N, 1, PC);                                                    \
        sched_point(1, 0);                                                                                             \
        check_access((uintptr_t)a, N, 1, PC);                                                                          \
    }
RD(1) RD(2) RD(4) RD(8) RD(16) WR(1) WR(2) WR(4) WR(8) WR(16)

EXPORT void __tsan_read_range(void *a, unsigned long n) {
    n_access++;
    sched_point(0, 0);
    if (n) check_access((uintptr_t)a, n, 0, PC);
}
EXPORT void __tsan_write_range(void *a, unsigned long n) {
    n_access++;
    sched_point(1, 0);
    if (n) check_access((uintptr_t)a, n, 1, PC);
}
EXPORT void __tsan_init(void) { vrt_init_once(); }
EXPORT void __tsan_func_entry(void *pc) { (void)pc; }
EXPORT void __tsan_func_exit(void) {}
EXPORT void __tsan_vptr_update(void **a, void *b) { (void)a; (void)b; }
EXPORT void __tsan_vptr_read(void **a) { (void)a; }

EXPORT int __tsan_atomic32_fetch_add(volatile int *a, int v, int mo) {
    int old;
    (void)mo;
    n_access++;
    sched_point(1, 0);
    check_access((uintptr_t)a, 4, 1, PC);
    old = *a;      /* atomic: no schedule point between the read and the write */
    *a = old + v;
    return old;
}
EXPORT int __tsan_atomic32_load(const volatile int *a, int mo) {
    (void)mo;
    n_access++;
    sched_point(0, 0);
    check_access((uintptr_t)a, 4, 0, PC);
    return *a;
}
EXPORT void __tsan_atomic32_store(volatile int *a, int v, int mo) {
    (void)mo;
    n_access++;
    sched_point(1, 0);
    check_access((uintptr_t)a, 4, 1, PC);
    *a = v;
}
EXPORT long __tsan_atomic64_fetch_add(volatile long *a, long v, int mo) {
    long old;
    (void)mo;
    n_access++;
    sched_point(1, 0);
    check_access((uintptr_t)a, 8, 1, PC);
    old = *a;
    *a = old + v;
    return old;
}
EXPORT void __tsan_atomic_thread_fence(int mo) {
    (void)mo;
    sched_point(0, 0);
}
EXPORT void __tsan_atomic_signal_fence(int mo) { (void)mo; }

/* ------------------------------------------------------- allocation wrappers */
EXPORT void *__wrap_malloc(size_t n) {
    void *p = __real_malloc(n);
    vrt_init_once();
    if (p) add_region((uintptr_t)p, n, R_READ | R_WRITE, 1, 1, 0);
    return p;
}
EXPORT void *__wrap_calloc(size_t a, size_t b) {
    void *p = __real_calloc(a, b);
    vrt_init_once();
    if (p) add_region((uintptr_t)p, a * b, R_READ | R_WRITE, 1, 1, 1);
    return p;
}
static int find_exact(uintptr_t p) {
    int i;
    for (i = nreg - 1; i >= 0; i--)
        if (regs[i].lo == p && regs[i].hi != 0 && regs[i].kind == 1) return i;
    return -1;
}
EXPORT void *__wrap_realloc(void *old, size_t n) {
    int i = old ? find_exact((uintptr_t)old) : -1;
    size_t oldn = 0;
    unsigned char *bm = NULL;
    void *p;
    if (i >= 0) {
        oldn = regs[i].hi - regs[i].lo;
        bm = regs[i].wr;
        regs[i].wr = NULL;
        regs[i].lo = regs[i].hi = 0;
    }
    p = __real_realloc(old, n);
    if (p) {
        int j = add_region((uintptr_t)p, n, R_READ | R_WRITE, 1, 1, 0);
        if (j >= 0 && bm && regs[j].wr) memcpy(regs[j].wr, bm, oldn < n ? oldn : n);
    }
    if (bm) __real_free(bm);
    return p;
}
EXPORT void __wrap_free(void *p) {
    int i;
    if (!p) return;
    i = find_exact((uintptr_t)p);
    if (i >= 0) {
        if (regs[i].wr) {
            __real_free(regs[i].wr);
            regs[i].wr = NULL;
        }
        regs[i].kind = 2; /* freed: any later access is a use after free (until the address is reused) */
    }
    __real_free(p);
}
EXPORT void *__wrap_memset(void *p, int c, size_t n) {
    n_access++;
    if (n) check_access((uintptr_t)p, n, 1, PC);
    return __real_memset(p, c, n);
}
