"""Child-side entry: python -m vlib.runner <PROP> [--replay f]"""
from __future__ import print_function
import argparse, importlib, json, os, sys, traceback
from . import common, build


def main():
    ap = argparse.ArgumentParser()
    ap.add_argument("prop")
    ap.add_argument("--replay", default=None)
    a = ap.parse_args()
    prop = a.prop.upper()
    if prop == "C15":
        os.environ.setdefault("NUMBA_NUM_THREADS", "64")   # must be set before numba is imported
    mod = importlib.import_module("vlib.checks.%s" % prop.lower())
    run = common.Run(prop, rule=getattr(mod, "RULE", ""))
    ok, where = build.assert_overlay_loaded()
    run.extra["module_under_test"] = where
    run.extra["source_hash"] = build.source_hash()
    if not ok:
        run.inconc("compiled module not loaded from the overlay: %s" % where)
        return run.finish()
    replay = None
    if a.replay:
        with open(a.replay) as f:
            replay = json.load(f)
    try:
        mod.check(run, replay)
    except Exception as e:
        traceback.print_exc()
        run.inconc("harness exception %s: %s" % (type(e).__name__, e))
    return run.finish()


if __name__ == "__main__":
    rc = main()
    pf = os.environ.get("VERIF_PROGRESS")
    if pf:
        sys.stdout.flush()
        with open(pf + ".done", "w") as f:
            f.write(str(rc))
    sys.exit(rc)
