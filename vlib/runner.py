"""Child-side entry: python -m vlib.runner <PROP> [--replay f]"""
from __future__ import print_function
import argparse, importlib, json, os, sys, traceback
from . import common, build


def main():
    ap = argparse.ArgumentParser()
    ap.add_argument("prop")
    ap.add_argument("--replay", default=None)
    a = ap.parse_args()
    prop = a.prop.upper()
    if prop == "C15":
        os.environ.setdefault("NUMBA_NUM_THREADS", "64")   # must be set before numba is imported
    mod = importlib.import_module("vlib.checks.%s" % prop.lower())
    run = common.Run(prop, rule=getattr(mod, "RULE", ""))
    ok, where = build.assert_overlay_loaded()
    run.extra["module_under_test"] = where
    run.extra["source_hash"] = build.source_hash()
    if not ok:
        run.inconc("compiled module not loaded from the overlay: %s" % where)
        return run.finish()
    replay = None
    if a.replay:
        with open(a.replay) as f:
            replay = json.load(f)
    try:
        mod.check(run, replay)
    except Exception as e:
        traceback.print_exc()
        lib = library_frame(e)
        if lib is not None:
            # an exception that escaped from the code under test on a workload that runs clean on the pinned tree: the run
            # cannot continue, and "the operation raised" is itself the observation (like a crash of the child process)
            run.violation("library-exception:%s:%s" % (type(e).__name__, lib[0]),
                          "%s raised inside the code under test (%s:%d in %s) during the %s workload: %s"
                          % (type(e).__name__, lib[0], lib[1], lib[2], prop, str(e)[:200]),
                          dict(kind="library-exception", where="%s:%d" % (lib[0], lib[1])))
            run.inconc("workload aborted by the exception above; remaining cases were not run")
        else:
            run.inconc("harness exception %s: %s" % (type(e).__name__, e))
    return run.finish()


def library_frame(exc):
    """(file, line, function) of the deepest traceback frame that belongs to the package under test, or None when the
    exception was raised by the harness itself (no such frame below the last harness frame)"""
    repo = os.path.realpath(common.REPO)
    found, seen_lib_after_harness = None, False
    for fr in traceback.extract_tb(exc.__traceback__):
        fn = os.path.realpath(fr.filename)
        if fn.startswith(os.path.join(repo, "ImageD11") + os.sep) or fn.startswith(os.path.join(repo, "scripts") + os.sep):
            found = (os.path.relpath(fn, repo), fr.lineno, fr.name)
        elif os.sep + "vlib" + os.sep in fn:
            found = None                       # back in harness code (callback): judge what follows
    return found


if __name__ == "__main__":
    rc = main()
    pf = os.environ.get("VERIF_PROGRESS")
    if pf:
        sys.stdout.flush()
        with open(pf + ".done", "w") as f:
            f.write(str(rc))
    sys.exit(rc)
