"""Harness forward simulator: peaks (sc, fc, omega) with ground truth (grain id,
hkl) from known grains.  Independent of ImageD11 (uses vlib.geom / vlib.xtal)."""
import numpy as np
from . import geom, xtal

CENTRING_OK = {
    "P": lambda h, k, l: np.ones(h.shape, bool),
    "A": lambda h, k, l: (k + l) % 2 == 0,
    "B": lambda h, k, l: (h + l) % 2 == 0,
    "C": lambda h, k, l: (h + k) % 2 == 0,
    "I": lambda h, k, l: (h + k + l) % 2 == 0,
    "F": lambda h, k, l: ((h + k) % 2 == 0) & ((h + l) % 2 == 0) & ((k + l) % 2 == 0),
    "R": lambda h, k, l: (-h + k + l) % 3 == 0,
}


def make_hkls(cell, sym, dsmax):
    Gi = np.linalg.inv(xtal.metric(cell))
    hm = [int(np.floor(dsmax * cell[i])) + 1 for i in range(3)]
    h, k, l = np.meshgrid(*[np.arange(-m, m + 1) for m in hm], indexing="ij")
    h, k, l = h.ravel(), k.ravel(), l.ravel()
    H = np.array([h, k, l], float)
    ds = np.sqrt(np.einsum("in,ij,jn->n", H, Gi, H))
    ok = CENTRING_OK[sym](h, k, l) & (ds < dsmax) & (ds > 0)
    return np.array([h[ok], k[ok], l[ok]]).T.astype(int), ds[ok]


def default_pars(r, flip=None, bits=0):
    """geometry typical of a 3DXRD far-field detector; switches as in c01.SW order"""
    from .checks.c01 import SW
    on = {n: bool(bits >> i & 1) for i, n in enumerate(SW)}
    fl = geom.FLIPS[int(r.integers(8)) if flip is None else flip]
    p = dict(
        y_center=float(r.uniform(900, 1150)), z_center=float(r.uniform(900, 1150)),
        y_size=float(r.uniform(40, 60)) * (-1 if on["ysize_neg"] else 1),
        z_size=float(r.uniform(40, 60)) * (-1 if on["zsize_neg"] else 1),
        distance=float(r.uniform(1.2e5, 2.5e5)),
        wavelength=float(r.uniform(0.15, 0.35)),
        omegasign=-1.0 if on["omegasign_neg"] else 1.0,
        tilt_x=float(r.uniform(-0.02, 0.02)) if on["tilt_x"] else 0.0,
        tilt_y=float(r.uniform(-0.02, 0.02)) if on["tilt_y"] else 0.0,
        tilt_z=float(r.uniform(-0.02, 0.02)) if on["tilt_z"] else 0.0,
        o11=float(fl[0]), o12=float(fl[1]), o21=float(fl[2]), o22=float(fl[3]),
        wedge=float(r.uniform(-5, 5)) if on["wedge"] else 0.0,
        chi=float(r.uniform(-5, 5)) if on["chi"] else 0.0,
        t_x=0.0, t_y=0.0, t_z=0.0,
    )
    return p


def dsmax_on_detector(p, npix=2048):
    """d* reached at the edge (not corner) of the detector"""
    half = 0.5 * npix * min(abs(p["y_size"]), abs(p["z_size"]))
    tth = np.arctan2(half, p["distance"])
    return 2 * np.sin(tth / 2) / p["wavelength"]


def simulate(p, grains, hkls, npix=2048, omega_range=(-180.0, 180.0)):
    """grains: list of (UB, t).  returns dict of arrays sc, fc, omega, gid, hkl(n,3), g(n,3)"""
    out = dict(sc=[], fc=[], omega=[], gid=[], hkl=[], g=[])
    for gid, (UB, t) in enumerate(grains):
        res = geom.simulate_grain(p, UB, hkls, t, omega_range)
        if len(res["idx"]) == 0:
            continue
        ok = (res["sc"] >= 0) & (res["sc"] <= npix) & (res["fc"] >= 0) & (res["fc"] <= npix)
        out["sc"].append(res["sc"][ok])
        out["fc"].append(res["fc"][ok])
        out["omega"].append(res["omega"][ok])
        out["gid"].append(np.full(int(ok.sum()), gid))
        out["hkl"].append(np.asarray(hkls)[res["idx"][ok]])
        out["g"].append(res["g"][ok])
    if not out["sc"]:
        return None
    for k in out:
        out[k] = np.concatenate(out[k])
    return out
