"""Independent diffraction geometry model (harness side, shares no code with
ImageD11).  Conventions as documented in ImageD11 and validated in the design
phase (DESIGN.md, C01/C09):

  pixel -> lab:  z=(sc-z_center)*z_size, y=(fc-y_center)*y_size
                 v=(0, o21*z+o22*y, o11*z+o12*y)
                 xyz = Rx(tilt_x).Ry(tilt_y).Rz(tilt_z).v + (distance,0,0)
  sample stack:  W=Ry'(wedge) [[cw,0,-sw],[0,1,0],[sw,0,cw]], C=Rx(chi),
                 Om=Rz(omega*omegasign);  grain origin = W.C.Om.t
  scattering:    d = xyz-origin; tth=atan2(|d_yz|,d_x); eta=atan2(-d_y,d_z)
                 k = d/(|d| lambda) - (1/lambda,0,0);  g = Om^T.C^T.W^T.k
"""
import numpy as np

F = np.longdouble


def Rx(a):
    c, s = np.cos(a), np.sin(a)
    return np.array([[1, 0, 0], [0, c, -s], [0, s, c]], dtype=F)


def Ry(a):
    c, s = np.cos(a), np.sin(a)
    return np.array([[c, 0, s], [0, 1, 0], [-s, 0, c]], dtype=F)


def Rz(a):
    c, s = np.cos(a), np.sin(a)
    return np.array([[c, -s, 0], [s, c, 0], [0, 0, 1]], dtype=F)


def Wmat(wedge_deg):
    w = np.radians(F(wedge_deg))
    c, s = np.cos(w), np.sin(w)
    return np.array([[c, 0, -s], [0, 1, 0], [s, 0, c]], dtype=F)


def Cmat(chi_deg):
    return Rx(np.radians(F(chi_deg)))


FLIPS = [(1, 0, 0, 1), (1, 0, 0, -1), (-1, 0, 0, 1), (-1, 0, 0, -1),
         (0, 1, 1, 0), (0, 1, -1, 0), (0, -1, 1, 0), (0, -1, -1, 0)]

PNAMES = ("y_center", "z_center", "y_size", "z_size", "distance", "wavelength",
          "omegasign", "tilt_x", "tilt_y", "tilt_z", "o11", "o12", "o21", "o22",
          "wedge", "chi", "t_x", "t_y", "t_z")


def det_tilt(p):
    return Rx(F(p["tilt_x"])) @ Ry(F(p["tilt_y"])) @ Rz(F(p["tilt_z"]))


def pixel_to_lab(p, sc, fc):
    """returns (n,3) longdouble lab coordinates"""
    sc = np.asarray(sc, dtype=F)
    fc = np.asarray(fc, dtype=F)
    z = (sc - F(p["z_center"])) * F(p["z_size"])
    y = (fc - F(p["y_center"])) * F(p["y_size"])
    v = np.zeros((len(sc), 3), dtype=F)
    v[:, 1] = F(p["o21"]) * z + F(p["o22"]) * y
    v[:, 2] = F(p["o11"]) * z + F(p["o12"]) * y
    R = det_tilt(p)
    xyz = v @ R.T
    xyz[:, 0] += F(p["distance"])
    return xyz


def omega_mats(om_deg):
    """(n,3,3) right handed rotations about z by om (degrees, already signed)"""
    om = np.radians(np.asarray(om_deg, dtype=F))
    c, s = np.cos(om), np.sin(om)
    M = np.zeros((len(om), 3, 3), dtype=F)
    M[:, 0, 0] = c
    M[:, 0, 1] = -s
    M[:, 1, 0] = s
    M[:, 1, 1] = c
    M[:, 2, 2] = 1
    return M


def grain_origins(p, omega, t):
    """W.C.Om.t for each peak, (n,3)"""
    Om = omega_mats(np.asarray(omega, dtype=F) * F(p["omegasign"]))
    WC = Wmat(p["wedge"]) @ Cmat(p["chi"])
    t = np.asarray(t, dtype=F)
    ot = np.einsum("nij,j->ni", Om, t)
    return ot @ WC.T


def lab_to_geometry(p, xyz, omega, t):
    """returns dict of tth, eta (deg), ds, k (n,3), g (n,3) in longdouble"""
    o = grain_origins(p, omega, t)
    d = np.asarray(xyz, dtype=F) - o
    r = np.sqrt((d * d).sum(axis=1))
    tth = np.degrees(np.arctan2(np.sqrt(d[:, 1] ** 2 + d[:, 2] ** 2), d[:, 0]))
    eta = np.degrees(np.arctan2(-d[:, 1], d[:, 2]))
    lam = F(p["wavelength"])
    k = d / r[:, None] / lam
    # k_x = (cos(tth) - 1)/lambda = -2 sin^2(theta)/lambda  (no cancellation)
    sinth2 = 0.5 * (d[:, 1] ** 2 + d[:, 2] ** 2) / (r * r + d[:, 0] * r)
    # valid where r + d_x != 0 (not exactly backscattering)
    k[:, 0] = -2 * sinth2 / lam
    WC = Wmat(p["wedge"]) @ Cmat(p["chi"])
    v = k @ WC          # = (WC)^T k
    Om = omega_mats(np.asarray(omega, dtype=F) * F(p["omegasign"]))
    g = np.einsum("nji,nj->ni", Om, v)   # Om^T v
    ds = np.sqrt((k * k).sum(axis=1))
    return dict(tth=tth, eta=eta, ds=ds, k=k, g=g, d=d)


def forward(p, sc, fc, omega, t=None):
    if t is None:
        t = (p.get("t_x", 0.0), p.get("t_y", 0.0), p.get("t_z", 0.0))
    xyz = pixel_to_lab(p, sc, fc)
    out = lab_to_geometry(p, xyz, omega, t)
    out["xyz"] = xyz
    return out


def angdiff(a, b):
    """difference of two angles in degrees modulo 360, in (-180,180]"""
    d = (np.asarray(a, dtype=F) - np.asarray(b, dtype=F)) % F(360)
    return np.where(d > 180, d - 360, d)


# ---------------------------------------------------------------------------
# Closed-form Laue solver + ray/detector intersection: independent forward
# simulator used by C08/C09 (peaks from known grains).

def simulate_grain(p, UB, hkls, t, omega_range=(-180.0, 180.0)):
    """For each hkl (n,3 ints) find the rotation angles at which it diffracts
    and the detector pixel hit.  Returns arrays (hkl index, sc, fc, omega_motor,
    g (3))  for both solutions where they exist.  All float64 output."""
    lam = float(p["wavelength"])
    UB = np.asarray(UB, float)
    hkls = np.asarray(hkls, float)
    g = hkls @ UB.T                       # (n,3) g in sample frame
    WC = np.asarray(Wmat(p["wedge"]) @ Cmat(p["chi"]), float)
    # k = WC . Rz(w) . g ; need k_x = -|g|^2 lam / 2
    # (WC Rz(w) g)_x = a.(Rz(w) g) with a = WC[0,:]
    a = WC[0]
    g2 = (g * g).sum(axis=1)
    rhs = -g2 * lam / 2.0 - a[2] * g[:, 2]
    # a0 (c gx - s gy) + a1 (s gx + c gy) = P c + Q s
    P = a[0] * g[:, 0] + a[1] * g[:, 1]
    Q = -a[0] * g[:, 1] + a[1] * g[:, 0]
    A = np.hypot(P, Q)
    out = []
    with np.errstate(invalid="ignore", divide="ignore"):
        x = rhs / A
    ok = (A > 0) & (np.abs(x) < 1.0)
    phi = np.arctan2(Q, P)
    tiltR = np.asarray(det_tilt(p), float)
    # detector plane: point = (distance,0,0) + tiltR @ (0, u1, u2)
    e1 = tiltR[:, 1]
    e2 = tiltR[:, 2]
    o11, o12, o21, o22 = [float(p[k]) for k in ("o11", "o12", "o21", "o22")]
    flip = np.array([[o11, o12], [o21, o22]], float)
    iflip = np.linalg.inv(flip)
    res = dict(idx=[], sc=[], fc=[], omega=[], g=[], tth=[], eta=[])
    for sgn in (+1, -1):
        with np.errstate(invalid="ignore"):
            w = phi + sgn * np.arccos(np.clip(x, -1, 1))
        for i in np.nonzero(ok)[0]:
            wi = w[i]
            c, s = np.cos(wi), np.sin(wi)
            Rz_ = np.array([[c, -s, 0], [s, c, 0], [0, 0, 1.0]])
            k = WC @ (Rz_ @ g[i])
            kout = k + np.array([1.0 / lam, 0, 0])
            origin = WC @ (Rz_ @ np.asarray(t, float))
            # origin + s*kout = dist*ex + u1*e1 + u2*e2
            M = np.array([kout, -e1, -e2]).T
            rhsv = np.array([float(p["distance"]), 0, 0]) - origin
            try:
                sol = np.linalg.solve(M, rhsv)
            except np.linalg.LinAlgError:
                continue
            if sol[0] <= 0:
                continue
            u1, u2 = sol[1], sol[2]
            # v = (0, o21 z + o22 y, o11 z + o12 y): [u2,u1] = flip @ [z,y]
            zy = iflip @ np.array([u2, u1])
            sc = zy[0] / float(p["z_size"]) + float(p["z_center"])
            fc = zy[1] / float(p["y_size"]) + float(p["y_center"])
            om_motor = np.degrees(wi) / float(p["omegasign"])
            # wrap motor angle into range
            lo, hi = omega_range
            om_motor = (om_motor - lo) % 360.0 + lo
            if om_motor > hi:
                continue
            res["idx"].append(i)
            res["sc"].append(sc)
            res["fc"].append(fc)
            res["omega"].append(om_motor)
            res["g"].append(g[i])
    for k_ in res:
        res[k_] = np.array(res[k_])
    return res
