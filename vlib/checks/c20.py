"""C20 - compiled kernels never touch memory outside their arguments.

Layers (all observe executions of code rebuilt from /repo/src):
  1. direct kernel calls on exactly-sized heap blocks under AddressSanitizer + UBSan (libk_asan.so, LD_PRELOAD libasan)
  2. the same calls under the per-access region monitor of vlib/csrc/vrt.c (instrumentation callbacks): catches far / non
     adjacent out-of-bounds accesses, writes to read-only arguments, reads of never-written bytes and never-written
     promised outputs; run sequentially and under the controlled scheduler with several thread counts
  3. definedness differential on the production-flag library (outputs pre-filled with two poisons)
  4. the ASan+UBSan build of the real f2py module driven through the cImageD11 wrappers and Python callers by re-running the
     workloads of the C06/C07/C11/C12/C13/C14 checks inside an ASan process (checks the .pyf dimension declarations)
"""
import glob, hashlib, json, os, re, shutil, subprocess, tempfile
from ..common import PY, VERIF, WORK, rng
from .. import build

TECHNIQUE = ("compiler sanitizers + instrumented access monitor: AddressSanitizer/UBSan on exactly-sized heap buffers (direct "
             "kernel calls and the ASan-built f2py module under Python workloads), per-access region/rights/shadow-written monitor "
             "through -fsanitize=thread callbacks (vrt.c) under a controlled scheduler, poison-differential for output definedness")
LEVEL_TEXT = ("Exploration: ~50 exported kernels driven through precondition-respecting generators at boundary sizes (2x2, 2xN, Nx2, "
              "nnz 0/1, corners, empty rows, >16384 provisional labels, 0/1/4095..4097/8191..8193 peaks) at 1/4/64 threads; every "
              "sanitizer report whose innermost in-library frame is in src/*.c, every monitor event and every undefined promised output is "
              "a violation. Report blocks are counted from log files, not exit codes.")
LEVEL_NOTE = ("ASan red zones miss intra-object and far overflows (covered by the access monitor on the same calls); the monitor sees "
              "only compiler-instrumented accesses (not libc internals except the wrapped memset/malloc family); preconditions of each "
              "kernel are those written in vlib/kspecs.py - ill-formed calls are out of scope.")

RULE = ("a case = one kernel call (kernel, argument shapes, thread count, layer); non-trivial = call with at least one non-empty "
        "buffer; distinct = (layer, call descriptor)")

ASAN_RERUN = ["C06", "C11", "C12", "C13", "C14", "C07"]


def classify_asan(report):
    """(kind, top in-kernel frame) from an ASan/UBSan report block"""
    kind = "unknown"
    m = re.search(r"ERROR: AddressSanitizer: ([a-zA-Z\-]+)", report)
    if m:
        kind = m.group(1)
    else:
        m = re.search(r"runtime error: ([^\n]+)", report)
        if m:
            kind = "ubsan:" + re.sub(r"[0-9x]+", "N", m.group(1))[:60]
    frame = "?"
    for fm in re.finditer(r"#\d+ 0x[0-9a-f]+ in (\S+) (\S+?):(\d+)", report):
        if "/src/" in fm.group(2) and "vlib/csrc" not in fm.group(2):
            frame = "%s@%s:%s" % (fm.group(1), os.path.basename(fm.group(2)), fm.group(3))
            break
    if frame == "?":
        m = re.search(r"(\S+\.c):(\d+):\d+: runtime error", report)
        if m:
            frame = "%s:%s" % (os.path.basename(m.group(1)), m.group(2))
    return kind, frame


def run_child(args, env, timeout):
    p = subprocess.run(args, env=env, cwd=VERIF, stdout=subprocess.PIPE, stderr=subprocess.PIPE, timeout=timeout)
    return p


def layer_kernels(run, mode, cfg, tmp):
    env = dict(os.environ)
    env["PYTHONPATH"] = VERIF
    env.pop("LD_PRELOAD", None)
    if mode == "asan":
        env["LD_PRELOAD"] = build.gcc_file("libasan.so")
        cfg["log_path"] = os.path.join(tmp, "asan_k")
        env["ASAN_OPTIONS"] = "detect_leaks=0:halt_on_error=0:log_path=%s:print_summary=1" % cfg["log_path"]
        env["UBSAN_OPTIONS"] = "print_stacktrace=1:halt_on_error=0:log_path=%s" % cfg["log_path"]
    p = run_child([PY, "-m", "vlib.kworker", json.dumps(cfg)], env, 3000)
    if p.returncode != 0:
        # a crash of the kernel driver is itself a finding about the code under test
        run.violation("crash:%s" % mode, "kernel driver (%s layer) died with rc=%d: %s"
                      % (mode, p.returncode, p.stderr.decode(errors="replace")[-600:]), dict(mode=mode))
        return
    try:
        out = json.loads(p.stdout.decode().strip().splitlines()[-1])
    except Exception as e:
        run.inconc("cannot parse output of %s layer: %s" % (mode, e))
        return
    for k, v in out["counters"].items():
        run.count(k, v)
    run.extra.setdefault("kernels_driven", {})[mode] = out["kernels"]
    run.extra.setdefault("call_samples", {})[mode] = out["samples"]
    if out.get("schedule_dependent_observed"):
        # thread-schedule dependence of kernel *results* is not part of C20 (it is decided for the kernels that C01, C07,
        # C11 and C13 speak about, in those checks); listed here as an observation
        run.extra["schedule_dependent_results_observed"] = out["schedule_dependent_observed"]
    for name, n in out["kernels"].items():
        run.case((mode, name), nontrivial=True)
    run.evaluations += sum(out["kernels"].values()) - len(out["kernels"])
    for vio in out["violations"]:
        if vio["key"] == "pending":
            kind, frame = classify_asan(vio["report"])
            key = "asan:%s:%s" % (kind, frame.split("@")[0] if "@" in frame else frame)
            run.violation(key, "%s at %s during %s" % (kind, frame, vio["what"]), dict(vio["replay"], report=vio["report"][:1500]))
        else:
            run.violation(vio["key"], vio["what"], vio["replay"])


def layer_asan_module(run, tmp, tier):
    """re-run python-level workloads inside an ASan process with the ASan-built f2py module"""
    try:
        env0 = build.child_env("asan")
    except Exception as e:
        run.inconc("ASan module build failed: %s" % e)
        return
    for prop in ASAN_RERUN:
        env = dict(env0)
        lp = os.path.join(tmp, "asan_mod_%s" % prop)
        env["ASAN_OPTIONS"] = "detect_leaks=0:halt_on_error=0:log_path=%s" % lp
        env["UBSAN_OPTIONS"] = "print_stacktrace=1:halt_on_error=0:log_path=%s" % lp
        env["VERIF_TIER"] = "quick"
        env["VERIF_NO_EVIDENCE"] = "1"
        env["VERIF_ASAN_RERUN"] = "1"
        env["VERIF_SEED"] = str(run.seed)
        env.pop("VERIF_PROGRESS", None)
        try:
            p = run_child([PY, "-m", "vlib.runner", prop], env, 2400)
        except subprocess.TimeoutExpired:
            run.inconc("ASan re-run of %s timed out" % prop)
            continue
        run.count("asan_module_workloads")
        m = re.search(r"evaluations=(\d+)", p.stdout.decode(errors="replace"))
        if m:
            run.count("asan_module_cases", int(m.group(1)))
        if p.returncode not in (0, 1, 2):
            run.violation("crash:asan-module:%s" % prop, "workload of %s died inside the ASan process rc=%d: %s"
                          % (prop, p.returncode, p.stderr.decode(errors="replace")[-500:]), dict(workload=prop))
        nrep = 0
        for f in glob.glob(lp + "*"):
            txt = open(f, errors="replace").read()
            blocks = re.split(r"(?==+\d+==ERROR: AddressSanitizer)|(?=\S+:\d+:\d+: runtime error)", txt)
            for b in blocks:
                if "AddressSanitizer" not in b and "runtime error" not in b:
                    continue
                kind, frame = classify_asan(b)
                if frame == "?" and "_cImageD11" not in b:
                    continue      # not in the code under test (numpy/python internals)
                nrep += 1
                run.violation("asan-module:%s:%s" % (kind, frame.split("@")[0] if "@" in frame else frame),
                              "%s at %s while running the %s workload on the ASan f2py module" % (kind, frame, prop),
                              dict(workload=prop, report=b[:1500]))
        run.count("asan_module_reports", nrep)
        run.case(("asan-module", prop), nontrivial=True, sample=dict(layer="asan-module", workload=prop))


def check(run, replay=None):
    os.makedirs(os.path.join(WORK, "tmp"), exist_ok=True)
    tmp = tempfile.mkdtemp(prefix="c20_", dir=os.path.join(WORK, "tmp"))
    try:
        quick = run.tier == "quick"
        rounds = 12 if quick else 120
        layer_kernels(run, "asan", dict(mode="asan", seed=run.seed, rounds=rounds, threads=[1, 4] if quick else [1, 4, 64]), tmp)
        layer_kernels(run, "vrt", dict(mode="vrt", seed=run.seed, rounds=rounds, directed_runs=1 if quick else 3,
                                       threads=[[1, 0], [4, 1], [3, 4]] if quick else [[1, 0], [4, 1], [3, 4], [64, 1], [8, 4]]), tmp)
        # one thread: OpenMP float reductions combine in completion order, so multi-threaded runs differ in the last bit
        # from run to run for reasons that have nothing to do with the buffer content (DESIGN.md Corrections)
        layer_kernels(run, "poison", dict(mode="poison", seed=run.seed, rounds=rounds, threads=[1]), tmp)
        if replay is None:
            layer_asan_module(run, tmp, run.tier)
            # ThreadSanitizer inventory of the OpenMP kernels (pthread GOMP shim): evidence, not a verdict - the property
            # speaks about address and undefined-behaviour sanitizers; schedule-dependence of results is decided in C01/C06/
            # C07/C11/C13
            inv = {}
            for kern in ("score_and_assign", "connectedpixels", "compute_gv", "localmaxlabel"):
                env = dict(os.environ)
                env["PYTHONPATH"] = VERIF
                env.pop("LD_PRELOAD", None)
                try:
                    p = run_child([PY, "-m", "vlib.tsan_inventory", kern, "3" if quick else "30", str(run.seed)], env, 1200)
                    inv[kern] = json.loads(p.stdout.decode().strip().splitlines()[-1])
                    run.count("tsan_inventory_runs", inv[kern].get("runs", 0))
                    run.count("tsan_inventory_reports", inv[kern].get("reports", 0))
                except Exception as e:
                    inv[kern] = "failed: %s" % e
            run.extra["tsan_race_inventory"] = inv
        run.require_counter("asan_calls", 200)
        run.require_counter("vrt_accesses_checked", 10000)
        run.require_counter("outputs_checked_for_definedness", 100)
    finally:
        shutil.rmtree(tmp, ignore_errors=True)
