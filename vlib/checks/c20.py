"""C20 - compiled kernels never touch memory outside their arguments.

Layers (all observe executions of code rebuilt from /repo/src):
  1. direct kernel calls on exactly-sized heap blocks under AddressSanitizer + UBSan (libk_asan.so, LD_PRELOAD libasan)
  2. the same calls under the per-access region monitor of vlib/csrc/vrt.c (instrumentation callbacks): catches far / non
     adjacent out-of-bounds accesses, writes to read-only arguments, reads of never-written bytes and never-written
     promised outputs; run sequentially and under the controlled scheduler with several thread counts
  3. definedness differential on the production-flag library (outputs pre-filled with two poisons)
  4. the ASan+UBSan build of the real f2py module driven through the cImageD11 wrappers and Python callers by re-running the
     workloads of the C06/C07/C11/C12/C13/C14 checks inside an ASan process (checks the .pyf dimension declarations)
  5. the same generated calls as layer 1 issued through every f2py wrapper of the ASan+UBSan module, on numpy arrays that live
     in exactly-sized malloc blocks: the hidden dimension arguments are then computed by the wrapper from the .pyf
     declarations, so a declaration that hands the kernel a larger extent than the array has runs into a red zone

Input classes that must have been driven (layers 1 and 2 each; a missing class makes the verdict inconclusive): see REQUIRED.
"""
import glob, hashlib, json, os, re, shutil, subprocess, tempfile, time
from ..common import PY, VERIF, WORK, rng
from .. import build

TECHNIQUE = ("compiler sanitizers + instrumented access monitor: AddressSanitizer/UBSan on exactly-sized heap buffers (direct "
             "kernel calls, the same generated calls through every f2py wrapper of the ASan-built module, and that module under "
             "the Python workloads of six other checks), per-access region/rights/shadow-written monitor "
             "through -fsanitize=thread callbacks (vrt.c) under a controlled scheduler, poison-differential for output definedness")
LEVEL_TEXT = ("Exploration: ~55 exported kernels driven through precondition-respecting generators at boundary sizes (2x2, 2xN, Nx2, "
              "2x700, 1367x3, nnz 0/1, corners, empty rows, row/column indices up to 2047/4095/65534, >16384 provisional labels in "
              "the dense (4- and 8-connected) and the sparse labellers in every tier, 0/1/4095..4097/8191..8193 peaks, zero-size calls, "
              "label 0 pixels, out-of-range histogram values and boundscheck=1 indices, verbose=1, recompute=0) at 1/4/64 threads; "
              "(connectivity, content) and the other case dimensions are stratified with coprime periods or drawn from the case rng; "
              "every sanitizer report whose innermost in-library frame is in src/*.c, every monitor event and every undefined promised "
              "output is a violation. Report blocks are counted from log files, not exit codes; blocks without a frame in the code "
              "under test are counted and listed, not decided. Required input classes are enforced by counters.")
LEVEL_NOTE = ("ASan red zones miss intra-object and far overflows (covered by the access monitor on the same calls); the monitor sees "
              "only compiler-instrumented accesses (not libc internals except the wrapped memset/malloc family); preconditions of each "
              "kernel are those written in vlib/kspecs.py - ill-formed calls are out of scope (e.g. array_histogram with high == low, "
              "undersized dimension(*) arrays, unsorted sparse patterns).  f2py refuses zero-length arrays for most wrappers, so "
              "zero-size calls are decided by the direct layers only.  The AVX512 variant of tosparse_u16 is not compiled on this "
              "build and is not exercised.  The poison differential runs at one thread (float reductions are order dependent).")

RULE = ("a case = one kernel call (kernel, argument shapes, thread count, layer); non-trivial = call with at least one non-empty "
        "buffer; distinct = (layer, call descriptor)")

ASAN_RERUN = ["C06", "C11", "C12", "C13", "C14", "C07"]

# input classes (regular expressions over the class tags of vlib/kspecs.py) that the asan and the vrt layer must each have
# driven at least once; every one of them is stratified on the round number, so 12 rounds always contain it
REQUIRED = ["cp:capacity:con4", "cp:capacity:con8", "sparse:capacity", "sparse:bigcoord", "blob2D:label0", "histogram:outofrange",
            "put_incr:outofrange", "score_gvec_z:recompute0", "mask_to_coo:nnz0", "bloboverlaps:nopeaks", "blob_moments:np0",
            "coverlaps:npk0", "lml:.*:thin", "lml:(plateau|constant)", "closest_vec:n0", "closest:.*unsorted", "splat:rotated",
            "meanvar:.*verbose", "cp:.*verbose"]
# every (content, connectivity) combination of the dense labeller: the first/last-pixel and row-above branches are
# asymmetric in both
REQUIRED += ["cp:%s:con%d$" % (kind, c) for kind in ("bernoulli", "zeros", "full", "checker", "border") for c in (4, 8)]
# label-set growth at each place a label is made
REQUIRED += ["cp:growth:%s" % site for site in ("col0", "lastcol", "middle", "firstrow")]
REQUIRED += ["mask_to_coo:nnz\\+:negative"]
REQUIRED += ["blob2D:.*:coord>46340"]


def kernel_sources():
    """file names of the code under test: /repo/src/*.c plus the wrapper file f2py generates from the .pyf"""
    from ..common import REPO
    return set(os.path.basename(f) for f in glob.glob(os.path.join(REPO, "src", "*.c"))) | {"_cImageD11module.c"}


def preload_asan():
    """LD_PRELOAD value for a Python process under the ASan runtime.  libstdc++ must be loaded together with libasan:
    otherwise the first C++ exception thrown by any extension module (matplotlib's ft2font does that on import) hits
    "CHECK failed: real___cxa_throw != 0" inside the ASan interceptor and the whole workload dies with exit status 1"""
    return build.gcc_file("libasan.so") + " " + build.gcc_file("libstdc++.so.6")


def classify_asan(report):
    """(kind, top in-kernel frame) from an ASan/UBSan report block"""
    srcs = kernel_sources()
    kind = "unknown"
    m = re.search(r"ERROR: AddressSanitizer: ([a-zA-Z\-]+)", report)
    if m:
        kind = m.group(1)
    else:
        m = re.search(r"runtime error: ([^\n]+)", report)
        if m:
            kind = "ubsan:" + re.sub(r"[0-9x]+", "N", m.group(1))[:60]
    frame = "?"
    for fm in re.finditer(r"#\d+ 0x[0-9a-f]+ in (\S+) (\S+?):(\d+)", report):
        # a frame of the code under test = the file is one of its sources (the old test, "/src/" in the path, also
        # matched the sanitizer runtime's own frames .../src/libsanitizer/asan/asan_rtl.cpp)
        if os.path.basename(fm.group(2)) in srcs and "vlib/csrc" not in fm.group(2) and "libsanitizer" not in fm.group(2):
            frame = "%s@%s:%s" % (fm.group(1), os.path.basename(fm.group(2)), fm.group(3))
            break
    if frame == "?":
        m = re.search(r"(\S+\.c):(\d+):\d+: runtime error", report)
        if m:
            frame = "%s:%s" % (os.path.basename(m.group(1)), m.group(2))
    return kind, frame


def run_child(args, env, timeout):
    p = subprocess.run(args, env=env, cwd=VERIF, stdout=subprocess.PIPE, stderr=subprocess.PIPE, timeout=timeout)
    return p


def layer_kernels(run, mode, cfg, tmp):
    t0 = time.time()
    try:
        _layer_kernels(run, mode, cfg, tmp)
    finally:
        run.extra.setdefault("layer_seconds", {})[mode] = round(time.time() - t0, 1)


def _layer_kernels(run, mode, cfg, tmp):
    env = dict(os.environ)
    env["PYTHONPATH"] = VERIF
    env.pop("LD_PRELOAD", None)
    env["OMP_WAIT_POLICY"] = "passive"      # 64-thread teams on a shared machine: do not spin
    if mode == "f2py":
        try:
            env = build.child_env("asan")
        except Exception as e:
            run.inconc("ASan module build failed: %s" % e)
            return
        env["OMP_WAIT_POLICY"] = "passive"
        env.pop("VERIF_PROGRESS", None)
    if mode in ("asan", "f2py"):
        env["LD_PRELOAD"] = preload_asan()
        cfg["log_path"] = os.path.join(tmp, "asan_k" if mode == "asan" else "asan_w")
        env["ASAN_OPTIONS"] = "detect_leaks=0:halt_on_error=0:log_path=%s:print_summary=1" % cfg["log_path"]
        env["UBSAN_OPTIONS"] = "print_stacktrace=1:halt_on_error=0:log_path=%s" % cfg["log_path"]
    p = run_child([PY, "-m", "vlib.kworker", json.dumps(cfg)], env, 3000)
    if p.returncode != 0:
        # a crash of the kernel driver is itself a finding about the code under test
        key, what, rep = "crash:%s" % mode, "", ""
        if cfg.get("log_path"):
            # the sanitizer wrote its report before the process went down: say where it was
            for f in sorted(glob.glob(cfg["log_path"] + "*")):
                rep += open(f, errors="replace").read()
            if rep:
                kind, frame = classify_asan(rep)
                key = "crash:%s:%s:%s" % (mode, kind, frame.split("@")[0] if "@" in frame else frame)
                what = " [sanitizer log: %s at %s]" % (kind, frame)
        run.violation(key, "kernel driver (%s layer) died with rc=%d%s: %s"
                      % (mode, p.returncode, what, p.stderr.decode(errors="replace")[-600:]), dict(mode=mode, report=rep[:3000]))
        return
    try:
        out = json.loads(p.stdout.decode().strip().splitlines()[-1])
    except Exception as e:
        run.inconc("cannot parse output of %s layer: %s" % (mode, e))
        return
    if out.get("error"):
        run.inconc("%s layer: %s" % (mode, out["error"]))
        return
    classes = {}
    for k, v in out["counters"].items():
        if k.startswith("cls:"):
            classes[k.split(":", 2)[2]] = v          # per-class call counts go to the evidence file as one table
        else:
            run.count(k, v)
    run.extra.setdefault("input_classes", {})[mode] = classes
    if mode in ("asan", "vrt"):
        for pat in REQUIRED:
            n = sum(v for k, v in classes.items() if re.match(pat, k))
            run.count("classes_required_seen_%s" % mode, 1 if n else 0)
            if not n:
                run.inconc("%s layer never drove the required input class %r" % (mode, pat))
    if mode == "f2py":
        missing = sorted(set(out["kernels"]) - set(out.get("f2py_accepted", {})))
        if missing:
            run.inconc("f2py layer: the wrappers of %s accepted none of the generated calls" % ", ".join(missing))
        run.extra["f2py_wrapper_refusals"] = out.get("f2py_refused", {})
    run.extra.setdefault("kernels_driven", {})[mode] = out["kernels"]
    run.extra.setdefault("call_samples", {})[mode] = out["samples"]
    if out.get("schedule_dependent_observed"):
        # thread-schedule dependence of kernel *results* is not part of C20 (it is decided for the kernels that C01, C07,
        # C11 and C13 speak about, in those checks); listed here as an observation
        run.extra["schedule_dependent_results_observed"] = out["schedule_dependent_observed"]
    for name, n in out["kernels"].items():
        run.case((mode, name), nontrivial=True)
    run.evaluations += sum(out["kernels"].values()) - len(out["kernels"])
    for vio in out["violations"]:
        if vio["key"] == "pending":
            kind, frame = classify_asan(vio["report"])
            if mode == "f2py" and frame == "?" and "_cImageD11" not in vio["report"]:
                # same rule as the workload re-runs: a block without any frame in the extension module is numpy/python
                # business; counted and listed, not decided
                run.count("asan_module_reports_without_kernel_frame")
                lst = run.extra.setdefault("asan_module_reports_without_kernel_frame", [])
                if len(lst) < 5:
                    lst.append(dict(workload="f2py wrappers", head=vio["report"][:400]))
                continue
            key = "%s:%s:%s" % ("asan-f2py" if mode == "f2py" else "asan", kind, frame.split("@")[0] if "@" in frame else frame)
            run.violation(key, "%s at %s during %s" % (kind, frame, vio["what"]), dict(vio["replay"], report=vio["report"][:1500]))
        else:
            run.violation(vio["key"], vio["what"], vio["replay"])


def layer_asan_module(run, tmp, tier):
    """re-run python-level workloads inside an ASan process with the ASan-built f2py module"""
    try:
        env0 = build.child_env("asan")
    except Exception as e:
        run.inconc("ASan module build failed: %s" % e)
        return
    def rerun(prop):
        t0 = time.time()
        env = dict(env0)
        env["LD_PRELOAD"] = preload_asan()
        lp = os.path.join(tmp, "asan_mod_%s" % prop)
        env["ASAN_OPTIONS"] = "detect_leaks=0:halt_on_error=0:log_path=%s" % lp
        env["UBSAN_OPTIONS"] = "print_stacktrace=1:halt_on_error=0:log_path=%s" % lp
        env["VERIF_TIER"] = "quick"
        env["VERIF_NO_EVIDENCE"] = "1"
        env["VERIF_ASAN_RERUN"] = "1"
        env["VERIF_SEED"] = str(run.seed)
        env.pop("VERIF_PROGRESS", None)
        try:
            p = run_child([PY, "-m", "vlib.runner", prop], env, 2400)
        except subprocess.TimeoutExpired:
            p = None
        return prop, p, lp, round(time.time() - t0, 1)

    # the workloads are independent processes with their own log files: four at a time (the results are merged into
    # the Run object below, in the fixed order of ASAN_RERUN)
    from concurrent.futures import ThreadPoolExecutor
    with ThreadPoolExecutor(max_workers=4) as ex:
        results = list(ex.map(rerun, ASAN_RERUN))
    for prop, p, lp, secs in results:
        run.extra.setdefault("layer_seconds", {})["asan-module:" + prop] = secs
        if p is None:
            run.inconc("ASan re-run of %s timed out" % prop)
            continue
        run.count("asan_module_workloads")
        m = re.search(r"evaluations=(\d+)", p.stdout.decode(errors="replace"))
        if m:
            run.count("asan_module_cases", int(m.group(1)))
        elif p.returncode in (0, 1, 2):
            # no summary line: the workload ended before its runner finished (the sanitizer runtime exits with status 1
            # on its own internal errors, the C code calls exit(0) in boundscheck): this layer saw less than it claims
            run.inconc("ASan re-run of %s ended without a summary line (rc=%d): %s"
                       % (prop, p.returncode, p.stderr.decode(errors="replace")[-300:]))
        if p.returncode not in (0, 1, 2):
            run.violation("crash:asan-module:%s" % prop, "workload of %s died inside the ASan process rc=%d: %s"
                          % (prop, p.returncode, p.stderr.decode(errors="replace")[-500:]), dict(workload=prop))
        nrep = 0
        # gcc's UBSan runtime prints to stderr whatever log_path says: the child's stderr is read like a log file
        texts = [open(f, errors="replace").read() for f in glob.glob(lp + "*")] + [p.stderr.decode(errors="replace")]
        for txt in texts:
            blocks = re.split(r"(?==+\d+==ERROR: AddressSanitizer)|(?=\S+:\d+:\d+: runtime error)", txt)
            for b in blocks:
                if "AddressSanitizer" not in b and "runtime error" not in b:
                    continue
                kind, frame = classify_asan(b)
                if frame == "?" and "_cImageD11" not in b:
                    # no frame of the block lies in the code under test (numpy/python internals): not decided here, but
                    # counted and shown so that a report without usable frames cannot disappear unnoticed
                    run.count("asan_module_reports_without_kernel_frame")
                    lst = run.extra.setdefault("asan_module_reports_without_kernel_frame", [])
                    if len(lst) < 5:
                        lst.append(dict(workload=prop, head=b[:400]))
                    continue
                nrep += 1
                run.violation("asan-module:%s:%s" % (kind, frame.split("@")[0] if "@" in frame else frame),
                              "%s at %s while running the %s workload on the ASan f2py module" % (kind, frame, prop),
                              dict(workload=prop, report=b[:1500]))
        run.count("asan_module_reports", nrep)
        run.case(("asan-module", prop), nontrivial=True, sample=dict(layer="asan-module", workload=prop))


def check(run, replay=None):
    os.makedirs(os.path.join(WORK, "tmp"), exist_ok=True)
    tmp = tempfile.mkdtemp(prefix="c20_", dir=os.path.join(WORK, "tmp"))
    try:
        quick = run.tier == "quick"
        rounds = 12 if quick else 120
        # VERIF_C20_LAYERS=asan,f2py,vrt,poison,module,tsan restricts the run to some layers (used to validate the oracles
        # against mutants quickly); a restricted run can report violations but never "held"
        want = set(x for x in os.environ.get("VERIF_C20_LAYERS", "").split(",") if x)
        on = lambda name: not want or name in want
        # the sanitizer layers are cheap (no per-access callback): twice the rounds, and 64 threads (threads >> rows, the
        # per-thread lo/hi split of localmaxlabel) also in the quick tier
        if on("asan"):
            layer_kernels(run, "asan", dict(mode="asan", seed=run.seed, rounds=2 * rounds, threads=[1, 4, 64]), tmp)
        if on("f2py"):
            layer_kernels(run, "f2py", dict(mode="f2py", seed=run.seed, rounds=2 * rounds, threads=[1, 4]), tmp)
        if on("vrt"):
            layer_kernels(run, "vrt", dict(mode="vrt", seed=run.seed, rounds=rounds, directed_runs=1 if quick else 3,
                                           threads=[[1, 0], [4, 1], [3, 4]] if quick else [[1, 0], [4, 1], [3, 4], [64, 1], [8, 4]]), tmp)
        # one thread: OpenMP float reductions combine in completion order, so multi-threaded runs differ in the last bit
        # from run to run for reasons that have nothing to do with the buffer content (DESIGN.md Corrections)
        if on("poison"):
            layer_kernels(run, "poison", dict(mode="poison", seed=run.seed, rounds=rounds, threads=[1]), tmp)
        if replay is None and on("module"):
            layer_asan_module(run, tmp, run.tier)
        if replay is None and on("tsan"):
            # ThreadSanitizer inventory of the OpenMP kernels (pthread GOMP shim): evidence, not a verdict - the property
            # speaks about address and undefined-behaviour sanitizers; schedule-dependence of results is decided in C01/C06/
            # C07/C11/C13
            inv = {}
            t0 = time.time()
            for kern in ("score_and_assign", "connectedpixels", "compute_gv", "localmaxlabel"):
                env = dict(os.environ)
                env["PYTHONPATH"] = VERIF
                env.pop("LD_PRELOAD", None)
                try:
                    p = run_child([PY, "-m", "vlib.tsan_inventory", kern, "3" if quick else "30", str(run.seed)], env, 1200)
                    inv[kern] = json.loads(p.stdout.decode().strip().splitlines()[-1])
                    run.count("tsan_inventory_runs", inv[kern].get("runs", 0))
                    run.count("tsan_inventory_reports", inv[kern].get("reports", 0))
                except Exception as e:
                    inv[kern] = "failed: %s" % e
            run.extra["tsan_race_inventory"] = inv
            run.extra.setdefault("layer_seconds", {})["tsan-inventory"] = round(time.time() - t0, 1)
        if want:
            run.inconc("partial run: VERIF_C20_LAYERS=%s" % ",".join(sorted(want)))
        run.require_counter("asan_calls", 200)
        run.require_counter("f2py_calls", 500)
        run.require_counter("f2py_hidden_dimension_arguments", 500)
        run.require_counter("vrt_accesses_checked", 10000)
        run.require_counter("outputs_checked_for_definedness", 100)
    finally:
        shutil.rmtree(tmp, ignore_errors=True)


# workloads added in seeding rounds 7-10 (DESIGN.md sections 13.9-13.12)
LEVEL_TEXT = LEVEL_TEXT + " Later additions: gcc's UBSan reports are read from stderr as well as from the sanitizer log; mask_to_coo with negative mask bytes; blob2D coordinates above 46340 (required class)."
