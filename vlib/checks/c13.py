"""C13 - local-maximum labelling follows steepest ascent for every thread count.

Oracle: harness steepest-ascent reference on tie-free images (rank-transformed
so that all pixel values are distinct).  Verdict = bit equality of the label
image with the reference for every thread count / schedule / buffer content.
Schedules: (1) instrumented controlled scheduler (kernel library built with
-fsanitize=thread callbacks served by vlib/csrc/vrt.c): deterministic, seeded
interleavings at memory-access granularity; (2) real libgomp stress at 1..64
threads; (3) ThreadSanitizer race inventory through a pthread GOMP shim
(evidence, not a verdict).

Statement vs numbering: the statement fixes the partition and the number of labels, not how the maxima are numbered.
The libgomp / sparse routes therefore compare the single-thread, zero-buffer result with the reference as a partition
(plus count and "labels are exactly n distinct positive values"), and every other thread count / buffer content / repeat
bit-for-bit with that result ("identical for any number of threads and any previous content").  The controlled
scheduler child (vlib/sched_c13.py) still compares with the raster-numbered reference bit-for-bit, which the pinned
implementation satisfies.

Case dimensions (shape, value map, thread counts, sparse density, interior/border pattern, coordinate offset) are drawn
from the case rng; the image class is stratified by the index so that every class appears.
"""
import os, subprocess, sys, json
import numpy as np
from ..common import rng, PY, VERIF, WORK
from .. import build

TECHNIQUE = ("runtime reference-model monitor (steepest-ascent reference; partition + count equality for the reference run, bit "
             "equality across thread counts, buffer contents and repeats) under three schedule sources: "
             "deterministic controlled scheduler driven by compiler-inserted memory-access callbacks, real libgomp stress at "
             "1..64 threads, ThreadSanitizer race inventory via a pthread GOMP shim; buffer-poison differential; sparse variant "
             "vs reference and vs dense partition; SparseScan.lmlabel (workspaces reused across frames, smoothed and raw signal) "
             "with an exact reference for sparse_smooth")
LEVEL_TEXT = ("Exploration: images without equal values in any 3x3 window (3x3..160x160, 512x384 / 3x5000 in the thorough tier, 3xN, "
              "Nx3, smooth single/multi-peak fields with ascent paths crossing thread-block boundaries, noisy fields with many maxima; "
              "values as ranks, shifted to negative/zero, scaled to non-integers in [-1e4,1e4], scaled by 2^100 of both signs, and with "
              "values repeated outside every 3x3 window) are labelled with thread counts 1,2,3,4,8,16,64 plus two drawn from 1..64 per "
              "image; output/work buffers pre-filled with poisons incl. the 'is a maximum' code 5. Sparse patterns with gaps, on and off "
              "the border, coordinates up to 65535, every class also compared with the dense variant; multi-frame sparse scans through "
              "SparseScan.lmlabel. The controlled scheduler replays exactly from (image, threads, seed); libgomp runs are repeated. "
              "Distinct schedules (hash of the switch sequence) and racing access pairs are reported in the evidence.")
LEVEL_NOTE = ("The controlled scheduler explores sequentially-consistent interleavings only; libgomp stress shows what this x86 host "
              "produces; TSan output is an inventory and not a verdict. Images are tie-free by construction (verified before use). "
              "Sparse images whose values are all below -1e10 (the pinned kernel's finite MV_LOW sentinel, repaired in /repo) "
              "are part of the value maps. With "
              "smooth=True the labelling oracle takes the smoothed signal produced by the code (itself checked against an exact "
              "model) as the image and skips frames where smoothing created equal neighbours.")

RULE = ("a case = (image class, shape, thread count, schedule source, seed); non-trivial = image has >= 2 local maxima or an ascent "
        "path longer than a thread block; distinct = (class, shape, hash of image, threads, source, seed)")

THREADS = (1, 2, 3, 4, 8, 16, 64)


def tiefree(r, field):
    """rank transform: distinct float32 values with the ordering of field (random tie-break)"""
    f = field.ravel() + r.random(field.size) * 1e-9 * (np.abs(field).max() + 1)
    order = np.argsort(f, kind="stable")
    rank = np.empty(field.size, np.float32)
    rank[order] = np.arange(1, field.size + 1, dtype=np.float32)
    img = rank.reshape(field.shape)
    assert len(np.unique(img)) == img.size
    return img


def gen_image(r, shape, cls):
    ns, nf = shape
    ii, jj = np.indices(shape).astype(float)
    if cls == "single-peak":
        ci, cj = r.uniform(1, ns - 2), r.uniform(1, nf - 2)
        f = -((ii - ci) ** 2 + (jj - cj) ** 2)
    elif cls == "ridge":
        # long ascent along a diagonal ridge
        f = -(ii - jj * ns / max(nf, 1)) ** 2 * 50 + ii + jj
    elif cls == "multi-peak":
        f = np.zeros(shape)
        for _ in range(int(r.integers(2, 9))):
            ci, cj, w = r.uniform(0, ns), r.uniform(0, nf), r.uniform(1.5, max(2.0, min(ns, nf) / 3))
            f += r.uniform(0.5, 2) * np.exp(-((ii - ci) ** 2 + (jj - cj) ** 2) / (2 * w * w))
    elif cls == "noise":
        f = r.random(shape)
    elif cls == "spiral-ramp":
        # value increases along a raster snake: paths as long as the image
        f = ii * nf + np.where(ii.astype(int) % 2 == 0, jj, nf - 1 - jj)
    elif cls == "border-peak":
        f = ii + jj        # maximum on the border: everything drains to label 0
    elif cls == "serpentine":
        # one ridge that snakes through the frame (every second row, joined at alternating ends) over low valleys: the
        # ascent path is about half the number of pixels long - much longer than height + width
        f = r.random(shape) * 0.5
        t = 1.0
        rows = list(range(1, ns - 1, 2))
        for k, i in enumerate(rows):
            cols = list(range(1, nf - 1)) if k % 2 == 0 else list(range(nf - 2, 0, -1))
            for j in cols:
                f[i, j] = t
                t += 1.0
            if k + 1 < len(rows):
                f[i + 1, cols[-1]] = t
                t += 1.0
    else:
        raise ValueError(cls)
    return tiefree(r, f)


CLASSES = ["single-peak", "multi-peak", "noise", "ridge", "spiral-ramp", "multi-peak", "border-peak", "noise", "serpentine"]
OFF = [(-1, -1), (0, -1), (1, -1), (-1, 0), (0, 0), (1, 0), (-1, 1), (0, 1), (1, 1)]

# value maps applied to the tie-free rank image (ranks 1..N): the statement is about any image without equal-valued
# neighbours, not about positive integers.  "huge-" puts every value below -1e10 (sparse MV_LOW sentinel).
VMAPS = ["rank", "centered", "negative", "scaled", "huge+", "huge-", "repeat"]
SMALL_VMAPS = ("rank", "centered", "negative", "scaled", "repeat")        # |value| < 2^23: a lower background fits in float32


def window_tie_free(img, present=None):
    """no two (present) pixels that share a 3x3 window (Chebyshev distance <= 2) are equal: then 'the largest of the
    eight neighbours' is unique for every pixel.  Returns a bool image of pixels that tie with an earlier pixel."""
    ns, nf = img.shape
    bad = np.zeros(img.shape, bool)
    pres = np.ones(img.shape, bool) if present is None else present
    for di in range(0, 3):
        for dj in range(-2, 3):
            if di == 0 and dj <= 0:
                continue
            a = (slice(0, ns - di), slice(max(0, -dj), nf - max(0, dj)))
            b = (slice(di, ns), slice(max(0, dj), nf - max(0, -dj)))
            if img[a].size:
                bad[b] |= (img[a] == img[b]) & pres[a] & pres[b]
    return bad


def apply_vmap(r, rank, vmap):
    """rank: float32 image of distinct ranks 1..N.  Returns a float32 image without equal values in any 3x3 window"""
    N = rank.size
    rk = rank.astype(np.float64)
    if vmap == "rank":
        img = rk
    elif vmap == "centered":
        img = rk - (N + 1) // 2                       # negative, zero and positive
    elif vmap == "negative":
        img = rk - N - 1                              # all negative, maximum -1
    elif vmap == "scaled":
        img = (rk - N / 2.0) * (2.0e4 / N)            # non-integers in [-1e4, 1e4]
    elif vmap == "huge+":
        img = rk * 2.0 ** 100
    elif vmap == "huge-":
        img = (rk - N - 1) * 2.0 ** 100               # every value <= -2^100
    elif vmap == "repeat":
        # globally repeated values, never inside one 3x3 window: ranks modulo M, pixels that tie with an earlier pixel
        # of a window get a fresh value
        M = max(7, N // 3)
        img = np.mod(rk, M)
        bad = window_tie_free(img)
        img[bad] = M + 1 + np.arange(int(bad.sum()))
    else:
        raise ValueError(vmap)
    img = img.astype(np.float32)
    if vmap == "repeat":
        assert not window_tie_free(img).any()
    else:
        assert len(np.unique(img)) == img.size
    return img


def gen_image2(r, shape, cls, vmap):
    return apply_vmap(r, gen_image(r, shape, cls), vmap)


def check_against_reference(lab, n, want, npk):
    """statement-level comparison of one labelling with the steepest-ascent reference: same background, same partition,
    n = number of maxima = number of distinct labels, all positive.  Returns None or a description."""
    lab = np.asarray(lab)
    if n != npk:
        return "returned %d labels, reference has %d local maxima" % (n, npk)
    if ((lab == 0) != (want == 0)).any():
        return "%d pixels differ in being background" % int(((lab == 0) != (want == 0)).sum())
    u = np.unique(lab[lab != 0])
    if len(u) != npk or (len(u) and u[0] < 1):
        return "%d distinct labels (smallest %s) for %d maxima" % (len(u), u[0] if len(u) else None, npk)
    if not np.array_equal(canon(lab), canon(want)):
        return "partition differs from steepest ascent"
    return None


def ref_dense(img):
    """steepest ascent reference.  returns labels (int32), npk, max path length"""
    ns, nf = img.shape
    pad = np.full((ns + 2, nf + 2), -np.inf, np.float32)
    pad[1:-1, 1:-1] = img
    stack = np.stack([pad[1 + di:1 + di + ns, 1 + dj:1 + dj + nf] for (di, dj) in
                      [(a, b) for a in (-1, 0, 1) for b in (-1, 0, 1)]])
    best = np.argmax(stack, axis=0)
    di = best // 3 - 1
    dj = best % 3 - 1
    ii, jj = np.indices(img.shape)
    ti, tj = ii + di, jj + dj
    border = np.zeros(img.shape, bool)
    border[0, :] = border[-1, :] = True
    border[:, 0] = border[:, -1] = True
    tgt = ti * nf + tj
    tgt[border] = (ii * nf + jj)[border]          # border pixels are terminal (label 0)
    tgt = tgt.ravel()
    ismax = (tgt == np.arange(ns * nf)) & ~border.ravel()
    lab0 = np.zeros(ns * nf, np.int32)
    lab0[ismax] = np.arange(1, int(ismax.sum()) + 1)
    # pointer jumping
    cur = tgt.copy()
    steps = 0
    while True:
        nxt = cur[cur]
        if np.array_equal(nxt, cur):
            break
        cur = nxt
        steps += 1
    return lab0[cur].reshape(img.shape), int(ismax.sum()), 2 ** steps


def ref_sparse(row, col, v, shape):
    """steepest ascent among present pixels; labels 1..n in raster order of maxima"""
    ns, nf = shape
    dense = np.full((ns + 2, nf + 2), -np.inf)
    idx = np.full((ns + 2, nf + 2), -1, np.int64)
    dense[row + 1, col + 1] = v
    idx[row + 1, col + 1] = np.arange(len(v))
    tgt = np.arange(len(v))
    bestv = v.astype(float).copy()
    for a in (-1, 0, 1):
        for b in (-1, 0, 1):
            nv = dense[row + 1 + a, col + 1 + b]
            ni = idx[row + 1 + a, col + 1 + b]
            m = nv > bestv
            bestv[m] = nv[m]
            tgt[m] = ni[m]
    ismax = tgt == np.arange(len(v))
    lab0 = np.zeros(len(v), np.int32)
    lab0[ismax] = np.arange(1, int(ismax.sum()) + 1)
    cur = tgt.copy()
    while True:
        nxt = cur[cur]
        if np.array_equal(nxt, cur):
            break
        cur = nxt
    return lab0[cur], int(ismax.sum())


def canon(a):
    from ..imgs import canon as c
    return c(a)


POISONS = ((0, 0), (-99, 7), (123456, 255), (77, 5))      # (labels, work); 5 is the "is a maximum" code of the work array


def stress_cases(run, seed, mods, ncase, reps, only=None):
    cImageD11, sparseframe = mods
    shapes = [(3, 3), (3, 40), (40, 3), (5, 5), (16, 16), (32, 48), (64, 64), (97, 61), (128, 128), (160, 160)]
    big = [(256, 256), (512, 384), (3, 5000), (5000, 3)]
    for idx in range(ncase):
        if only is not None and idx != only:
            continue
        r = rng(seed, "C13", "stress", idx)
        cls = CLASSES[idx % len(CLASSES)]
        shape = shapes[int(r.integers(len(shapes)))]
        if cls == "serpentine":
            shape = [(32, 48), (41, 40), (64, 64), (97, 61), (16, 16)][(idx // len(CLASSES)) % 5]
        if idx % 5 == 3:
            # narrow frames: far more threads than columns, pixel counts that the thread count does not divide - the
            # per-thread block bounds of the final walk then fall inside rows and leave a remainder
            shape = [(60, 5), (50, 3), (60, 20), (97, 31), (200, 7), (61, 17)][(idx // 5) % 6]
            run.count("narrow_frames")
        if run.tier == "thorough" and r.random() < 0.05:
            shape = big[int(r.integers(len(big)))]
        vmap = VMAPS[int(r.integers(len(VMAPS)))]
        if cls == "serpentine" and vmap == "repeat":
            vmap = "centered"               # "repeat" is not monotone: it would cut the ridge into short pieces
        img = gen_image2(r, shape, cls, vmap)
        want, npk, plen = ref_dense(img)
        run.setmax("longest_ascent_path_at_least", plen // 2)
        if plen // 2 > shape[0] + shape[1]:
            run.count("dense_images_with_ascent_path_longer_than_height_plus_width")
        extra = tuple(int(t) for t in r.integers(1, 65, 2))
        desc = dict(index=idx, source="libgomp", shape=shape, cls=cls, vmap=vmap, extra_threads=extra, tier=run.tier)
        run.count("dense_images_vmap_" + vmap)
        first = True
        base = None
        for nt in THREADS + extra:
            cImageD11.cimaged11_omp_set_num_threads(nt)
            if img.size % nt:
                run.count("libgomp_runs_threads_not_dividing_size")
            block = max(1, img.size // nt)
            stop = False
            for rep in range(reps if nt > 1 else 1):
                for poison in (POISONS if rep == 0 else (POISONS[0], POISONS[1 + rep % 3])):
                    lab = np.full(shape, poison[0], np.int32)
                    wrk = np.full(shape, poison[1], np.uint8)
                    n = cImageD11.localmaxlabel(img, lab, wrk)
                    run.count("libgomp_runs")
                    if base is None:
                        # reference run: 1 thread, zeroed buffers, compared at statement level
                        why = check_against_reference(lab, n, want, npk)
                        if why:
                            run.violation("localmaxlabel:1-thread", "single thread, zeroed buffers: " + why, dict(desc, threads=nt))
                            stop = True
                            break
                        base = (n, lab.copy())
                    elif n != base[0] or not np.array_equal(lab, base[1]):
                        run.violation("localmaxlabel:libgomp:threads>1" if nt > 1 else "localmaxlabel:1-thread",
                                      "labels differ from the single-thread zero-buffer result in %d pixels (returned %d maxima, "
                                      "reference %d) with %d threads, poison %r, repetition %d"
                                      % (int((lab != base[1]).sum()), n, npk, nt, poison, rep),
                                      dict(desc, threads=nt, poison=poison, rep=rep))
                        stop = True
                        break
                if stop:
                    break
            run.case((cls, shape, hash(img.tobytes()), nt, "libgomp"),
                     nontrivial=(npk >= 2 or plen > block), sample=dict(desc, threads=nt, maxima=npk) if first else None)
            first = False
            if base is None:
                break
        # label / work buffers the way a caller may hold them (numpy's default int64, a window of a larger array, a transposed
        # array, uint32): the wrapper may refuse them; accepted, the caller's array holds the labels on return
        if base is not None and img.size <= 20000:
            cImageD11.cimaged11_omp_set_num_threads(3)
            for variant in ("int64", "window", "transposed", "uint32", "wrk-int32"):
                wrk = np.zeros(shape, np.uint8)
                if variant == "int64":
                    lab = np.full(shape, -9, np.int64)
                elif variant == "window":
                    lab = np.full((shape[0] + 2, shape[1] + 3), -9, np.int32)[1:-1, 2:-1]
                elif variant == "transposed":
                    lab = np.full(shape[::-1], -9, np.int32).T
                elif variant == "uint32":
                    lab = np.full(shape, 77, np.uint32)
                else:
                    lab = np.full(shape, -9, np.int32)
                    wrk = np.zeros(shape, np.int32)
                try:
                    n = cImageD11.localmaxlabel(img, lab, wrk)
                except Exception:
                    run.count("label_buffer_variants_refused")
                    continue
                run.count("label_buffer_variants_accepted")
                if n != base[0] or not np.array_equal(np.asarray(lab, np.int64), np.asarray(base[1], np.int64)):
                    run.violation("localmaxlabel:label-buffer:" + variant, "localmaxlabel accepted a %s buffer, returned %d maxima, and the "
                                  "caller's label array does not hold the labels (%d pixels differ from the ordinary call)"
                                  % (variant, n, int((np.asarray(lab, np.int64) != base[1]).sum())), dict(desc, variant=variant))
                    break
        cImageD11.cimaged11_omp_set_num_threads(4)


def smooth_model(row, col, v, shape):
    """float64 model of sparse_smooth: (4 v + 2 (edge neighbours) + 1 (corner neighbours)) / 16 over the present pixels"""
    ns, nf = shape
    d = np.zeros((ns + 2, nf + 2))
    d[row + 1, col + 1] = v
    a = np.abs(d)
    out, mag = 0.0, 0.0
    for di in (-1, 0, 1):
        for dj in (-1, 0, 1):
            w = (4.0 if (di, dj) == (0, 0) else (3 - di * di - dj * dj)) / 16.0
            out = out + w * d[row + 1 + di, col + 1 + dj]
            mag = mag + w * a[row + 1 + di, col + 1 + dj]
    return out, mag


def check_smooth(got, row, col, v, shape):
    """None or a description.  Tolerance (derived): the kernel works in float32: s = v/16 (exact), then up to 9 terms
    v_p * c with c in {1,2,3}/16 (at most one rounding each, only for c = 3/16) added one by one (one rounding per
    addition, each partial sum bounded by A = sum c |v_p|): |error| <= (9 + 9) * 2^-24 * A, 20 * 2^-24 * A used.  When all
    v are integers with 16 A < 2^24 every product and partial sum is a multiple of 1/16 below 2^20, hence exactly
    representable: the tolerance is then zero."""
    want, mag = smooth_model(row, col, v.astype(np.float64), shape)
    exact = bool((v == np.round(v)).all() and (16 * mag).max() < 2 ** 24)
    tol = 0.0 if exact else 20 * 2.0 ** -24 * mag
    err = np.abs(got.astype(np.float64) - want)
    if (err > tol).any():
        k = int(np.argmax(err - tol))
        return "smoothed value of pixel (%d,%d) is %r, model %r (tolerance %g)" % (row[k], col[k], float(got[k]), float(want[k]),
                                                                                 float(np.max(tol)) if exact else float(tol[k]))
    return None


def sparse_one(run, seed, idx, mods):
    cImageD11, sparseframe = mods
    r = rng(seed, "C13", "sparse", idx)
    cls = CLASSES[idx % len(CLASSES)]
    shape = [(6, 6), (12, 20), (40, 40), (64, 31), (100, 100), (3, 200), (150, 90)][int(r.integers(7))]
    vmap = VMAPS[int(r.integers(len(VMAPS)))]
    img = gen_image2(r, shape, cls, vmap)
    # sparse pattern with gaps and isolated pixels
    p = float(r.choice([0.15, 0.4, 0.7, 0.95]))
    mask = r.random(shape) < p
    # two kinds of pattern: off the border (these can also be compared with the dense variant, which treats the border
    # as background) and patterns that use the first/last row and column
    interior = bool(r.random() < 0.5)
    if interior:
        mask[0, :] = mask[-1, :] = False
        mask[:, 0] = mask[:, -1] = False
    else:
        mask[:, 0] |= r.random(shape[0]) < 0.6
        mask[0, :] |= r.random(shape[1]) < 0.6
        mask[-1, -1] = True
    if idx % 4 == 1 and shape[0] >= 6:
        # empty rows: the pixel stored just before the first pixel of a row then lies two or more rows higher; with the
        # column alignment "upper group ends in column c, lower group starts in column c+1" the two are neighbours in
        # memory and in column number but not in the image
        r3 = rng(seed, "C13", "rowgaps", idx)
        for i in range(1, shape[0] - 2):
            if r3.random() < 0.3 and mask[i - 1].any():
                mask[i, :] = False
                if r3.random() < 0.5:
                    mask[i + 1 if i + 2 < shape[0] and r3.random() < 0.5 else i, :] = False
                c = int(np.flatnonzero(mask[i - 1])[-1])
                lower = i + 1
                while lower < shape[0] - 1 and not mask[lower].any() and r3.random() < 0.5:
                    lower += 1
                # (patterns meant for the sparse-vs-dense comparison stay off the border)
                if lower < shape[0] - int(interior) and c + 1 < shape[1] - int(interior) and not mask[i:lower].any():
                    mask[lower, :c + 1] = False
                    mask[lower, c + 1] = True
                    run.count("sparse_row_gap_alignments")
    if mask.sum() == 0:
        mask[shape[0] // 2, shape[1] // 2] = True
    fr = sparseframe.from_data_mask(mask.astype(np.int8), img, {})
    v = fr.pixels["intensity"].astype(np.float32)
    row, col = fr.row.astype(int), fr.col.astype(int)
    want, npk = ref_sparse(row, col, v, shape)
    # coordinate offset: the kernel sees only (row, col) lists, the reference is translation invariant
    off = (0, 0)
    if r.random() < 0.4:
        # per axis: largest coordinate exactly 65535 / pattern straddling 32767|32768 (sign bit of a 16-bit index) / anywhere
        off = tuple([int(65536 - sh), int(32768 - r.integers(1, sh)), int(r.integers(1, 65536 - sh))][int(r.integers(3))]
                    for sh in shape)
    krow, kcol = (row + off[0]).astype(np.uint16), (col + off[1]).astype(np.uint16)
    if max(int(krow.max()), int(kcol.max())) >= 32768:
        run.count("sparse_patterns_coordinate_ge_32768")
    if any(int(a.min()) < 32768 <= int(a.max()) for a in (krow, kcol)):
        run.count("sparse_patterns_straddling_32768")
    desc = dict(index=idx, source="sparse", shape=shape, cls=cls, vmap=vmap, nnz=int(fr.nnz), interior=interior, offset=off)
    run.case((cls, shape, hash(img.tobytes()), "sparse", p), nontrivial=npk >= 2, sample=dict(desc, maxima=npk))
    run.count("sparse_images_vmap_" + vmap)
    res = []
    for poison in (0, -5):
        lab = np.full(fr.nnz, poison, np.int32)
        MV = np.full(fr.nnz, float(poison) * 1e9, np.float32)
        iMV = np.full(fr.nnz, poison, np.int32)
        n = cImageD11.sparse_localmaxlabel(v, krow, kcol, MV, iMV, lab)
        run.count("sparse_runs")
        res.append((n, lab.copy()))
        if poison == 0:
            why = check_against_reference(lab, n, want, npk) or ("a pixel is unlabelled" if (lab <= 0).any() else None)
            if why:
                run.violation("sparse_localmaxlabel:labels", "sparse labels are not steepest ascent among present pixels: " + why, desc)
                return
    if res[0][0] != res[1][0] or not np.array_equal(res[0][1], res[1][1]):
        run.violation("sparse_localmaxlabel:buffer-dependent", "result depends on previous buffer content", desc)
    # python wrappers (frame coordinates must stay below 65535: offset at most 65534 - size)
    wfr = fr
    if off != (0, 0):
        o2 = tuple(min(o, 65534 - sh) for o, sh in zip(off, shape))
        wfr = sparseframe.sparse_frame((row + o2[0]).astype(np.uint16), (col + o2[1]).astype(np.uint16), (65534, 65534),
                                       pixels={"intensity": fr.pixels["intensity"]})
    nl = sparseframe.sparse_localmax(wfr)
    if nl != res[0][0] or not np.array_equal(wfr.pixels["localmax"], res[0][1]) or wfr.meta["localmax"]["nlabel"] != nl:
        run.violation("sparseframe.sparse_localmax", "wrapper labels differ from the kernel result", desc)
    # previous content of the output at the level of the frame: the frame already holds something under the label name
    # (compact uint8 / bool labels of an earlier, coarser labelling, int32 garbage); the new labels are those of the kernel
    for stale in (np.zeros(wfr.nnz, bool), (np.arange(wfr.nnz) % 200).astype(np.uint8),
                  np.full(wfr.nnz, -7, np.int32), np.zeros(wfr.nnz, np.int64)):
        fr3 = sparseframe.sparse_frame(wfr.row.copy(), wfr.col.copy(), wfr.shape,
                                       pixels={"intensity": np.array(wfr.pixels["intensity"], copy=True), "localmax": stale.copy()})
        n3 = sparseframe.sparse_localmax(fr3)
        run.count("sparse_localmax_over_existing_label_array")
        if n3 != res[0][0] or not np.array_equal(np.asarray(fr3.pixels["localmax"], np.int64), np.asarray(res[0][1], np.int64)):
            run.violation("sparseframe.sparse_localmax:existing-label-array", "a frame that already held a %s array under the label "
                          "name gets labels that differ from the kernel result (%d distinct values for %d maxima)"
                          % (stale.dtype, len(np.unique(fr3.pixels["localmax"])), res[0][0]), desc)
            break
    # a second labelling must not disturb the first: another signal of the same frame under another name, then another
    # frame with exactly as many pixels (the wrapper allocates per call; labels stored in a frame belong to that frame)
    first = wfr.pixels["localmax"].copy()
    other = (-np.asarray(wfr.pixels["intensity"], np.float32)).astype(np.float32)
    wfr.set_pixels("negated", other)
    sparseframe.sparse_localmax(wfr, label_name="localmax_neg", data_name="negated")
    fr2 = sparseframe.sparse_frame(wfr.row.copy(), wfr.col.copy(), wfr.shape,
                                   pixels={"intensity": other.copy()})
    sparseframe.sparse_localmax(fr2)
    run.count("sparse_localmax_second_call_checks")
    if not np.array_equal(wfr.pixels["localmax"], first):
        run.violation("sparseframe.sparse_localmax:earlier-labels-overwritten", "labels stored by an earlier sparse_localmax call "
                      "changed when another signal / another frame with the same number of pixels was labelled", desc)
    elif np.shares_memory(wfr.pixels["localmax"], wfr.pixels["localmax_neg"]) or \
            np.shares_memory(wfr.pixels["localmax"], fr2.pixels["localmax"]):
        run.violation("sparseframe.sparse_localmax:labels-share-storage", "label arrays of two sparse_localmax calls share storage", desc)
    sm = sparseframe.sparse_smooth(wfr)
    run.count("sparse_smooth_checks")
    why = check_smooth(sm, row, col, v, shape)
    if why:
        run.violation("sparse_smooth:values", why, desc)
    if not interior:
        run.count("sparse_border_patterns")
        return
    if vmap not in SMALL_VMAPS:
        return
    # same partition as the dense variant on the same pixels: embed with a background below every present pixel
    # (distinct integers below the smallest present value; |values| < 2^23 so they are exact in float32)
    bg = np.floor(float(v.min())) - 1.0 - tiefree(r, r.random(shape))
    dimg = np.where(mask, img, bg).astype(np.float32)
    assert dimg[~mask].max() < v.min() and not window_tie_free(dimg).any()
    lab = np.zeros(shape, np.int32)
    wrk = np.zeros(shape, np.uint8)
    cImageD11.localmaxlabel(dimg, lab, wrk)
    dl = lab[fr.row, fr.col]
    run.count("sparse_vs_dense")
    run.count("sparse_vs_dense:" + cls)
    if not np.array_equal(canon(dl), canon(want)):
        run.violation("sparse-vs-dense:partition", "sparse and dense variants give different partitions of the same pixels", desc)


def sparse_cases(run, seed, mods, ncase, only=None):
    for idx in range(ncase):
        if only is None or idx == only:
            sparse_one(run, seed, idx, mods)


def scan_case(run, seed, idx, mods):
    """SparseScan.lmlabel over a multi-frame sparse file: one pair of workspaces (sized for the largest frame) is reused
    for every frame, so each frame sees the previous frame's content; smooth=True goes through sparse_smooth"""
    import tempfile, shutil
    from .. import imgs
    cImageD11, sparseframe = mods
    r = rng(seed, "C13", "scan", idx)
    shape = [(8, 9), (24, 30), (60, 45), (3, 120)][int(r.integers(4))]
    nfr = int(r.integers(2, 8))
    scaled = bool(r.random() < 0.25)          # non-integer intensities: smoothing is compared within the derived tolerance
    frames = []
    for k in range(nfr):
        cls = CLASSES[int(r.integers(len(CLASSES)))]
        img = gen_image2(r, shape, cls, "scaled" if scaled else str(r.choice(["rank", "centered", "repeat"])))
        mask = r.random(shape) < float(r.choice([0.1, 0.3, 0.6, 0.9, 1.0]))
        few = r.random()
        forced = (k == 1 and idx % 2 == 0)   # every second scan has a one-pixel second frame (after a full first frame)
        if forced:
            few = 0.0
        if k > 0 and r.random() < 0.2 and not forced:
            mask[:] = False                  # empty frame
        elif few < 0.25:
            # a frame holding one, two or three pixels (a weak frame after the cut): each is still a labelled frame
            mask[:] = False
            npx = 1 if few < 0.15 else int(r.integers(2, 4))
            mask.reshape(-1)[r.choice(mask.size, npx, replace=False)] = True
            run.count("lmlabel_frames_with_%d_pixel%s" % (npx, "" if npx == 1 else "s"))
        elif not mask.any():
            mask[0, 0] = True
        frames.append((mask, img))
    desc = dict(index=idx, source="scan", shape=shape, nframes=nfr, scaled=scaled)
    run.case(("scan", shape, nfr, idx), nontrivial=True, sample=desc if idx < 2 else None)
    os.makedirs(os.path.join(WORK, "tmp"), exist_ok=True)
    d = tempfile.mkdtemp(prefix="c13s_", dir=os.path.join(WORK, "tmp"))
    try:
        fn = os.path.join(d, "scan.h5")
        per = imgs.write_sparse_scan(fn, frames)
        for smooth in (False, True):
            for countall in (True, False):
                key = dict(desc, smooth=smooth, countall=countall)
                sc = sparseframe.SparseScan(fn, "1.1")
                try:
                    sc.lmlabel(countall=countall, smooth=smooth)
                except Exception as e:
                    run.violation("SparseScan.lmlabel:exception", "lmlabel raised %s: %s" % (type(e).__name__, e), key)
                    return
                run.count("lmlabel_runs")
                tot, seen = 0, []
                for k in range(nfr):
                    s0, e0 = int(sc.ipt[k]), int(sc.ipt[k + 1])
                    row, col, v = per[k][0].astype(int), per[k][1].astype(int), per[k][2]
                    if e0 == s0:
                        if sc.nlabels[k] != 0:
                            run.violation("SparseScan.lmlabel:frame-labels", "empty frame %d has nlabels %d" % (k, sc.nlabels[k]), key)
                            return
                        continue
                    sig = np.asarray(sc.signal[s0:e0])
                    if smooth:
                        run.count("lmlabel_smooth_frames")
                        why = check_smooth(sig, row, col, v, shape)
                        if why:
                            run.violation("SparseScan.lmlabel:smooth", "frame %d: %s" % (k, why), dict(key, frame=k))
                            return
                    elif not np.array_equal(sig, v):
                        run.violation("SparseScan.lmlabel:signal", "frame %d: smooth=False but the labelled signal is not the intensity" % k,
                                      dict(key, frame=k))
                        return
                    # the labelled image is the signal; smoothing may create equal neighbours: outside the statement
                    dense = np.zeros(shape, np.float32)
                    pres = np.zeros(shape, bool)
                    dense[row, col] = sig
                    pres[row, col] = True
                    if window_tie_free(dense, pres).any():
                        run.count("lmlabel_frames_skipped_equal_neighbours")
                        tot += int(sc.nlabels[k])
                        seen.append(np.unique(sc.labels[s0:e0]))
                        continue
                    want, npk = ref_sparse(row, col, sig, shape)
                    lab = np.asarray(sc.labels[s0:e0])
                    run.count("lmlabel_frames_compared")
                    why = check_against_reference(lab, int(sc.nlabels[k]), want, npk) or \
                        ("a pixel is unlabelled" if (lab <= 0).any() else None)
                    if why:
                        run.violation("SparseScan.lmlabel:frame-labels", "frame %d of %d (smooth=%s, countall=%s): %s"
                                      % (k, nfr, smooth, countall, why), dict(key, frame=k))
                        return
                    tot += npk
                    seen.append(np.unique(lab))
                if sc.total_labels != tot:
                    run.violation("SparseScan.lmlabel:total", "total_labels %d != sum of per-frame labels %d" % (sc.total_labels, tot), key)
                if countall and seen and len(np.unique(np.concatenate(seen))) != sum(len(u) for u in seen):
                    run.violation("SparseScan.lmlabel:labels-collide", "countall=True but two frames share a label: the scan-wide "
                                  "label array merges pixels of different frames", key)
    finally:
        shutil.rmtree(d, ignore_errors=True)


def sched_tier(run, seed, nimg, seeds, tsan_imgs):
    """controlled scheduler + TSan inventory run in child processes (they need their own runtime)"""
    env = dict(os.environ)
    env["PYTHONPATH"] = VERIF
    env.pop("LD_PRELOAD", None)
    cfg = dict(seed=seed, nimg=nimg, seeds=seeds, tier=run.tier)
    p = subprocess.run([PY, "-m", "vlib.sched_c13", json.dumps(cfg)], env=env, cwd=VERIF,
                       stdout=subprocess.PIPE, stderr=subprocess.PIPE, timeout=3000)
    if p.returncode != 0:
        run.inconc("controlled-scheduler child failed: rc=%d %s" % (p.returncode, p.stderr.decode(errors="replace")[-500:]))
        return
    out = json.loads(p.stdout.decode().strip().splitlines()[-1])
    for k, v in out["counters"].items():
        run.count(k, v)
    run.extra["sched"] = out["extra"]
    for vio in out["violations"]:
        run.violation(vio["key"], vio["what"], vio["replay"])
    for c in out["cases"]:
        run.case(tuple(c["descriptor"]), nontrivial=c["nontrivial"], sample=c.get("sample"))
    # TSan inventory
    p = subprocess.run([PY, "-m", "vlib.tsan_inventory", "localmaxlabel", str(tsan_imgs), str(seed)], env=env, cwd=VERIF,
                       stdout=subprocess.PIPE, stderr=subprocess.PIPE, timeout=3000)
    if p.returncode == 0:
        try:
            inv = json.loads(p.stdout.decode().strip().splitlines()[-1])
            run.extra["tsan_inventory"] = inv
            run.count("tsan_racing_pairs_observed", len(inv.get("pairs", [])))
            run.count("tsan_runs", inv.get("runs", 0))
        except Exception as e:
            run.extra["tsan_inventory"] = "unparseable: %s" % e
    else:
        run.extra["tsan_inventory"] = "tsan child failed rc=%d: %s" % (p.returncode, p.stderr.decode(errors="replace")[-300:])


def check(run, replay=None):
    from ImageD11 import cImageD11, sparseframe
    mods = (cImageD11, sparseframe)
    if replay is not None:
        cs = replay["case"]
        if cs.get("tier"):
            run.tier = cs["tier"]
        if cs.get("source") == "sched":
            env = dict(os.environ)
            env["PYTHONPATH"] = VERIF
            p = subprocess.run([PY, "-m", "vlib.sched_c13", json.dumps(dict(replay=cs))], env=env, cwd=VERIF,
                               stdout=subprocess.PIPE, timeout=600)
            out = json.loads(p.stdout.decode().strip().splitlines()[-1])
            for vio in out["violations"]:
                run.violation(vio["key"], vio["what"], vio["replay"])
            run.evaluations += 1
        elif cs.get("source") == "sparse":
            sparse_cases(run, replay["seed"], mods, cs["index"] + 1, only=cs["index"])
        elif cs.get("source") == "scan":
            scan_case(run, replay["seed"], cs["index"], mods)
        else:
            stress_cases(run, replay["seed"], mods, cs["index"] + 1, 3, only=cs["index"])
        run.nontrivial.update(["replay", "replay2"])
        return
    if run.tier == "quick":
        stress_cases(run, run.seed, mods, 27, 5)
        sparse_cases(run, run.seed, mods, 120)
        for idx in range(16):
            scan_case(run, run.seed, idx, mods)
        if not os.environ.get("VERIF_ASAN_RERUN"):
            sched_tier(run, run.seed, 16, 9, 6)
    else:
        stress_cases(run, run.seed, mods, 300, 20)     # ~100 k kernel runs, about the cost of the former 400 x 25 x 7 thread counts
        sparse_cases(run, run.seed, mods, 4000)
        for idx in range(400):
            scan_case(run, run.seed, idx, mods)
        if not os.environ.get("VERIF_ASAN_RERUN"):
            sched_tier(run, run.seed, 300, 60, 40)
    run.extra["thread_counts"] = list(THREADS) + ["+2 per image drawn from 1..64"]
    run.require_counter("libgomp_runs", 500)
    run.require_counter("libgomp_runs_threads_not_dividing_size", 50)
    run.require_counter("sparse_runs", 50)
    run.require_counter("sparse_border_patterns", 10)
    run.require_counter("sparse_vs_dense", 10)
    run.require_counter("sparse_patterns_coordinate_ge_32768", 10)
    run.require_counter("sparse_patterns_straddling_32768", 5)
    run.require_counter("sparse_smooth_checks", 50)
    run.require_counter("lmlabel_runs", 40)
    run.require_counter("lmlabel_frames_compared", 100)
    run.require_counter("lmlabel_smooth_frames", 40)
    run.require_counter("lmlabel_frames_with_1_pixel", 3)
    run.require_counter("dense_images_with_ascent_path_longer_than_height_plus_width", 2)
    for vm in ("negative", "centered", "scaled"):
        run.require_counter("sparse_images_vmap_" + vm, 3)


# workloads added in seeding rounds 7-10 (DESIGN.md sections 13.9-13.12)
LEVEL_TEXT = LEVEL_TEXT + ' Later additions: scans with one-, two- and three-pixel frames; serpentine ridges (ascent paths far longer than height + width); frames that already hold a bool / uint8 / int32 / int64 array under the label name.'
LEVEL_TEXT = LEVEL_TEXT + ' Round 11: label / work buffers as int64, window, transposed, uint32 (refused or filled).'
