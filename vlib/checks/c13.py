"""C13 - local-maximum labelling follows steepest ascent for every thread count.

Oracle: harness steepest-ascent reference on tie-free images (rank-transformed
so that all pixel values are distinct).  Verdict = bit equality of the label
image with the reference for every thread count / schedule / buffer content.
Schedules: (1) instrumented controlled scheduler (kernel library built with
-fsanitize=thread callbacks served by vlib/csrc/vrt.c): deterministic, seeded
interleavings at memory-access granularity; (2) real libgomp stress at 1..64
threads; (3) ThreadSanitizer race inventory through a pthread GOMP shim
(evidence, not a verdict).
"""
import os, subprocess, sys, json
import numpy as np
from ..common import rng, PY, VERIF, WORK
from .. import build

TECHNIQUE = ("runtime reference-model monitor (steepest-ascent reference, exact label equality) under three schedule sources: "
             "deterministic controlled scheduler driven by compiler-inserted memory-access callbacks, real libgomp stress at "
             "1..64 threads, ThreadSanitizer race inventory via a pthread GOMP shim; buffer-poison differential; sparse variant "
             "vs dense partition")
LEVEL_TEXT = ("Exploration: tie-free images (3x3..160x160, 3xN, Nx3, smooth single/multi-peak fields with ascent paths crossing "
              "thread-block boundaries, noisy fields with many maxima) are labelled with 1..64 threads; every run must equal the "
              "steepest-ascent reference exactly, with output/work buffers pre-filled with two poisons. The controlled scheduler replays "
              "exactly from (image, threads, seed); libgomp runs are repeated. Distinct schedules (hash of the switch sequence) and "
              "racing access pairs are reported in the evidence.")
LEVEL_NOTE = ("The controlled scheduler explores sequentially-consistent interleavings only; libgomp stress shows what this x86 host "
              "produces; TSan output is an inventory and not a verdict. Images are tie-free by construction (verified before use).")

RULE = ("a case = (image class, shape, thread count, schedule source, seed); non-trivial = image has >= 2 local maxima or an ascent "
        "path longer than a thread block; distinct = (class, shape, hash of image, threads, source, seed)")

THREADS = (1, 2, 3, 4, 8, 16, 64)


def tiefree(r, field):
    """rank transform: distinct float32 values with the ordering of field (random tie-break)"""
    f = field.ravel() + r.random(field.size) * 1e-9 * (np.abs(field).max() + 1)
    order = np.argsort(f, kind="stable")
    rank = np.empty(field.size, np.float32)
    rank[order] = np.arange(1, field.size + 1, dtype=np.float32)
    img = rank.reshape(field.shape)
    assert len(np.unique(img)) == img.size
    return img


def gen_image(r, shape, cls):
    ns, nf = shape
    ii, jj = np.indices(shape).astype(float)
    if cls == "single-peak":
        ci, cj = r.uniform(1, ns - 2), r.uniform(1, nf - 2)
        f = -((ii - ci) ** 2 + (jj - cj) ** 2)
    elif cls == "ridge":
        # long ascent along a diagonal ridge
        f = -(ii - jj * ns / max(nf, 1)) ** 2 * 50 + ii + jj
    elif cls == "multi-peak":
        f = np.zeros(shape)
        for _ in range(int(r.integers(2, 9))):
            ci, cj, w = r.uniform(0, ns), r.uniform(0, nf), r.uniform(1.5, max(2.0, min(ns, nf) / 3))
            f += r.uniform(0.5, 2) * np.exp(-((ii - ci) ** 2 + (jj - cj) ** 2) / (2 * w * w))
    elif cls == "noise":
        f = r.random(shape)
    elif cls == "spiral-ramp":
        # value increases along a raster snake: paths as long as the image
        f = ii * nf + np.where(ii.astype(int) % 2 == 0, jj, nf - 1 - jj)
    elif cls == "border-peak":
        f = ii + jj        # maximum on the border: everything drains to label 0
    else:
        raise ValueError(cls)
    return tiefree(r, f)


CLASSES = ["single-peak", "multi-peak", "noise", "ridge", "spiral-ramp", "multi-peak", "border-peak", "noise"]
OFF = [(-1, -1), (0, -1), (1, -1), (-1, 0), (0, 0), (1, 0), (-1, 1), (0, 1), (1, 1)]


def ref_dense(img):
    """steepest ascent reference.  returns labels (int32), npk, max path length"""
    ns, nf = img.shape
    pad = np.full((ns + 2, nf + 2), -np.inf, np.float32)
    pad[1:-1, 1:-1] = img
    stack = np.stack([pad[1 + di:1 + di + ns, 1 + dj:1 + dj + nf] for (di, dj) in
                      [(a, b) for a in (-1, 0, 1) for b in (-1, 0, 1)]])
    best = np.argmax(stack, axis=0)
    di = best // 3 - 1
    dj = best % 3 - 1
    ii, jj = np.indices(img.shape)
    ti, tj = ii + di, jj + dj
    border = np.zeros(img.shape, bool)
    border[0, :] = border[-1, :] = True
    border[:, 0] = border[:, -1] = True
    tgt = ti * nf + tj
    tgt[border] = (ii * nf + jj)[border]          # border pixels are terminal (label 0)
    tgt = tgt.ravel()
    ismax = (tgt == np.arange(ns * nf)) & ~border.ravel()
    lab0 = np.zeros(ns * nf, np.int32)
    lab0[ismax] = np.arange(1, int(ismax.sum()) + 1)
    # pointer jumping
    cur = tgt.copy()
    steps = 0
    while True:
        nxt = cur[cur]
        if np.array_equal(nxt, cur):
            break
        cur = nxt
        steps += 1
    return lab0[cur].reshape(img.shape), int(ismax.sum()), 2 ** steps


def ref_sparse(row, col, v, shape):
    """steepest ascent among present pixels; labels 1..n in raster order of maxima"""
    ns, nf = shape
    dense = np.full((ns + 2, nf + 2), -np.inf)
    idx = np.full((ns + 2, nf + 2), -1, np.int64)
    dense[row + 1, col + 1] = v
    idx[row + 1, col + 1] = np.arange(len(v))
    tgt = np.arange(len(v))
    bestv = v.astype(float).copy()
    for a in (-1, 0, 1):
        for b in (-1, 0, 1):
            nv = dense[row + 1 + a, col + 1 + b]
            ni = idx[row + 1 + a, col + 1 + b]
            m = nv > bestv
            bestv[m] = nv[m]
            tgt[m] = ni[m]
    ismax = tgt == np.arange(len(v))
    lab0 = np.zeros(len(v), np.int32)
    lab0[ismax] = np.arange(1, int(ismax.sum()) + 1)
    cur = tgt.copy()
    while True:
        nxt = cur[cur]
        if np.array_equal(nxt, cur):
            break
        cur = nxt
    return lab0[cur], int(ismax.sum())


def canon(a):
    from ..imgs import canon as c
    return c(a)


def stress_cases(run, seed, mods, ncase, reps):
    cImageD11, sparseframe = mods
    shapes = [(3, 3), (3, 40), (40, 3), (5, 5), (16, 16), (32, 48), (64, 64), (97, 61), (128, 128), (160, 160)]
    for idx in range(ncase):
        r = rng(seed, "C13", "stress", idx)
        shape = shapes[idx % len(shapes)]
        cls = CLASSES[(idx // 2) % len(CLASSES)]
        img = gen_image(r, shape, cls)
        want, npk, plen = ref_dense(img)
        desc = dict(index=idx, source="libgomp", shape=shape, cls=cls)
        first = True
        for nt in THREADS:
            cImageD11.cimaged11_omp_set_num_threads(nt)
            block = max(1, img.size // nt)
            for rep in range(reps if nt > 1 else 1):
                for poison in ((0, 0), (-99, 7), (123456, 255)):
                    lab = np.full(shape, poison[0], np.int32)
                    wrk = np.full(shape, poison[1], np.uint8)
                    n = cImageD11.localmaxlabel(img, lab, wrk)
                    run.count("libgomp_runs")
                    if n != npk or not np.array_equal(lab, want):
                        bad = int((lab != want).sum())
                        run.violation("localmaxlabel:libgomp:threads>1" if nt > 1 else "localmaxlabel:1-thread",
                                      "labels differ from the steepest-ascent reference in %d pixels (returned %d maxima, "
                                      "reference %d) with %d threads, poison %r, repetition %d"
                                      % (bad, n, npk, nt, poison, rep), dict(desc, threads=nt, poison=poison, rep=rep))
                        break
                    if poison[0] != 0 and rep > 0:
                        break
            run.case((cls, shape, hash(img.tobytes()), nt, "libgomp"),
                     nontrivial=(npk >= 2 or plen > block), sample=dict(desc, threads=nt, maxima=npk) if first else None)
            first = False
        cImageD11.cimaged11_omp_set_num_threads(4)


def sparse_cases(run, seed, mods, ncase):
    cImageD11, sparseframe = mods
    for idx in range(ncase):
        r = rng(seed, "C13", "sparse", idx)
        shape = [(6, 6), (12, 20), (40, 40), (64, 31), (100, 100)][idx % 5]
        cls = CLASSES[idx % len(CLASSES)]
        img = gen_image(r, shape, cls)
        # sparse pattern with gaps and isolated pixels, none on the border
        p = float(r.choice([0.15, 0.4, 0.7, 0.95]))
        mask = r.random(shape) < p
        # two classes: patterns that stay off the border (these can also be compared with the dense variant, which
        # treats the border as background) and patterns that use the first/last row and column
        interior = bool(idx % 2)
        if interior:
            mask[0, :] = mask[-1, :] = False
            mask[:, 0] = mask[:, -1] = False
        else:
            mask[:, 0] |= r.random(shape[0]) < 0.6
            mask[0, :] |= r.random(shape[1]) < 0.6
            mask[-1, -1] = True
        if mask.sum() == 0:
            mask[shape[0] // 2, shape[1] // 2] = True
        fr = sparseframe.from_data_mask(mask.astype(np.int8), img, {})
        v = fr.pixels["intensity"].astype(np.float32)
        want, npk = ref_sparse(fr.row.astype(int), fr.col.astype(int), v, shape)
        desc = dict(index=idx, source="sparse", shape=shape, cls=cls, nnz=int(fr.nnz))
        run.case((cls, shape, hash(img.tobytes()), "sparse", p), nontrivial=npk >= 2, sample=dict(desc, maxima=npk))
        res = []
        for poison in (0, -5):
            lab = np.full(fr.nnz, poison, np.int32)
            MV = np.full(fr.nnz, float(poison) * 1e9, np.float32)
            iMV = np.full(fr.nnz, poison, np.int32)
            n = cImageD11.sparse_localmaxlabel(v, fr.row, fr.col, MV, iMV, lab)
            run.count("sparse_runs")
            res.append(lab.copy())
            if n != npk or not np.array_equal(lab, want):
                run.violation("sparse_localmaxlabel:labels", "sparse labels differ from steepest ascent among present pixels "
                              "(%d maxima returned, reference %d, %d pixels differ)" % (n, npk, int((lab != want).sum())), desc)
                break
        if len(res) == 2 and not np.array_equal(res[0], res[1]):
            run.violation("sparse_localmaxlabel:buffer-dependent", "result depends on previous buffer content", desc)
        # python wrapper
        nl = sparseframe.sparse_localmax(fr)
        if nl != npk or not np.array_equal(fr.pixels["localmax"], want):
            run.violation("sparseframe.sparse_localmax", "wrapper labels differ from reference", desc)
        if not interior:
            run.count("sparse_border_patterns")
            continue
        # same partition as the dense variant on the same pixels: embed with a background below every present pixel
        dimg = np.where(mask, img + np.float32(img.size + 1), img).astype(np.float32)
        lab = np.zeros(shape, np.int32)
        wrk = np.zeros(shape, np.uint8)
        cImageD11.localmaxlabel(dimg, lab, wrk)
        dl = lab[fr.row, fr.col]
        run.count("sparse_vs_dense")
        if not np.array_equal(canon(dl), canon(want)):
            run.violation("sparse-vs-dense:partition", "sparse and dense variants give different partitions of the same pixels", desc)


def sched_tier(run, seed, nimg, seeds, tsan_imgs):
    """controlled scheduler + TSan inventory run in child processes (they need their own runtime)"""
    env = dict(os.environ)
    env["PYTHONPATH"] = VERIF
    env.pop("LD_PRELOAD", None)
    cfg = dict(seed=seed, nimg=nimg, seeds=seeds, tier=run.tier)
    p = subprocess.run([PY, "-m", "vlib.sched_c13", json.dumps(cfg)], env=env, cwd=VERIF,
                       stdout=subprocess.PIPE, stderr=subprocess.PIPE, timeout=3000)
    if p.returncode != 0:
        run.inconc("controlled-scheduler child failed: rc=%d %s" % (p.returncode, p.stderr.decode(errors="replace")[-500:]))
        return
    out = json.loads(p.stdout.decode().strip().splitlines()[-1])
    for k, v in out["counters"].items():
        run.count(k, v)
    run.extra["sched"] = out["extra"]
    for vio in out["violations"]:
        run.violation(vio["key"], vio["what"], vio["replay"])
    for c in out["cases"]:
        run.case(tuple(c["descriptor"]), nontrivial=c["nontrivial"], sample=c.get("sample"))
    # TSan inventory
    p = subprocess.run([PY, "-m", "vlib.tsan_inventory", "localmaxlabel", str(tsan_imgs), str(seed)], env=env, cwd=VERIF,
                       stdout=subprocess.PIPE, stderr=subprocess.PIPE, timeout=3000)
    if p.returncode == 0:
        try:
            inv = json.loads(p.stdout.decode().strip().splitlines()[-1])
            run.extra["tsan_inventory"] = inv
            run.count("tsan_racing_pairs_observed", len(inv.get("pairs", [])))
            run.count("tsan_runs", inv.get("runs", 0))
        except Exception as e:
            run.extra["tsan_inventory"] = "unparseable: %s" % e
    else:
        run.extra["tsan_inventory"] = "tsan child failed rc=%d: %s" % (p.returncode, p.stderr.decode(errors="replace")[-300:])


def check(run, replay=None):
    from ImageD11 import cImageD11, sparseframe
    mods = (cImageD11, sparseframe)
    if replay is not None:
        cs = replay["case"]
        if cs.get("source") == "sched":
            env = dict(os.environ)
            env["PYTHONPATH"] = VERIF
            p = subprocess.run([PY, "-m", "vlib.sched_c13", json.dumps(dict(replay=cs))], env=env, cwd=VERIF,
                               stdout=subprocess.PIPE, timeout=600)
            out = json.loads(p.stdout.decode().strip().splitlines()[-1])
            for vio in out["violations"]:
                run.violation(vio["key"], vio["what"], vio["replay"])
            run.evaluations += 1
        elif cs.get("source") == "sparse":
            sparse_cases(run, replay["seed"], mods, cs["index"] + 1)
        else:
            stress_cases(run, replay["seed"], mods, cs["index"] + 1, 3)
        run.nontrivial.update(["replay", "replay2"])
        return
    if run.tier == "quick":
        stress_cases(run, run.seed, mods, 24, 6)
        sparse_cases(run, run.seed, mods, 60)
        if not os.environ.get("VERIF_ASAN_RERUN"):
            sched_tier(run, run.seed, 16, 9, 6)
    else:
        stress_cases(run, run.seed, mods, 400, 25)
        sparse_cases(run, run.seed, mods, 2000)
        if not os.environ.get("VERIF_ASAN_RERUN"):
            sched_tier(run, run.seed, 300, 60, 40)
    run.extra["thread_counts"] = list(THREADS)
    run.require_counter("libgomp_runs", 500)
    run.require_counter("sparse_runs", 50)
    run.require_counter("sparse_border_patterns", 10)
