"""C18 - saved peaks, parameters and grains read back as written.

Oracle: value-level comparison of what was written with what is read back, to
the precision table derived from columnfile.FORMATS; type table for parameter
values; ledger of what was written per history step (repeated save/load cycles,
overwrite histories on HDF5 groups).
"""
import contextlib, io, os, shutil, tempfile
import numpy as np
from ..common import rng, WORK
from .. import xtal

TECHNIQUE = ("runtime round-trip monitor: write -> read identity through the real file formats (text/HDF5 columnfile, parameter "
             "files, text/HDF5 grain files, sparse frames in HDF5 groups) with a per-format precision/type table and a history ledger "
             "for repeated save/load cycles and HDF5 overwrites")
LEVEL_TEXT = ("Exploration: title sets mixing known and unknown names, 1..2000 rows, magnitudes 1e-12..1e12, +-0.0, header "
              "parameters of all three types; parameter dictionaries with ints, floats (repr exact), strings including the hostile classes "
              "(strings that spell numbers, names with hyphens); grain lists 0..50 with/without translation/name/npks; 1..5 save/load "
              "cycles; HDF5 overwrite with the same and a different length. Added histories: every HDF5 columnfile writer form "
              "(name, open h5py.File, from a text file with name=None, colfileobj_to_hdf, gzip-compressed) x reader form (named, "
              "autodetected group, columnfile(h5), mmap_h5colf), a second write with ANOTHER TITLE SET (fewer / more / disjoint / "
              "overlapping, same or other length), colfileobj_to_hdf twice; grain.to_h5py_group onto existing groups, "
              "write_grain_file_h5 twice, nested group names, readubis on grain files and read_grain_file on ubi files; the text "
              "reader on blank lines, two title lines, a truncated last row, no trailing newline, tabs, header names with brackets "
              "and values containing '='; sparse frames written twice into one group (same / other nnz, uint16 / uint32 indices).")
LEVEL_NOTE = ("Precision table: FLOATS 0.5e-4 abs, LONGFLOATS 0.5e-12 abs, INTS exact for integer-valued data, EXPONENTIALS 0.5e-4 "
              "rel, unknown titles 0.5e-6 abs (+1 ulp); grain names compared after rstrip and counts after int() as the library "
              "itself consumes them.")

RULE = ("a case = one round trip history (format, content class, number of cycles); non-trivial = content mixes column classes / "
        "value types or has >= 2 cycles; distinct = (format, content descriptor)")

UNKNOWN = ["foo", "my_col", "x2", "Q", "ring", "weird.name", "intensity-ish"]


def tmpd():
    os.makedirs(os.path.join(WORK, "tmp"), exist_ok=True)
    return tempfile.mkdtemp(prefix="c18_", dir=os.path.join(WORK, "tmp"))


def gen_values(r, n, cls):
    mag = 10.0 ** r.uniform(-12, 12, n) if cls != "INTS" else None
    if cls == "INTS":
        v = r.integers(-10 ** 9, 10 ** 9, n).astype(float)
        v[r.random(n) < 0.1] = 0.0
        return v
    v = mag * r.choice([-1.0, 1.0], n)
    z = r.random(n) < 0.1
    v[z] = r.choice([0.0, -0.0], int(z.sum()))
    if cls == "LONGFLOATS":
        v = r.uniform(-30, 30, n)
    return v


def col_tol(cls, written):
    ulp = np.spacing(np.abs(written))
    if cls == "FLOATS":
        return 0.5e-4 * (1 + 1e-9) + ulp
    if cls == "LONGFLOATS":
        return 0.5e-12 * (1 + 1e-6) + ulp
    if cls == "INTS":
        return np.zeros_like(written)
    if cls == "EXPONENTIALS":
        return 0.5e-4 * np.abs(written) * (1 + 1e-9) + ulp
    return 0.5e-6 * (1 + 1e-9) + ulp


import json as _json, os as _os
with open(_os.path.join(_os.path.dirname(_os.path.dirname(_os.path.abspath(__file__))), "pinned_columnfile_formats.json")) as _fh:
    _P = _json.load(_fh)
PINNED_CLASSES = {c: list(_P[c]) for c in ("FLOATS", "INTS", "LONGFLOATS", "EXPONENTIALS")}


def columnfile_case(run, seed, idx, columnfile, parameters):
    r = rng(seed, "C18", "cf", idx)
    # the documented print precision of a title is the module-level table of the pinned commit, kept as a copy in
    # vlib/pinned_columnfile_formats.json (taking it from the tree under test would let a title that silently drops out of
    # a table - and is then printed with the 6-decimal fallback - define its own, lower, expectation)
    classes = dict(PINNED_CLASSES, UNKNOWN=UNKNOWN)
    for c in ("FLOATS", "INTS", "LONGFLOATS", "EXPONENTIALS"):
        if set(getattr(columnfile, c)) != set(PINNED_CLASSES[c]):
            run.count("format_table_differs_from_pinned:" + c)
    ncol = int(r.integers(1, 12))
    titles, tcls = [], {}
    while len(titles) < ncol:
        c = list(classes)[int(r.integers(5))]
        t = classes[c][int(r.integers(len(classes[c])))]
        if t not in titles and t != "labels":
            titles.append(t)
            tcls[t] = c
    n = int([1, 2, 3, 17, 200, 2000][idx % 6])
    data = {t: gen_values(r, n, tcls[t]) for t in titles}
    # integer-named columns are printed with no decimals, not required to hold integers: in a third of the cases they
    # carry fractions and negative zeros (print precision 0.5, sign of zero kept); text route only (HDF5 stores int64)
    rf = rng(seed, "C18", "cf-frac", idx)
    frac_ints = [t for t in titles if tcls[t] == "INTS" and rf.random() < 0.33]
    for t in frac_ints:
        v = rf.uniform(-3000, 3000, n)
        v[rf.random(n) < 0.15] = -0.0
        half = rf.random(n) < 0.1
        v[half] = np.round(v[half]) + 0.25                 # clearly off the rounding boundary, far from an integer
        data[t] = v
        run.count("int_columns_with_fractions")
    hdr = {}
    for k in range(int(r.integers(0, 5))):
        nm = "par%d" % k
        hdr[nm] = [int(r.integers(-1000, 1000)), float(r.normal()) * 10 ** int(r.integers(-8, 8)), "str%d" % k][k % 3]
        if k % 3 == 0 and r.random() < 0.3:
            hdr[nm] = int(r.choice([1, -1])) * (2 ** int(r.integers(53, 63)) + 2 * int(r.integers(1, 1000)) + 1)
    ncycles = int([1, 1, 2, 5][idx % 4])
    desc = dict(index=idx, kind="columnfile", titles=titles, nrows=n, cycles=ncycles, header=hdr)
    run.case(("columnfile", tuple(titles), n, ncycles), nontrivial=(len(set(tcls.values())) >= 2 or ncycles >= 2),
             sample=desc if idx < 3 else None)

    def V(key, what):
        run.violation(key, what, desc)
    d = tmpd()
    try:
        cf = columnfile.colfile_from_dict({t: data[t].copy() for t in titles})
        cf.parameters = parameters.parameters(**hdr)
        written = {t: data[t].copy() for t in titles}
        # ---------------- text
        cur = cf
        for cyc in range(ncycles):
            fn = os.path.join(d, "c%d.flt" % cyc)
            cur.writefile(fn)
            back = columnfile.columnfile(fn)
            run.count("text_roundtrips")
            if list(back.titles) != titles:
                V("text:titles", "titles %r read back as %r" % (titles, list(back.titles)))
                break
            if back.nrows != n:
                V("text:nrows", "%d rows written, %d read" % (n, back.nrows))
                break
            for t in titles:
                got = np.asarray(back.getcolumn(t), float)
                err = np.abs(got - written[t])
                tol = col_tol(tcls[t], written[t]) * (cyc + 1)
                if t in frac_ints:
                    tol = 0.5 * (1 + 1e-9) + np.spacing(np.abs(written[t]))      # "%.0f": nearest integer; idempotent
                z = written[t] == 0
                if z.any() and not np.array_equal(np.signbit(got[z]), np.signbit(written[t][z])):
                    V("text:sign-of-zero", "column %s (%s): a zero was written as %r and read back with the other sign"
                      % (t, tcls[t], float(written[t][z][0])))
                    break
                if (err > tol).any():
                    k = int(np.argmax(err - tol))
                    V("text:value:" + tcls[t], "column %s (%s) row %d written %r read %r after %d cycle(s)"
                      % (t, tcls[t], k, float(written[t][k]), float(got[k]), cyc + 1))
                    break
            for k, v in hdr.items():
                g = back.parameters.parameters.get(k, None)
                if g != v or type(g) != type(v):
                    V("text:header-parameter", "header parameter %s=%r (%s) read back as %r (%s)"
                      % (k, v, type(v).__name__, g, type(g).__name__))
            cur = back
        # ---------------- hdf (integer-typed columns are stored as int64: give them integer values again)
        if frac_ints:
            for t in frac_ints:
                data[t] = np.round(data[t]) + 0.0
            cf = columnfile.colfile_from_dict({t: data[t].copy() for t in titles})
            cf.parameters = parameters.parameters(**hdr)
        h5 = os.path.join(d, "c.h5")
        with contextlib.redirect_stdout(io.StringIO()):
            columnfile.colfile_to_hdf(cf, h5, name="peaks")
            bh = columnfile.colfile_from_hdf(h5, name="peaks")
            bh2 = columnfile.columnfile(h5)
        run.count("hdf_roundtrips")
        for b, route in ((bh, "colfile_from_hdf"), (bh2, "columnfile(hdf)")):
            if set(b.titles) != set(titles):
                V("hdf:titles:" + route, "title set %r read back as %r" % (sorted(titles), sorted(b.titles)))
                continue
            for t in titles:
                got = np.asarray(b.getcolumn(t))
                if not np.array_equal(got.astype(float), data[t]) or \
                        not np.array_equal(np.signbit(got.astype(float)), np.signbit(data[t])) and tcls[t] != "INTS":
                    V("hdf:value:" + route, "column %s not exactly preserved through HDF5" % t)
                    break
                if tcls[t] == "INTS" and got.dtype.kind != "i":
                    V("hdf:int-dtype:" + route, "integer-typed column %s read back as %s" % (t, got.dtype))
        # ---------------- overwrite histories on the same group
        same = columnfile.colfile_from_dict({t: gen_values(r, n, tcls[t]) for t in titles})
        with contextlib.redirect_stdout(io.StringIO()):
            columnfile.colfile_to_hdf(same, h5, name="peaks")
            b = columnfile.colfile_from_hdf(h5, name="peaks")
        run.count("hdf_overwrites_same_length")
        if not all(np.array_equal(np.asarray(b.getcolumn(t), float), np.asarray(same.getcolumn(t), float)) for t in titles):
            V("hdf:overwrite-same-length", "overwriting a group with same-length data does not read back the new data")
        # one object reused for another file (obj.readfile(other)): it then holds the other file, whatever it held before
        with contextlib.redirect_stdout(io.StringIO()):
            obj = columnfile.columnfile(os.path.join(d, "c0.flt"))           # holds the first data set
            obj.readfile(h5)                                                 # now the HDF5 group written last
        run.count("object_reused_for_another_file")
        if set(obj.titles) != set(titles) or obj.nrows != n or not all(
                np.array_equal(np.asarray(obj.getcolumn(t), float), np.asarray(same.getcolumn(t), float)) and
                np.array_equal(np.asarray(getattr(obj, t), float), np.asarray(same.getcolumn(t), float)) for t in titles):
            V("reused-object:text-then-hdf", "a columnfile that had read a text file and then readfile(<hdf5 file>) does not hold "
              "the columns of the HDF5 file")
        else:
            with contextlib.redirect_stdout(io.StringIO()):
                obj.readfile(os.path.join(d, "c0.flt"))
            fresh = columnfile.columnfile(os.path.join(d, "c0.flt"))
            if list(obj.titles) != list(fresh.titles) or not all(
                    np.array_equal(np.asarray(obj.getcolumn(t), float), np.asarray(fresh.getcolumn(t), float)) for t in fresh.titles):
                V("reused-object:hdf-then-text", "a columnfile reused for a text file after an HDF5 file differs from a fresh read")
        import h5py
        for variant in ("longer", "shorter", "resizable-longer", "resizable-shorter"):
            if "shorter" in variant and n < 2:
                continue
            n2 = n + int(r.integers(1, 5)) if "longer" in variant else int(r.integers(1, n))
            h5v = os.path.join(d, "ov_%s.h5" % variant)
            with contextlib.redirect_stdout(io.StringIO()):
                if variant.startswith("resizable"):
                    # a group written by other tools with resizable datasets
                    with h5py.File(h5v, "w") as hh:
                        gg = hh.create_group("peaks")
                        gg.attrs["ImageD11_type"] = "peaks"
                        for t in titles:
                            dat = np.asarray(same.getcolumn(t)).astype(np.int64 if t in columnfile.INTS else np.float64)
                            gg.create_dataset(t, data=dat, maxshape=(None,), chunks=True)
                else:
                    columnfile.colfile_to_hdf(same, h5v, name="peaks")
            diff = columnfile.colfile_from_dict({t: gen_values(r, n2, tcls[t]) for t in titles})
            raised = None
            with contextlib.redirect_stdout(io.StringIO()):
                try:
                    columnfile.colfile_to_hdf(diff, h5v, name="peaks")
                except Exception as e:
                    raised = e
                try:
                    b = columnfile.colfile_from_hdf(h5v, name="peaks")
                    state = "new" if b.nrows == n2 and all(np.array_equal(np.asarray(b.getcolumn(t), float),
                                                                          np.asarray(diff.getcolumn(t), float)) for t in titles) else \
                        ("old" if b.nrows == n and all(np.array_equal(np.asarray(b.getcolumn(t), float),
                                                                     np.asarray(same.getcolumn(t), float)) for t in titles)
                         else "a mixture (%d rows)" % b.nrows)
                except Exception as e:
                    state = "unreadable (%s: %s)" % (type(e).__name__, e)
            run.count("hdf_overwrites_different_length")
            if raised is None and state != "new":
                V("hdf:overwrite-different-length:silent",
                  "%s overwrite (%d -> %d rows) did not raise and the file holds %s data" % (variant, n, n2, state))
            if raised is not None and state != "old":
                V("hdf:overwrite-different-length:mixture", "%s overwrite (%d -> %d rows) raised %s but the file now holds %s data"
                  % (variant, n, n2, type(raised).__name__, state))
    finally:
        shutil.rmtree(d, ignore_errors=True)


def parameters_case(run, seed, idx, parameters, indexing=None):
    r = rng(seed, "C18", "par", idx)
    npar = int(r.integers(1, 25))
    pars = {}
    classes = []
    for k in range(npar):
        c = ["int", "float", "str", "str-number", "hyphen-name", "float-special", "npfloat"][int(r.choice(7, p=[.2, .25, .25, .08, .07, .1, .05]))]
        nm = "p%d_%s" % (k, "abcxyz"[k % 6])
        if c == "int":
            v = int(r.integers(-10 ** 12, 10 ** 12))
            if r.random() < 0.3:
                # integers that a double cannot hold (time stamps in ns, 64-bit ids): they are ints and must stay exact
                v = int(r.choice([1, -1])) * (2 ** int(r.integers(53, 63)) + int(r.integers(1, 1000)) * 2 + 1)
                run.count("parameter_ints_beyond_2^53")
        elif c == "float":
            v = float(r.normal() * 10.0 ** int(r.integers(-300, 300)))
        elif c == "str":
            v = ["P", "abc", "fcc-Ni", "/data/x.h5", "a=b", "1e", "0x1f", "--", "e5"][int(r.integers(9))]
        elif c == "str-number":
            v = ["123", "1e5", "-0.5", "007", "nan", "inf", "1_000"][int(r.integers(7))]
        elif c == "hyphen-name":
            nm = "p%d-with-hyphen" % k
            v = 1.5
        elif c == "float-special":
            v = [0.0, -0.0, 5.0, 1e16, 1e22, 1e-320, float(2 ** 53), 0.1 + 0.2][int(r.integers(8))]
        else:
            v = np.float64(r.normal())
        pars[nm] = v
        classes.append(c)
    desc = dict(index=idx, kind="parameters", pars={k: repr(v) for k, v in pars.items()})
    run.case(("parameters", tuple(sorted(pars)), tuple(classes)), nontrivial=len(set(classes)) >= 2,
             sample=desc if idx < 2 else None)
    d = tmpd()
    try:
        fn = os.path.join(d, "p.par")
        p = parameters.parameters(**pars)
        p.saveparameters(fn)
        q = parameters.parameters()
        q.loadparameters(fn)
        run.count("parameter_roundtrips")
        run.count("parameter_values_checked", npar)
        got = q.parameters
        for (nm, v), c in zip(pars.items(), classes):
            if nm not in got:
                key = "parameters:name-with-hyphen" if "-" in nm else "parameters:name-lost"
                run.violation(key, "parameter name %r not found after reload (names: %r)" % (nm, sorted(got)[:6]),
                              dict(desc, name=nm))
                continue
            g = got[nm]
            want_type = float if isinstance(v, (float, np.floating)) else type(v)
            if isinstance(v, str):
                if type(g) is not str or g != v:
                    try:
                        float(v)
                        key = "parameters:string-spells-number"
                    except ValueError:
                        key = "parameters:string-changed"
                    run.violation(key, "string value %r of %s read back as %r (%s)" % (v, nm, g, type(g).__name__),
                                  dict(desc, name=nm))
            else:
                same = (g == v) or (isinstance(v, float) and v != v and g != g)
                if type(g) is not want_type or not same or (isinstance(v, float) and np.signbit(v) != np.signbit(g)):
                    run.violation("parameters:%s-changed" % c, "%s value %r of %s read back as %r (%s)"
                                  % (type(v).__name__, v, nm, g, type(g).__name__), dict(desc, name=nm))
        # the same file through an object that owns a parameter set: indexer.loadpars(file) then indexer.savepars(file2),
        # the way index_unknown / the gui carry a full .par file along.  What a plain load gives must come back.
        if indexing is not None and idx % 3 == 0:
            import contextlib, io
            fn3 = os.path.join(d, "p3.par")
            with contextlib.redirect_stdout(io.StringIO()), contextlib.redirect_stderr(io.StringIO()):
                ix = indexing.indexer()
                ix.loadpars(fn)
                ix.savepars(fn3)
            q3 = parameters.parameters()
            q3.loadparameters(fn3)
            run.count("parameter_files_through_indexer")
            for nm, g in got.items():
                g3 = q3.parameters.get(nm, "<missing>")
                if repr(g3) != repr(g):
                    run.violation("parameters:through-indexer", "parameter %s is %r after a plain load and %r after "
                                  "indexer.loadpars / savepars of the same file" % (nm, g, g3), dict(desc, name=nm))
                    break
        # second cycle is a fixed point
        fn2 = os.path.join(d, "p2.par")
        q.saveparameters(fn2)
        q2 = parameters.parameters()
        q2.loadparameters(fn2)
        if {k: repr(v) for k, v in q2.parameters.items()} != {k: repr(v) for k, v in q.parameters.items()}:
            run.violation("parameters:second-cycle", "a second save/load cycle changes values again", desc)
    finally:
        shutil.rmtree(d, ignore_errors=True)


def grains_case(run, seed, idx, grain, indexing):
    r = rng(seed, "C18", "gr", idx)
    ng = int([0, 1, 2, 5, 50][idx % 5])
    gl = []
    names_pool = ["0:peaks.flt", "grain_7", "3:sample_UBI_run.flt", "a", "x-y.z", "UBI", "12:scan_0001"]
    for k in range(ng):
        cell = xtal.random_cell(r, xtal.KINDS[k % 7])
        ubi = np.linalg.inv(xtal.random_rotation(r) @ xtal.Bmat(cell))
        t = r.uniform(-1000, 1000, 3) if r.random() < 0.7 else None
        if t is not None and r.random() < 0.2:
            t = t * 10.0 ** r.integers(-6, 4)
        g = grain.grain(ubi, translation=t)
        if r.random() < 0.7:
            g.name = names_pool[int(r.integers(len(names_pool)))]
        if r.random() < 0.7:
            g.npks = int(r.integers(0, 10 ** 5))
            g.nuniq = int(r.integers(0, 500))
        gl.append(g)
    desc = dict(index=idx, kind="grains", ngrains=ng,
                names=[getattr(g, "name", None) for g in gl][:8])
    run.case(("grains", ng, idx), nontrivial=ng >= 2, sample=desc if idx < 2 else None)

    def V(key, what):
        run.violation(key, what, desc)
    d = tmpd()
    try:
        fn = os.path.join(d, "g.map")
        cur = gl
        ncyc = 1 + idx % 3
        for cyc in range(ncyc):
            grain.write_grain_file(fn, cur)
            back = grain.read_grain_file(fn)
            run.count("grain_text_roundtrips")
            if len(back) != ng:
                V("grains:text:count", "%d grains written, %d read" % (ng, len(back)))
                break
            for k, (a, b) in enumerate(zip(gl, back)):
                if np.abs(b.ubi - a.ubi).max() > 0.5e-8 * (cyc + 1) * np.abs(a.ubi).max() * 2:
                    V("grains:text:ubi", "grain %d UBI differs beyond 9 significant digits" % k)
                    break
                if (a.translation is None) != (b.translation is None):
                    V("grains:text:translation-presence", "grain %d translation %r read as %r" % (k, a.translation, b.translation))
                    break
                if a.translation is not None and \
                        (np.abs(b.translation - a.translation) > 0.5e-5 * (cyc + 1) * np.abs(a.translation) * 1.01 + 1e-300).any():
                    V("grains:text:translation", "grain %d translation %r read as %r (6 significant digits expected)"
                      % (k, a.translation.tolist(), b.translation.tolist()))
                    break
                an, bn = getattr(a, "name", None), getattr(b, "name", None)
                if (an is None) != (bn is None) or (an is not None and an.rstrip() != bn.rstrip()):
                    key = "grains:text:name-containing-UBI" if (an and "UBI" in an) else "grains:text:name"
                    V(key, "grain %d name %r read back as %r" % (k, an, bn))
                    break
                for att in ("npks", "nuniq"):
                    av, bv = getattr(a, att, None), getattr(b, att, None)
                    if (av is None) != (bv is None) or (av is not None and int(av) != int(bv)):
                        V("grains:text:" + att, "grain %d %s %r read back as %r" % (k, att, av, bv))
                        break
            cur = back
        # hdf5
        h5 = os.path.join(d, "g.h5")
        grain.write_grain_file_h5(h5, gl)
        back = grain.read_grain_file_h5(h5)
        run.count("grain_h5_roundtrips")
        if len(back) != ng:
            V("grains:h5:count", "%d grains written, %d read" % (ng, len(back)))
        else:
            for k, (a, b) in enumerate(zip(gl, back)):
                ok = np.array_equal(a.ubi, b.ubi)
                ok &= (a.translation is None and getattr(b, "translation", None) is None) or \
                    (a.translation is not None and b.translation is not None and np.array_equal(a.translation, b.translation))
                ok &= getattr(a, "name", None) == getattr(b, "name", None)
                ok &= all((getattr(a, att, None) is None and getattr(b, att, None) is None) or
                          (getattr(a, att, None) is not None and getattr(b, att, None) is not None and
                           int(getattr(a, att)) == int(getattr(b, att))) for att in ("npks", "nuniq"))
                if not ok:
                    V("grains:h5:value", "grain %d not exactly preserved through HDF5 (name %r -> %r)"
                      % (k, getattr(a, "name", None), getattr(b, "name", None)))
                    break
        # plain ubi files
        if ng:
            un = os.path.join(d, "u.ubi")
            indexing.write_ubi_file(un, [g.ubi for g in gl])
            ub = indexing.readubis(un)
            run.count("ubi_file_roundtrips")
            if len(ub) != ng or any(np.abs(a - g.ubi).max() > 0.5e-6 * 1.01 + 1e-12 for a, g in zip(ub, gl)):
                V("ubifile", "write_ubi_file/readubis does not preserve the matrices to 6 decimals")
    finally:
        shutil.rmtree(d, ignore_errors=True)


def sparse_case(run, seed, idx, sparseframe):
    import h5py
    r = rng(seed, "C18", "sp", idx)
    shape = [(8, 9), (64, 64), (3, 500), (200, 100)][idx % 4]
    data = (r.random(shape) * 1000).astype([np.float32, np.uint16][idx % 2])
    route = ["mask", "cut", "bare"][idx % 3]
    mask = r.random(shape) < 0.2
    mask.flat[0] = True
    if route == "mask":
        fr = sparseframe.from_data_mask(mask.astype(np.int8), data, {"threshold": 5, "note": "x"})
    elif route == "cut":
        fr = sparseframe.from_data_cut(data, 800, {"threshold": 800})
        if fr.nnz == 0:
            return
    else:
        rows, cols = np.nonzero(mask)
        fr = sparseframe.sparse_frame(rows, cols, shape, pixels={"intensity": data[mask]})
    fr.set_pixels("labels", r.integers(0, 50, fr.nnz).astype(np.int32), {"nlabel": 49} if idx % 2 else None)
    desc = dict(index=idx, kind="sparse", shape=shape, route=route, nnz=int(fr.nnz))
    run.case(("sparse", shape, route, idx), nontrivial=True, sample=desc if idx < 2 else None)
    d = tmpd()
    try:
        fn = os.path.join(d, "s.h5")
        try:
            with h5py.File(fn, "w") as h:
                sparseframe.sparse_frame.to_hdf_group(fr, h.create_group("frame"))
            with h5py.File(fn, "r") as h:
                back = sparseframe.from_hdf_group(h["frame"])
        except Exception as e:
            run.violation("sparse:h5:exception:%s" % type(e).__name__,
                          "sparse frame (%s) could not be written/read through an HDF5 group: %s: %s"
                          % (route, type(e).__name__, e), desc)
            return
        run.count("sparse_h5_roundtrips")
        ok = (tuple(back.shape) == tuple(fr.shape) and np.array_equal(back.row, fr.row) and np.array_equal(back.col, fr.col)
              and set(back.pixels) == set(fr.pixels)
              and all(np.array_equal(back.pixels[k], fr.pixels[k]) and back.pixels[k].dtype == fr.pixels[k].dtype
                      for k in fr.pixels))
        if not ok:
            run.violation("sparse:h5:value", "sparse frame not preserved through an HDF5 group", desc)
        for k, m in fr.meta.items():
            if {a: (b if not hasattr(b, "item") else b.item()) for a, b in back.meta.get(k, {}).items()} != dict(m):
                run.violation("sparse:h5:meta", "pixel metadata %r read back as %r" % (m, back.meta.get(k)), desc)
    finally:
        shutil.rmtree(d, ignore_errors=True)


def schema_case(run, seed, idx, parameters):
    """the json way of keeping parameters: AnalysisSchema splits a parameter set into one geometry .par and one .par per
    phase and merges them again on request; several exports are made from ONE schema object, in any order, and every file
    that is written reads back as the dictionary it was made from"""
    import contextlib, io
    r = rng(seed, "C18", "schema", idx)
    geo = {"chi": 0.0, "distance": float(r.uniform(1e5, 3e5)), "fit_tolerance": 0.05, "no_bins": int(r.integers(100, 20000)),
           "o11": int(r.choice([-1, 1])), "o12": 0, "o21": 0, "o22": int(r.choice([-1, 1])), "omegasign": float(r.choice([-1.0, 1.0])),
           "t_x": 0.0, "t_y": float(r.normal() * 10), "t_z": 1e-12, "tilt_x": float(r.normal() * 1e-3), "wavelength": float(r.uniform(0.1, 0.9)),
           "wedge": -0.0, "y_center": float(r.uniform(900, 1100)), "y_size": 75.0, "z_center": float(r.uniform(900, 1100)),
           "z_size": 75.0, "detector": "eiger"}
    def phase(k):
        a = float(r.uniform(2.5, 6))
        d_ = {"cell__a": a, "cell__b": a, "cell__c": float(r.uniform(2.5, 6)), "cell_alpha": 90.0, "cell_beta": 90.0, "cell_gamma": 90.0,
              "cell_lattice_[P,A,B,C,I,F,R]": [225, "I", "P", 194][int(r.integers(4))]}
        if r.random() < 0.5:
            d_["phase_name"] = "ph%d" % k          # some phase files carry extra keys that others lack
        return d_
    names = ["alpha", "beta", "gamma"][: int(r.integers(2, 4))]
    phases = {nm: phase(k) for k, nm in enumerate(names)}
    desc = dict(index=idx, kind="schema", phases=names)
    run.case(("schema", tuple(names), idx), nontrivial=True, sample=desc if idx < 2 else None)

    def readpars(fn):
        q = parameters.parameters()
        q.loadparameters(fn)
        return dict(q.get_parameters())

    def same(what, got, want):
        if {k: (type(v).__name__, repr(v)) for k, v in got.items()} != {k: (type(v).__name__, repr(v)) for k, v in want.items()}:
            extra = sorted(set(got) - set(want))
            diff = [k for k in want if k in got and repr(got[k]) != repr(want[k])]
            run.violation("schema:" + what.split(":")[0], "%s does not read back as the dictionary it was made from (names never "
                          "written: %r, missing: %r, changed: %r)" % (what, extra[:4], sorted(set(want) - set(got))[:4], diff[:4]), desc)
            return False
        return True
    d = tmpd()
    cwd = os.getcwd()
    try:
        os.chdir(d)
        with contextlib.redirect_stdout(io.StringIO()):
            asc = parameters.AnalysisSchema.from_geom_and_phase_dict(dict(geo), dict(phases[names[0]]), names[0])
            for nm in names[1:]:
                asc.add_phase_from_dict(nm, dict(phases[nm]))
            os.mkdir("first")
            asc.save(os.path.join("first", "pars.json"))
            asc2 = parameters.AnalysisSchema(os.path.join("first", "pars.json"))
            # exports from one object in a random order: per phase, geometry only, per phase again
            order = [names[i] for i in r.permutation(len(names))] + [None] + [names[int(r.integers(len(names)))]]
            ok = True
            for k, ph in enumerate(order):
                fn = "old_%d.par" % k
                if ph is None:
                    asc2.to_old_pars_file(fn)
                else:
                    asc2.to_old_pars_file(fn, phase_name=ph)
                run.count("schema_exports")
                want = dict(geo) if ph is None else dict(geo, **phases[ph])
                ok = same("old-style-export: export %d (%s) after %r" % (k, ph or "geometry only", order[:k]), readpars(fn), want) and ok
            os.mkdir("second")
            asc2.save(os.path.join("second", "pars.json"))
        same("second-save: geometry.par written by save() after the exports", readpars(os.path.join("second", "geometry.par")), geo)
        for nm in names:
            same("second-save: %s.par written by save() after the exports" % nm, readpars(os.path.join("second", nm + ".par")), phases[nm])
    except Exception as e:
        run.count("schema_route_raised")
        run.extra.setdefault("schema_route_raised", "%s: %s" % (type(e).__name__, str(e)[:300]))
    finally:
        os.chdir(cwd)
        shutil.rmtree(d, ignore_errors=True)


def check(run, replay=None):
    from ImageD11 import columnfile, parameters, grain, indexing, sparseframe
    from .. import c18_more
    if replay is not None:
        cs = replay["case"]
        k = cs["kind"]
        if k == "columnfile":
            columnfile_case(run, replay["seed"], cs["index"], columnfile, parameters)
        elif k == "parameters":
            parameters_case(run, replay["seed"], cs["index"], parameters, indexing)
        elif k == "grains":
            grains_case(run, replay["seed"], cs["index"], grain, indexing)
        elif k == "schema":
            schema_case(run, replay["seed"], cs["index"], parameters)
        elif k == "hdf-history":
            c18_more.hdf_history_case(run, replay["seed"], cs["index"], columnfile, tmpd, gen_values)
        elif k == "grain-h5-history":
            c18_more.grain_h5_history(run, replay["seed"], cs["index"], grain, indexing, tmpd)
        elif k == "text-reader":
            c18_more.text_reader_case(run, replay["seed"], cs["index"], columnfile, tmpd)
        elif k == "sparse-history":
            c18_more.sparse_history(run, replay["seed"], cs["index"], sparseframe, tmpd)
        else:
            sparse_case(run, replay["seed"], cs["index"], sparseframe)
        run.nontrivial.update(["replay", "replay2"])
        return
    n = dict(cf=80, par=120, gr=60, sp=40) if run.tier == "quick" else dict(cf=3000, par=8000, gr=3000, sp=2000)
    for i in range(n["cf"]):
        columnfile_case(run, run.seed, i, columnfile, parameters)
    for i in range(n["par"]):
        parameters_case(run, run.seed, i, parameters, indexing)
    for i in range(n["gr"]):
        grains_case(run, run.seed, i, grain, indexing)
    for i in range(n["par"] // 6):
        schema_case(run, run.seed, i, parameters)
    for i in range(n["sp"]):
        sparse_case(run, run.seed, i, sparseframe)
    m = dict(hh=60, gh=30, tx=60, sh=30) if run.tier == "quick" else dict(hh=3000, gh=1500, tx=3000, sh=1500)
    for i in range(m["hh"]):
        c18_more.hdf_history_case(run, run.seed, i, columnfile, tmpd, gen_values)
    for i in range(m["gh"]):
        c18_more.grain_h5_history(run, run.seed, i, grain, indexing, tmpd)
    for i in range(m["tx"]):
        c18_more.text_reader_case(run, run.seed, i, columnfile, tmpd)
    for i in range(m["sh"]):
        c18_more.sparse_history(run, run.seed, i, sparseframe, tmpd)
    for c, k in (("hdf_history_roundtrips", 40), ("hdf_overwrites_other_titles", 20), ("hdf_mmap_reads", 10),
                 ("grain_h5_overwrites", 20), ("grain_cross_format_reads", 20), ("text_reader_variants", 30),
                 ("sparse_overwrites", 20), ("sparse_h5_roundtrips", 10), ("grain_h5_roundtrips", 10),
                 ("ubi_file_roundtrips", 10)):
        run.require_counter(c, k)
    run.require_counter("text_roundtrips", 50)
    run.require_counter("hdf_roundtrips", 50)
    run.require_counter("parameter_values_checked", 200)
    run.require_counter("parameter_files_through_indexer", 20)
    run.require_counter("schema_exports", 50)
    run.require_counter("parameter_ints_beyond_2^53", 5)
    run.require_counter("grain_text_roundtrips", 30)


# workloads added in seeding rounds 7-10 (DESIGN.md sections 13.9-13.12)
LEVEL_TEXT = LEVEL_TEXT + ' Later additions: the print precision of a title is the pinned format table (vlib/pinned_columnfile_formats.json); parameter files carried through indexer.loadpars / savepars.'
LEVEL_TEXT = LEVEL_TEXT + ' Round 11: one columnfile object reused for another file (text -> HDF5 -> text); AnalysisSchema exports and saves from one object.'
