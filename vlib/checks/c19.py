"""C19 - scanning geometry is self-consistent; reconstructions land where it predicts.

Oracle: inverse laws for every conversion pair, the ly = 0 law for the in-beam
dty value, predicted-peak localisation of a point-like grain reconstructed with
the module's own shift and pad, linearity of the filtered back-projection,
worker-count and ROI-mask differentials.
"""
import numpy as np
from ..common import rng

TECHNIQUE = ("runtime law monitor: conversion inverse laws and the ly=0 law on ImageD11.sinograms.geometry; placement oracle "
             "(point-grain sinogram built with the module's own dty convention -> run_iradon with sino_shift_and_pad -> peak within "
             "1.5 px of sample_to_recon); linearity, ThreadPool worker-count differential (1..16, repeated) and ROI-mask differential")
LEVEL_TEXT = ("Exploration: random positions over the scanned disc in all quadrants, ystep 0.1..50, y0 within +-10 steps "
              "(fractional), sinogram heights odd/even 21..201, 0-180 and 0-360 scans, pads from the module, random ROI masks, workers "
              "1..16 with repetitions; 5,000+ conversion samples per run.")
LEVEL_NOTE = ("Peak located at the arg-max refined by the 3x3 intensity centroid; ThreadPool scheduling is whatever the OS gives "
              "(no schedule control); worker differential tolerance 1e-9 relative because the summation order over angles changes.")

RULE = ("a case = (ystep, y0 offset, sinogram height, scan range, position) reconstruction or a batch of conversion samples; "
        "non-trivial = y0 offset != 0 or position off-axis; distinct = rounded parameters")


def close(a, b, scale, tol=1e-9):
    return bool(np.all(np.abs(np.asarray(a, float) - np.asarray(b, float)) <= tol * scale))


def conversions(run, seed, idx, geometry, pbp):
    r = rng(seed, "C19", "conv", idx)
    n = 50
    ystep = float(10 ** r.uniform(-1, np.log10(50)))
    y0 = float(r.uniform(-10, 10) * ystep)
    shape = (int(r.integers(20, 202)), int(r.integers(20, 202)))
    if idx % 3 == 0:
        shape = (shape[0], shape[0])
    sx, sy = r.uniform(-100 * ystep, 100 * ystep, (2, n))
    om = r.uniform(-720, 720, n)
    om[:5] = [0, 90, 180, 270, -90]
    dty = r.uniform(-100 * ystep, 100 * ystep, n)
    scale = 200 * ystep + abs(y0) + 1
    desc = dict(index=idx, kind="conversions", ystep=ystep, y0=y0, recon_shape=shape)
    run.case(("conv", round(ystep, 4), round(y0, 4), shape), nontrivial=True, sample=desc if idx < 2 else None)

    def V(key, what):
        run.violation(key, what, desc)
    run.count("conversion_samples", n)
    so, co = np.sin(np.radians(om)), np.cos(np.radians(om))
    lx, ly = geometry.sample_to_lab(sx, sy, y0, dty, om)
    if not close(geometry.lab_to_sample(lx, ly, y0, dty, om), (sx, sy), scale):
        V("inverse:sample-lab", "lab_to_sample(sample_to_lab(x)) != x")
    lx2, ly2 = geometry.sample_to_lab_sincos(sx, sy, y0, dty, so, co)
    if not close((lx2, ly2), (lx, ly), scale) or \
            not close(geometry.lab_to_sample_sincos(lx, ly, y0, dty, so, co), (sx, sy), scale):
        V("inverse:sample-lab-sincos", "sincos variants disagree with the degree variants or are not inverse")
    # rigid: distances preserved, rotation axis maps to (0, dty - y0)
    if not close(np.hypot(lx, ly - dty + y0), np.hypot(sx, sy), scale):
        V("sample_to_lab:not-rigid", "sample_to_lab does not preserve the distance to the rotation axis")
    si, sj = geometry.sample_to_step(sx, sy, ystep)
    if not close(geometry.step_to_sample(si, sj, ystep), (sx, sy), scale):
        V("inverse:sample-step", "step_to_sample(sample_to_step(x)) != x")
    ri, rj = geometry.step_to_recon(si, sj, shape)
    if not close(geometry.recon_to_step(ri, rj, shape), (si, sj), scale / ystep):
        V("inverse:step-recon", "recon_to_step(step_to_recon(x)) != x")
    if not close(geometry.sample_to_recon(sx, sy, shape, ystep), (ri, rj), scale / ystep) or \
            not close(geometry.recon_to_sample(ri, rj, shape, ystep), (sx, sy), scale):
        V("inverse:sample-recon", "sample<->recon conversions inconsistent")
    a, b = geometry.lab_to_step(lx, ly, y0, dty, om, ystep)
    if not close((a, b), (si, sj), scale / ystep) or not close(geometry.step_to_lab(si, sj, y0, dty, om, ystep), (lx, ly), scale):
        V("inverse:lab-step", "lab<->step conversions inconsistent")
    a, b = geometry.lab_to_recon(lx, ly, y0, dty, om, shape, ystep)
    if not close((a, b), (ri, rj), scale / ystep) or \
            not close(geometry.recon_to_lab(ri, rj, y0, dty, om, shape, ystep), (lx, ly), scale):
        V("inverse:lab-recon", "lab<->recon conversions inconsistent")
    # the rotation axis is at the centre pixel of the reconstruction
    c = geometry.sample_to_recon(0.0, 0.0, shape, ystep)
    if not close(c, (shape[0] // 2, shape[1] // 2), 1.0, 1e-12):
        V("recon:centre", "rotation axis maps to %r, expected %r" % (c, (shape[0] // 2, shape[1] // 2)))
    # ---- ly = 0 law
    d_in = geometry.dty_values_grain_in_beam(sx, sy, y0, om)
    _, ly0 = geometry.sample_to_lab(sx, sy, y0, d_in, om)
    run.count("inbeam_law_samples", n)
    if not close(ly0, 0.0, scale):
        V("inbeam:ly-not-zero", "at the dty from dty_values_grain_in_beam the lab y is %.3g, not 0" % np.abs(ly0).max())
    if not close(geometry.dty_values_grain_in_beam_sincos(sx, sy, y0, so, co), d_in, scale) or \
            not close(geometry.x_y_y0_omega_to_dty(om, sx, sy, y0), d_in, scale) or \
            not close(geometry.step_omega_to_dty(si, sj, om, y0, ystep), d_in, scale) or \
            not close(geometry.recon_omega_to_dty(ri, rj, om, y0, shape, ystep), d_in, scale):
        V("inbeam:variants", "in-beam dty variants (sincos/step/recon) disagree")
    # ---- discretisation and masks
    ymin = float(-60 * ystep + r.uniform(-1, 1) * ystep)
    frac = (d_in - ymin) / ystep
    safe = np.abs(frac - np.floor(frac) - 0.5) > 1e-6
    want_i = np.floor(frac + 0.5).astype(int)
    got_i = geometry.dty_to_dtyi(d_in, ystep, ymin)
    if not np.array_equal(got_i[safe], want_i[safe]):
        V("dty_to_dtyi", "dty_to_dtyi is not the nearest step")
    if not close(geometry.dtyi_to_dty(got_i, ystep, ymin), ymin + got_i * ystep, scale):
        V("dtyi_to_dty", "dtyi_to_dty is not ymin + i*ystep")
    for name, got in (("step_omega_to_dtyi", geometry.step_omega_to_dtyi(si, sj, om, y0, ystep, ymin)),
                      ("recon_omega_to_dtyi", geometry.recon_omega_to_dtyi(ri, rj, om, y0, shape, ystep, ymin))):
        # round trips through step space may move a value across a rounding boundary only if it was within 1e-6
        if not np.array_equal(np.asarray(got)[safe], want_i[safe]):
            V("dtyi:" + name, "%s differs from rounding the in-beam dty" % name)
    k = int(r.integers(n))
    dtyi_obs = want_i[k] + r.integers(-1, 2, n)
    dtyi_obs[::3] = geometry.dty_to_dtyi(geometry.dty_values_grain_in_beam(sx[k], sy[k], y0, om), ystep, ymin)[::3]
    d_k = geometry.dty_values_grain_in_beam(sx[k], sy[k], y0, om)
    fr_k = (d_k - ymin) / ystep
    safe_k = np.abs(fr_k - np.floor(fr_k) - 0.5) > 1e-6
    want_mask = np.floor(fr_k + 0.5).astype(int) == dtyi_obs
    masks = {
        "dtyimask_from_sample": geometry.dtyimask_from_sample(sx[k], sy[k], om, dtyi_obs, y0, ystep, ymin),
        "dtyimask_from_sample_sincos": geometry.dtyimask_from_sample_sincos(sx[k], sy[k], so, co, dtyi_obs, y0, ystep, ymin),
        "dtyimask_from_step": geometry.dtyimask_from_step(si[k], sj[k], om, dtyi_obs, y0, ystep, ymin),
        "dtyimask_from_step_sincos": geometry.dtyimask_from_step_sincos(si[k], sj[k], so, co, dtyi_obs, y0, ystep, ymin),
        "dtyimask_from_recon": geometry.dtyimask_from_recon(ri[k], rj[k], om, dtyi_obs, y0, ystep, ymin, shape),
        "dtyimask_from_recon_sincos": geometry.dtyimask_from_recon_sincos(ri[k], rj[k], so, co, dtyi_obs, y0, ystep, ymin, shape),
    }
    run.count("mask_samples", 6 * n)
    for name, m in masks.items():
        if not np.array_equal(np.asarray(m)[safe_k], want_mask[safe_k]):
            V("dtyimask:" + name, "%s disagrees with the in-beam law after rounding" % name)
    # numba voxel selection used by point-by-point refinement
    xi0, yi0 = float(sx[k]), float(sy[k])
    idxs, ydist = pbp.get_voxel_idx(y0, xi0, yi0, so, co, dty, ystep)
    want_d = np.abs(d_k - dty)
    sel = want_d <= ystep
    edge = np.abs(want_d - ystep) < 1e-9 * scale
    if not close(ydist, want_d, scale) or not np.array_equal(np.isin(np.arange(n), idxs)[~edge], sel[~edge]):
        V("pbp:get_voxel_idx", "numba get_voxel_idx disagrees with the in-beam law")


def build_sino(geometry, sx, sy, y0, ystep, ny, ymin, angles, amp=1.0):
    sino = np.zeros((ny, len(angles)))
    dty = geometry.dty_values_grain_in_beam(sx, sy, y0, angles)
    row = (dty - ymin) / ystep
    lo = np.floor(row).astype(int)
    f = row - lo
    for k in range(len(angles)):
        if 0 <= lo[k] < ny:
            sino[lo[k], k] += amp * (1 - f[k])
        if 0 <= lo[k] + 1 < ny:
            sino[lo[k] + 1, k] += amp * f[k]
    return sino


def peak_position(rec):
    i, j = np.unravel_index(np.argmax(rec), rec.shape)
    i0, i1 = max(0, i - 1), min(rec.shape[0], i + 2)
    j0, j1 = max(0, j - 1), min(rec.shape[1], j + 2)
    w = np.clip(rec[i0:i1, j0:j1], 0, None)
    ii, jj = np.mgrid[i0:i1, j0:j1]
    return float((ii * w).sum() / w.sum()), float((jj * w).sum() / w.sum())


def reconstruction(run, seed, idx, geometry, roi_iradon):
    r = rng(seed, "C19", "rec", idx)
    ystep = float(r.choice([0.1, 0.5, 1.0, 2.5, 10.0, 50.0]))
    ny = int([21, 40, 41, 60, 101, 128, 201][idx % 7])
    if run.tier == "quick" and ny > 101:
        ny = 80 + idx % 2
    ymin = -ystep * (ny // 2) + float(r.uniform(-3, 3)) * ystep
    y0off = float(r.uniform(-10, 10)) if idx % 4 else 0.0
    y0off = float(np.clip(y0off, -ny / 5.0, ny / 5.0))
    y0 = ymin + ystep * (ny / 2.0) + y0off * ystep
    full = bool(idx % 2)
    angles = np.arange(0, 360 if full else 180, 1.0 if ny < 120 else 0.5)
    # position inside the scanned disc: every projection stays on the sinogram
    Rmax = (ny / 2.0 - abs(y0off) - 2) * ystep
    rad = float(r.uniform(0, max(0.5 * ystep, 0.9 * Rmax)))
    phi = float(r.uniform(0, 2 * np.pi))
    sx, sy = rad * np.cos(phi), rad * np.sin(phi)
    desc = dict(index=idx, kind="reconstruction", ystep=ystep, ny=ny, y0_offset_steps=y0off, full=full,
                sx=sx, sy=sy, ymin=ymin)
    run.case(("rec", ystep, ny, round(y0off, 3), full, round(rad / ystep, 2), round(phi, 2)),
             nontrivial=(y0off != 0 or rad > ystep), sample=desc if idx < 3 else None)

    def V(key, what):
        run.violation(key, what, desc)
    sino = build_sino(geometry, sx, sy, y0, ystep, ny, ymin, angles)
    shift, pad = geometry.sino_shift_and_pad(y0, ny, ymin, ystep)
    rec = roi_iradon.run_iradon(sino, angles, pad=int(pad), shift=float(shift), workers=1)
    run.count("reconstructions")
    if rec.shape != (ny + int(pad), ny + int(pad)):
        V("recon:shape", "reconstruction shape %r, expected %d+%d" % (rec.shape, ny, pad))
        return
    pi_, pj_ = peak_position(rec)
    ri, rj = geometry.sample_to_recon(sx, sy, rec.shape, ystep)
    dist = float(np.hypot(pi_ - ri, pj_ - rj))
    run.setmax("worst_placement_error_px", dist)
    if not dist <= 1.5:
        V("placement", "reconstructed peak at (%.2f, %.2f), geometry predicts (%.2f, %.2f): %.2f px apart"
          % (pi_, pj_, ri, rj, dist))
    scale = float(np.abs(rec).max())
    # ---- linearity
    sx2, sy2 = -0.5 * sx + ystep, 0.3 * sy - ystep
    sino2 = build_sino(geometry, sx2, sy2, y0, ystep, ny, ymin, angles, amp=0.7)
    a, b = float(r.uniform(-2, 2)), float(r.uniform(-2, 2))
    rec2 = roi_iradon.run_iradon(sino2, angles, pad=int(pad), shift=float(shift), workers=1)
    rec12 = roi_iradon.run_iradon(a * sino + b * sino2, angles, pad=int(pad), shift=float(shift), workers=1)
    run.count("linearity_checks")
    if np.abs(rec12 - (a * rec + b * rec2)).max() > 1e-9 * (abs(a) + abs(b) + 1) * scale:
        V("linearity", "iradon(a A + b B) differs from a iradon(A) + b iradon(B) by %.3g (scale %.3g)"
          % (np.abs(rec12 - (a * rec + b * rec2)).max(), scale))
    # ---- workers
    for w in ([2, 3, 16] if idx % 3 else [4, 7, 8, 13]):
        for rep in range(2):
            rw = roi_iradon.run_iradon(sino, angles, pad=int(pad), shift=float(shift), workers=w)
            run.count("worker_runs")
            if rw.shape != rec.shape or np.abs(rw - rec).max() > 1e-9 * scale:
                V("workers", "reconstruction with %d workers differs from 1 worker by %.3g (scale %.3g)"
                  % (w, np.abs(rw - rec).max() if rw.shape == rec.shape else -1, scale))
                break
    # ---- ROI mask
    mask = r.random(rec.shape) < float(r.choice([0.05, 0.3, 0.8]))
    mask[int(round(ri)) % rec.shape[0], int(round(rj)) % rec.shape[1]] = True
    for w in (1, 5):
        rm = roi_iradon.run_iradon(sino, angles, pad=int(pad), shift=float(shift), workers=w, mask=mask)
        run.count("roi_runs")
        if np.abs(rm[mask] - rec[mask]).max() > 1e-9 * scale:
            V("roi:masked-pixels-differ", "restricting to an ROI mask changes the reconstructed values inside the mask by %.3g"
              % np.abs(rm[mask] - rec[mask]).max())
        if np.abs(rm[~mask]).max(initial=0) != 0:
            V("roi:outside-not-zero", "pixels outside the ROI mask are not zero")


def check(run, replay=None):
    from ImageD11.sinograms import geometry, roi_iradon
    from ImageD11.sinograms import point_by_point as pbp
    if replay is not None:
        cs = replay["case"]
        if cs["kind"] == "conversions":
            conversions(run, replay["seed"], cs["index"], geometry, pbp)
        else:
            reconstruction(run, replay["seed"], cs["index"], geometry, roi_iradon)
        run.nontrivial.update(["replay", "replay2"])
        return
    nc, nr = (120, 40) if run.tier == "quick" else (4000, 1500)
    for i in range(nc):
        conversions(run, run.seed, i, geometry, pbp)
    for i in range(nr):
        reconstruction(run, run.seed, i, geometry, roi_iradon)
    run.extra["workers_tested"] = [1, 2, 3, 4, 5, 7, 8, 13, 16]
    run.require_counter("conversion_samples", 5000)
    run.require_counter("reconstructions", 20)
    run.require_counter("worker_runs", 50)
