"""C19 - scanning geometry is self-consistent; reconstructions land where it predicts.

Oracle: inverse laws for every conversion pair, the ly = 0 law for the in-beam
dty value, predicted-peak localisation of a point-like grain reconstructed with
the module's own shift and pad, linearity of the filtered back-projection,
worker-count and ROI-mask differentials.
"""
import contextlib, io
import numpy as np
from ..common import rng

TECHNIQUE = ("runtime law monitor: conversion inverse laws and the ly=0 law on ImageD11.sinograms.geometry (incl. the sine fit as the "
             "inverse of dty_values_grain_in_beam and the covering/symmetry laws of step_grid_from_ybincens); placement oracle "
             "(point-grain sinogram built with the module's own dty convention -> run_iradon with sino_shift_and_pad -> peak within "
             "1.5 px of sample_to_recon); linearity, ThreadPool worker-count differential (1..16 and None = all cores, repeated) and ROI-mask "
             "differential; route differential run_iradon vs iradon vs GrainSinogram.recon")
LEVEL_TEXT = ("Exploration: random positions over the scanned disc in all quadrants, ystep 0.1..50, y0 within +-10 steps "
              "(fractional), sinogram heights odd/even 21..201, 0-180 and 0-360 scans, pads from the module, random ROI masks, workers "
              "1..16 with repetitions; 5,000+ conversion samples per run. Variant cases (heights 9..41): angle sets starting at -180, "
              "offset by half a bin, stored in shuffled order, non-uniform, or fewer than the workers; every filter name; module pad "
              "plus 0..20; iradon called directly (no / 2-D projection shifts, output_size None, nearest / cubic interpolation); "
              "half-mask; all-true, all-false and one-pixel ROI masks; float32 sinograms; positions out to 0.98 of the scanned radius.")
LEVEL_NOTE = ("Peak located at the arg-max refined by the 3x3 intensity centroid; ThreadPool scheduling is whatever the OS gives "
              "(no schedule control); worker differential tolerance 1e-9 relative because the summation order over angles changes. "
              "The 1.5 px placement is demanded only where the statement promises it (linear interpolation, the module's shift, a pad "
              "at least the module's, angle sets that cover the half or full turn evenly); other variants are held to linearity, "
              "worker- and ROI-independence only. fit_sample_position_from_recon (a blob detector with an absolute threshold) and "
              "mask_central_zingers (a median fill, not linear) are outside the statement; PBPRefine.setmask needs a full refinement "
              "object and is not driven; integer sinograms are not fed (iradon allocates the output in the sinogram's dtype).")

RULE = ("a case = (ystep, y0 offset, sinogram height, scan range, position) reconstruction or a batch of conversion samples; "
        "non-trivial = y0 offset != 0 or position off-axis; distinct = rounded parameters")


def close(a, b, scale, tol=1e-9):
    return bool(np.all(np.abs(np.asarray(a, float) - np.asarray(b, float)) <= tol * scale))


def conversions(run, seed, idx, geometry, pbp):
    r = rng(seed, "C19", "conv", idx)
    n = 50
    ystep = float(10 ** r.uniform(-1, np.log10(50)))
    y0 = float(r.uniform(-10, 10) * ystep)
    shape = (int(r.integers(20, 202)), int(r.integers(20, 202)))
    if idx % 3 == 0:
        shape = (shape[0], shape[0])
    sx, sy = r.uniform(-100 * ystep, 100 * ystep, (2, n))
    om = r.uniform(-720, 720, n)
    om[:5] = [0, 90, 180, 270, -90]
    dty = r.uniform(-100 * ystep, 100 * ystep, n)
    scale = 200 * ystep + abs(y0) + 1
    desc = dict(index=idx, kind="conversions", ystep=ystep, y0=y0, recon_shape=shape)
    run.case(("conv", round(ystep, 4), round(y0, 4), shape), nontrivial=True, sample=desc if idx < 2 else None)

    def V(key, what):
        run.violation(key, what, desc)
    run.count("conversion_samples", n)
    so, co = np.sin(np.radians(om)), np.cos(np.radians(om))
    lx, ly = geometry.sample_to_lab(sx, sy, y0, dty, om)
    if not close(geometry.lab_to_sample(lx, ly, y0, dty, om), (sx, sy), scale):
        V("inverse:sample-lab", "lab_to_sample(sample_to_lab(x)) != x")
    lx2, ly2 = geometry.sample_to_lab_sincos(sx, sy, y0, dty, so, co)
    if not close((lx2, ly2), (lx, ly), scale) or \
            not close(geometry.lab_to_sample_sincos(lx, ly, y0, dty, so, co), (sx, sy), scale):
        V("inverse:sample-lab-sincos", "sincos variants disagree with the degree variants or are not inverse")
    # rigid: distances preserved, rotation axis maps to (0, dty - y0)
    if not close(np.hypot(lx, ly - dty + y0), np.hypot(sx, sy), scale):
        V("sample_to_lab:not-rigid", "sample_to_lab does not preserve the distance to the rotation axis")
    si, sj = geometry.sample_to_step(sx, sy, ystep)
    if not close(geometry.step_to_sample(si, sj, ystep), (sx, sy), scale):
        V("inverse:sample-step", "step_to_sample(sample_to_step(x)) != x")
    ri, rj = geometry.step_to_recon(si, sj, shape)
    if not close(geometry.recon_to_step(ri, rj, shape), (si, sj), scale / ystep):
        V("inverse:step-recon", "recon_to_step(step_to_recon(x)) != x")
    if not close(geometry.sample_to_recon(sx, sy, shape, ystep), (ri, rj), scale / ystep) or \
            not close(geometry.recon_to_sample(ri, rj, shape, ystep), (sx, sy), scale):
        V("inverse:sample-recon", "sample<->recon conversions inconsistent")
    a, b = geometry.lab_to_step(lx, ly, y0, dty, om, ystep)
    if not close((a, b), (si, sj), scale / ystep) or not close(geometry.step_to_lab(si, sj, y0, dty, om, ystep), (lx, ly), scale):
        V("inverse:lab-step", "lab<->step conversions inconsistent")
    a, b = geometry.lab_to_recon(lx, ly, y0, dty, om, shape, ystep)
    if not close((a, b), (ri, rj), scale / ystep) or \
            not close(geometry.recon_to_lab(ri, rj, y0, dty, om, shape, ystep), (lx, ly), scale):
        V("inverse:lab-recon", "lab<->recon conversions inconsistent")
    # the rotation axis is at the centre pixel of the reconstruction
    c = geometry.sample_to_recon(0.0, 0.0, shape, ystep)
    if not close(c, (shape[0] // 2, shape[1] // 2), 1.0, 1e-12):
        V("recon:centre", "rotation axis maps to %r, expected %r" % (c, (shape[0] // 2, shape[1] // 2)))
    # ---- ly = 0 law
    d_in = geometry.dty_values_grain_in_beam(sx, sy, y0, om)
    _, ly0 = geometry.sample_to_lab(sx, sy, y0, d_in, om)
    run.count("inbeam_law_samples", n)
    if not close(ly0, 0.0, scale):
        V("inbeam:ly-not-zero", "at the dty from dty_values_grain_in_beam the lab y is %.3g, not 0" % np.abs(ly0).max())
    if not close(geometry.dty_values_grain_in_beam_sincos(sx, sy, y0, so, co), d_in, scale) or \
            not close(geometry.x_y_y0_omega_to_dty(om, sx, sy, y0), d_in, scale) or \
            not close(geometry.step_omega_to_dty(si, sj, om, y0, ystep), d_in, scale) or \
            not close(geometry.recon_omega_to_dty(ri, rj, om, y0, shape, ystep), d_in, scale):
        V("inbeam:variants", "in-beam dty variants (sincos/step/recon) disagree")
    # ---- discretisation and masks
    ymin = float(-60 * ystep + r.uniform(-1, 1) * ystep)
    frac = (d_in - ymin) / ystep
    safe = np.abs(frac - np.floor(frac) - 0.5) > 1e-6
    want_i = np.floor(frac + 0.5).astype(int)
    got_i = geometry.dty_to_dtyi(d_in, ystep, ymin)
    if not np.array_equal(got_i[safe], want_i[safe]):
        V("dty_to_dtyi", "dty_to_dtyi is not the nearest step")
    if not close(geometry.dtyi_to_dty(got_i, ystep, ymin), ymin + got_i * ystep, scale):
        V("dtyi_to_dty", "dtyi_to_dty is not ymin + i*ystep")
    for name, got in (("step_omega_to_dtyi", geometry.step_omega_to_dtyi(si, sj, om, y0, ystep, ymin)),
                      ("recon_omega_to_dtyi", geometry.recon_omega_to_dtyi(ri, rj, om, y0, shape, ystep, ymin))):
        # round trips through step space may move a value across a rounding boundary only if it was within 1e-6
        if not np.array_equal(np.asarray(got)[safe], want_i[safe]):
            V("dtyi:" + name, "%s differs from rounding the in-beam dty" % name)
    k = int(r.integers(n))
    dtyi_obs = want_i[k] + r.integers(-1, 2, n)
    dtyi_obs[::3] = geometry.dty_to_dtyi(geometry.dty_values_grain_in_beam(sx[k], sy[k], y0, om), ystep, ymin)[::3]
    d_k = geometry.dty_values_grain_in_beam(sx[k], sy[k], y0, om)
    fr_k = (d_k - ymin) / ystep
    safe_k = np.abs(fr_k - np.floor(fr_k) - 0.5) > 1e-6
    want_mask = np.floor(fr_k + 0.5).astype(int) == dtyi_obs
    masks = {
        "dtyimask_from_sample": geometry.dtyimask_from_sample(sx[k], sy[k], om, dtyi_obs, y0, ystep, ymin),
        "dtyimask_from_sample_sincos": geometry.dtyimask_from_sample_sincos(sx[k], sy[k], so, co, dtyi_obs, y0, ystep, ymin),
        "dtyimask_from_step": geometry.dtyimask_from_step(si[k], sj[k], om, dtyi_obs, y0, ystep, ymin),
        "dtyimask_from_step_sincos": geometry.dtyimask_from_step_sincos(si[k], sj[k], so, co, dtyi_obs, y0, ystep, ymin),
        "dtyimask_from_recon": geometry.dtyimask_from_recon(ri[k], rj[k], om, dtyi_obs, y0, ystep, ymin, shape),
        "dtyimask_from_recon_sincos": geometry.dtyimask_from_recon_sincos(ri[k], rj[k], so, co, dtyi_obs, y0, ystep, ymin, shape),
    }
    run.count("mask_samples", 6 * n)
    for name, m in masks.items():
        if not np.array_equal(np.asarray(m)[safe_k], want_mask[safe_k]):
            V("dtyimask:" + name, "%s disagrees with the in-beam law after rounding" % name)
    # ---- one omega buffer re-used and changed in place between calls (second half-turn of a 360 degree scan, a loop
    #      over scans filling one array): every function taking angles must use the values the array holds NOW
    ob = om.copy()
    for rep in range(3):
        sb, cb = np.sin(np.radians(ob)), np.cos(np.radians(ob))
        d_b = geometry.dty_values_grain_in_beam(sx, sy, y0, ob)
        _, ly_b = geometry.sample_to_lab_sincos(sx, sy, y0, d_b, sb, cb)
        ok = close(ly_b, 0.0, scale)
        ok = ok and close(geometry.x_y_y0_omega_to_dty(ob, sx, sy, y0), d_b, scale)
        ok = ok and close(geometry.step_omega_to_dty(si, sj, ob, y0, ystep), d_b, scale)
        ok = ok and close(geometry.recon_omega_to_dty(ri, rj, ob, y0, shape, ystep), d_b, scale)
        ok = ok and close(geometry.sample_to_lab(sx, sy, y0, dty, ob), geometry.sample_to_lab_sincos(sx, sy, y0, dty, sb, cb), scale)
        ok = ok and close(geometry.lab_to_sample(lx, ly, y0, dty, ob), geometry.lab_to_sample_sincos(lx, ly, y0, dty, sb, cb), scale)
        mk_a = geometry.dtyimask_from_sample(sx[k], sy[k], ob, dtyi_obs, y0, ystep, ymin)
        mk_b = geometry.dtyimask_from_sample_sincos(sx[k], sy[k], sb, cb, dtyi_obs, y0, ystep, ymin)
        fr_b = (geometry.dty_values_grain_in_beam_sincos(sx[k], sy[k], y0, sb, cb) - ymin) / ystep
        sf_b = np.abs(fr_b - np.floor(fr_b) - 0.5) > 1e-6
        ok = ok and np.array_equal(np.asarray(mk_a)[sf_b], np.asarray(mk_b)[sf_b])
        run.count("reused_angle_buffer_calls")
        if not ok:
            V("angles:stale-after-in-place-change", "after the omega array was changed in place (step %d) a function taking angles "
              "in degrees disagrees with its sin/cos variant / the in-beam law for the new angles" % rep)
            break
        if rep == 0:
            ob += 180.0
        else:
            ob[:] = r.uniform(-720, 720, n)
    # numba voxel selection used by point-by-point refinement
    xi0, yi0 = float(sx[k]), float(sy[k])
    idxs, ydist = pbp.get_voxel_idx(y0, xi0, yi0, so, co, dty, ystep)
    want_d = np.abs(d_k - dty)
    sel = want_d <= ystep
    edge = np.abs(want_d - ystep) < 1e-9 * scale
    if not close(ydist, want_d, scale) or not np.array_equal(np.isin(np.arange(n), idxs)[~edge], sel[~edge]):
        V("pbp:get_voxel_idx", "numba get_voxel_idx disagrees with the in-beam law")


def geometry_extras(run, seed, idx, geometry):
    """the sine fit (inverse of the in-beam law) and the point-by-point step grid"""
    r = rng(seed, "C19", "geomx", idx)
    ystep = float(10 ** r.uniform(-1, np.log10(50)))
    y0 = float(r.uniform(-10, 10) * ystep)
    sx, sy = (float(v) for v in r.uniform(-100 * ystep, 100 * ystep, 2))
    desc = dict(index=idx, kind="geometry-extras", ystep=ystep, y0=y0, sx=sx, sy=sy)
    run.case(("geomx", round(ystep, 4), round(y0, 4), round(sx, 3)), nontrivial=True, sample=desc if idx < 1 else None)

    def V(key, what):
        run.violation(key, what, desc)
    # ---- sine fit: exact in-beam dty values of one point give that point (and y0) back.  The model is linear in (sx, sy, y0),
    # scipy's trf stops at relative step / cost changes of 1e-8: 1e-5 of the scale leaves three decades, any sign or
    # half-step convention error is >= 0.5 ystep
    kind = ["0-180", "0-360", "-180-180", "random"][int(r.integers(4))]
    om = {"0-180": np.arange(0, 180, 2.0), "0-360": np.arange(0, 360, 5.0), "-180-180": np.arange(-180, 180, 3.0) + 0.25,
          "random": np.sort(r.uniform(-360, 360, 40))}[kind]
    dty = geometry.dty_values_grain_in_beam(sx, sy, y0, om)
    scale = abs(sx) + abs(sy) + abs(y0) + ystep
    try:
        fx, fy, f0 = geometry.fit_sine_wave(om, dty, (sx + ystep * float(r.uniform(-3, 3)), sy + ystep * float(r.uniform(-3, 3)),
                                                       y0 + ystep * float(r.uniform(-3, 3))))
        gx, gy, g0 = geometry.sx_sy_y0_from_dty_omega(dty, om)
    except Exception as e:
        V("sinefit:exception", "sine fit raised %s: %s" % (type(e).__name__, e))
    else:
        run.count("sine_fits_checked", 2)
        if not close((fx, fy, f0), (sx, sy, y0), scale, 1e-5):
            V("sinefit:fit_sine_wave", "fit_sine_wave on exact in-beam values gives (%.6g, %.6g, %.6g), the point is (%.6g, %.6g, %.6g)"
              % (fx, fy, f0, sx, sy, y0))
        if not close((gx, gy, g0), (sx, sy, y0), scale, 1e-5):
            V("sinefit:sx_sy_y0_from_dty_omega", "sx_sy_y0_from_dty_omega on exact in-beam values gives (%.6g, %.6g, %.6g), the point "
              "is (%.6g, %.6g, %.6g)" % (gx, gy, g0, sx, sy, y0))
    # ---- step grid for point-by-point maps
    ny = int(r.integers(5, 60))
    ymin = -ystep * (ny // 2) + float(r.uniform(-3, 3)) * ystep
    ybin = ymin + np.arange(ny) * ystep
    y0g = float(ybin.mean() + r.uniform(-10, 10) * ystep) if idx % 3 else float(ybin.mean())
    gridstep = int(r.choice([1, 1, 2, 3, 5]))
    pts = geometry.step_grid_from_ybincens(ybin, ystep, gridstep, y0g)
    run.count("step_grids_checked")
    ints = sorted(set(p_[0] for p_ in pts))
    L = float(np.abs(ybin - y0g).max()) / ystep        # farthest scanned position from the axis, in steps
    if sorted(pts) != sorted((a, b) for a in ints for b in ints) or len(pts) != len(ints) ** 2:
        V("stepgrid:not-square", "step grid is not the full square product of its axis values")
    elif len(ints) > 1 and set(np.diff(ints).tolist()) != {gridstep}:
        V("stepgrid:spacing", "step grid spacing is not gridstep=%d" % gridstep)
    elif ints[0] > -L + 1e-9 * (L + 1) or ints[0] <= -L - 1 - 1e-9 * (L + 1):
        V("stepgrid:start", "step grid starts at %d, farthest scanned position is %.3f steps from the axis" % (ints[0], L))
    elif ints[-1] + gridstep <= L - 1e-9 * (L + 1):
        V("stepgrid:does-not-cover", "step grid ends at %d (spacing %d), scanned positions reach %.3f steps from the axis"
          % (ints[-1], gridstep, L))
    elif gridstep == 1 and (ints[0] != -ints[-1] or (0, 0) not in pts):
        V("stepgrid:not-symmetric", "step grid with gridstep 1 is not symmetric about the rotation axis (%d..%d)" % (ints[0], ints[-1]))
    else:
        # the grid is in step units about the axis: its outermost point converts to a sample position at least as far as
        # the farthest scanned position (gridstep 1)
        ex, ey = geometry.step_to_sample(ints[0], ints[0], ystep)
        if gridstep == 1 and min(abs(ex), abs(ey)) < L * ystep * (1 - 1e-9):
            V("stepgrid:step-units", "outermost grid point converts to (%.4g, %.4g), scanned positions reach %.4g" % (ex, ey, L * ystep))


def build_sino(geometry, sx, sy, y0, ystep, ny, ymin, angles, amp=1.0):
    sino = np.zeros((ny, len(angles)))
    dty = geometry.dty_values_grain_in_beam(sx, sy, y0, angles)
    row = (dty - ymin) / ystep
    lo = np.floor(row).astype(int)
    f = row - lo
    for k in range(len(angles)):
        if 0 <= lo[k] < ny:
            sino[lo[k], k] += amp * (1 - f[k])
        if 0 <= lo[k] + 1 < ny:
            sino[lo[k] + 1, k] += amp * f[k]
    return sino


def peak_position(rec):
    i, j = np.unravel_index(np.argmax(rec), rec.shape)
    i0, i1 = max(0, i - 1), min(rec.shape[0], i + 2)
    j0, j1 = max(0, j - 1), min(rec.shape[1], j + 2)
    w = np.clip(rec[i0:i1, j0:j1], 0, None)
    ii, jj = np.mgrid[i0:i1, j0:j1]
    return float((ii * w).sum() / w.sum()), float((jj * w).sum() / w.sum())


def reconstruction(run, seed, idx, geometry, roi_iradon):
    r = rng(seed, "C19", "rec", idx)
    ystep = float(r.choice([0.1, 0.5, 1.0, 2.5, 10.0, 50.0]))
    ny = int([21, 40, 41, 60, 101, 128, 201][idx % 7])
    if run.tier == "quick" and ny > 101:
        ny = 80 + idx % 2
    ymin = -ystep * (ny // 2) + float(r.uniform(-3, 3)) * ystep
    y0off = float(r.uniform(-10, 10)) if idx % 4 else 0.0
    y0off = float(np.clip(y0off, -ny / 5.0, ny / 5.0))
    y0 = ymin + ystep * (ny / 2.0) + y0off * ystep
    full = bool(idx % 2)
    angles = np.arange(0, 360 if full else 180, 1.0 if ny < 120 else 0.5)
    # position inside the scanned disc: every projection stays on the sinogram
    Rmax = (ny / 2.0 - abs(y0off) - 2) * ystep
    rad = float(r.uniform(0, max(0.5 * ystep, 0.9 * Rmax)))
    phi = float(r.uniform(0, 2 * np.pi))
    # a 0-360 scan with the axis off the middle also sees, from one side, the ring between ny/2 - |offset| and
    # ny/2 + |offset| steps from the axis (this is what the pad is for): half of such scans place the grain there
    ro = rng(seed, "C19", "rec-outer", idx)
    outer = bool(full and abs(y0off) >= 3 and ro.random() < 0.5)
    if outer:
        rad = float(ro.uniform(ny / 2.0 - abs(y0off) + 1, ny / 2.0 + abs(y0off) - 3)) * ystep
        run.count("reconstructions_grain_in_outer_ring")
    sx, sy = rad * np.cos(phi), rad * np.sin(phi)
    desc = dict(index=idx, kind="reconstruction", ystep=ystep, ny=ny, y0_offset_steps=y0off, full=full,
                sx=sx, sy=sy, ymin=ymin, outer_ring=outer)
    run.case(("rec", ystep, ny, round(y0off, 3), full, round(rad / ystep, 2), round(phi, 2)),
             nontrivial=(y0off != 0 or rad > ystep), sample=desc if idx < 3 else None)

    def V(key, what):
        run.violation(key, what, desc)
    sino = build_sino(geometry, sx, sy, y0, ystep, ny, ymin, angles)
    shift, pad = geometry.sino_shift_and_pad(y0, ny, ymin, ystep)
    try:
        rec = roi_iradon.run_iradon(sino, angles, pad=int(pad), shift=float(shift), workers=1)
    except Exception as e:
        V("recon:exception", "run_iradon with the module's own shift %r and pad %r raised %s: %s" % (shift, pad, type(e).__name__, e))
        return
    run.count("reconstructions")
    if rec.shape != (ny + int(pad), ny + int(pad)):
        V("recon:shape", "reconstruction shape %r, expected %d+%d" % (rec.shape, ny, pad))
        return
    pi_, pj_ = peak_position(rec)
    ri, rj = geometry.sample_to_recon(sx, sy, rec.shape, ystep)
    dist = float(np.hypot(pi_ - ri, pj_ - rj))
    run.setmax("worst_placement_error_px", dist)
    if not dist <= 1.5:
        V("placement", "reconstructed peak at (%.2f, %.2f), geometry predicts (%.2f, %.2f): %.2f px apart"
          % (pi_, pj_, ri, rj, dist))
    scale = float(np.abs(rec).max())
    # ---- linearity
    sx2, sy2 = -0.5 * sx + ystep, 0.3 * sy - ystep
    sino2 = build_sino(geometry, sx2, sy2, y0, ystep, ny, ymin, angles, amp=0.7)
    a, b = float(r.uniform(-2, 2)), float(r.uniform(-2, 2))
    rec2 = roi_iradon.run_iradon(sino2, angles, pad=int(pad), shift=float(shift), workers=1)
    rec12 = roi_iradon.run_iradon(a * sino + b * sino2, angles, pad=int(pad), shift=float(shift), workers=1)
    run.count("linearity_checks")
    if np.abs(rec12 - (a * rec + b * rec2)).max() > 1e-9 * (abs(a) + abs(b) + 1) * scale:
        V("linearity", "iradon(a A + b B) differs from a iradon(A) + b iradon(B) by %.3g (scale %.3g)"
          % (np.abs(rec12 - (a * rec + b * rec2)).max(), scale))
    # ---- workers
    for w in ([2, 3, 16] if idx % 3 else [4, 7, 8, 13]):
        for rep in range(2):
            rw = roi_iradon.run_iradon(sino, angles, pad=int(pad), shift=float(shift), workers=w)
            run.count("worker_runs")
            if rw.shape != rec.shape or np.abs(rw - rec).max() > 1e-9 * scale:
                V("workers", "reconstruction with %d workers differs from 1 worker by %.3g (scale %.3g)"
                  % (w, np.abs(rw - rec).max() if rw.shape == rec.shape else -1, scale))
                break
    # ---- ROI mask
    mask = r.random(rec.shape) < float(r.choice([0.05, 0.3, 0.8]))
    mask[int(round(ri)) % rec.shape[0], int(round(rj)) % rec.shape[1]] = True
    for w in (1, 5):
        rm = roi_iradon.run_iradon(sino, angles, pad=int(pad), shift=float(shift), workers=w, mask=mask)
        run.count("roi_runs")
        if np.abs(rm[mask] - rec[mask]).max() > 1e-9 * scale:
            V("roi:masked-pixels-differ", "restricting to an ROI mask changes the reconstructed values inside the mask by %.3g"
              % np.abs(rm[mask] - rec[mask]).max())
        if np.abs(rm[~mask]).max(initial=0) != 0:
            V("roi:outside-not-zero", "pixels outside the ROI mask are not zero")


_GS = {}


def _grain_sinogram():
    """a GrainSinogram on an empty DataSet: only its reconstruction dispatch is used"""
    if "gs" not in _GS:
        import ImageD11.grain
        import ImageD11.sinograms.dataset as dsm
        import ImageD11.sinograms.sinogram as sgm
        with contextlib.redirect_stdout(io.StringIO()):
            _GS["gs"] = sgm.GrainSinogram(ImageD11.grain.grain(np.eye(3) * 3.0, translation=np.zeros(3)), dsm.DataSet())
    return _GS["gs"]


FILTERS = ["ramp", "shepp-logan", "cosine", "hamming", "hann", None]


def variants(run, seed, idx, geometry, roi_iradon):
    r = rng(seed, "C19", "var", idx)
    ystep = float(r.choice([0.1, 1.0, 2.5, 50.0]))
    ny = int(r.choice([9, 16, 21, 33, 40, 41]))
    centred = bool(idx % 5 == 0)              # shift exactly 0: projection_shifts=None must be the same thing
    ymin = -ystep * (ny / 2.0) if centred else -ystep * (ny // 2) + float(r.uniform(-3, 3)) * ystep
    y0off = 0.0 if centred else float(np.clip(r.uniform(-10, 10), -ny / 5.0, ny / 5.0))
    y0 = ymin + ystep * (ny / 2.0) + y0off * ystep
    akind = ["0-180", "-180-180", "half-bin", "shuffled", "non-uniform", "few"][idx % 6]
    if akind == "0-180":
        angles = np.arange(0, 180, 1.0)
    elif akind == "-180-180":
        angles = np.arange(-180, 180, 2.0)
    elif akind == "half-bin":
        angles = np.arange(0, 180, 1.0) + 0.5
    elif akind == "shuffled":
        angles = r.permutation(np.arange(0, 360, 2.0))
    elif akind == "non-uniform":
        angles = np.sort(r.uniform(-90, 270, 120))
    else:
        angles = np.sort(r.uniform(0, 180, int(r.integers(1, 4))))
    even_cover = akind in ("0-180", "-180-180", "half-bin", "shuffled")
    Rmax = (ny / 2.0 - abs(y0off) - 2) * ystep
    rad = float(r.uniform(0.5, 0.98)) * max(Rmax, 0.5 * ystep)
    phi = float(r.uniform(0, 2 * np.pi))
    sx, sy = rad * np.cos(phi), rad * np.sin(phi)
    filt = FILTERS[int(r.integers(len(FILTERS)))]
    extra_pad = int(r.choice([0, 0, 1, 2, 7, 20]))
    desc = dict(index=idx, kind="variants", ystep=ystep, ny=ny, y0_offset_steps=y0off, angles=akind, filter=filt,
                extra_pad=extra_pad, sx=sx, sy=sy, ymin=ymin)
    run.case(("var", ystep, ny, round(y0off, 3), akind, filt, extra_pad, round(phi, 2)), nontrivial=True,
             sample=desc if idx < 2 else None)
    run.count("variant_angles_" + akind)
    run.count("variant_filter_%s" % filt)

    def V(key, what):
        run.violation(key, what, desc)
    sino = build_sino(geometry, sx, sy, y0, ystep, ny, ymin, angles)
    sino2 = build_sino(geometry, -0.4 * sx + ystep, 0.6 * sy - ystep, y0, ystep, ny, ymin, angles, amp=0.7)
    shift, pad = geometry.sino_shift_and_pad(y0, ny, ymin, ystep)
    shift, pad = float(shift), int(pad) + extra_pad
    if centred and shift != 0.0:
        run.inconc("variant %d: centred case has shift %r" % (idx, shift))
        return
    kw = dict(pad=pad, shift=shift, filter_name=filt)
    try:
        rec = roi_iradon.run_iradon(sino, angles, workers=1, **kw)
        run.count("variant_reconstructions")
        if rec.shape != (ny + pad, ny + pad) or not np.isfinite(rec).all():
            V("variant:shape-or-nan", "reconstruction shape %r (expected %d) or non-finite values" % (rec.shape, ny + pad))
            return
        scale = float(np.abs(rec).max())
        tol = 1e-9 * scale
        ri, rj = geometry.sample_to_recon(sx, sy, rec.shape, ystep)
        if even_cover:
            # ---- placement, as promised: module shift, pad >= module pad, linear interpolation, any filter
            pi_, pj_ = peak_position(rec)
            dist = float(np.hypot(pi_ - ri, pj_ - rj))
            run.setmax("worst_variant_placement_error_px", dist)
            run.count("variant_placements_checked")
            if not dist <= 1.5:
                V("variant:placement", "angles %s, filter %s, pad %d: peak at (%.2f, %.2f), geometry predicts (%.2f, %.2f): %.2f px apart"
                  % (akind, filt, pad, pi_, pj_, ri, rj, dist))
        # ---- linearity (with the half-mask too: it is a fixed weighting of the rows)
        a, b = float(r.uniform(-2, 2)), float(r.uniform(-2, 2))
        for hm in (False, True):
            k2 = dict(kw, apply_halfmask=hm)
            r1 = rec if not hm else roi_iradon.run_iradon(sino, angles, workers=1, **k2)
            r2 = roi_iradon.run_iradon(sino2, angles, workers=1, **k2)
            r12 = roi_iradon.run_iradon(a * sino + b * sino2, angles, workers=1, **k2)
            run.count("variant_linearity_checks")
            lim = 1e-9 * (abs(a) + abs(b) + 1) * max(scale, float(np.abs(r2).max()))
            if np.abs(r12 - (a * r1 + b * r2)).max() > lim:
                V("variant:linearity" + (":halfmask" if hm else ""), "iradon(a A + b B) differs from a iradon(A) + b iradon(B) by %.3g "
                  "(scale %.3g; angles %s, filter %s)" % (np.abs(r12 - (a * r1 + b * r2)).max(), scale, akind, filt))
            if hm:
                for w in (3, 16):
                    rw = roi_iradon.run_iradon(sino, angles, workers=w, **k2)
                    if np.abs(rw - r1).max() > tol:
                        V("variant:workers:halfmask", "half-masked reconstruction with %d workers differs from 1 worker" % w)
        # ---- workers, including 'as many as there are cores' and more workers than angles
        # (workers=0 is outside the statement's 1..16: scipy.fft refuses it before iradon's own "workers < 1" fallback is reached)
        for w in (2, 5, 16, None):
            rw = roi_iradon.run_iradon(sino, angles, workers=w, **kw)
            run.count("variant_worker_runs")
            if rw.shape != rec.shape or np.abs(rw - rec).max() > tol:
                V("variant:workers", "reconstruction with workers=%r differs from 1 worker by %.3g (scale %.3g; %d angles)"
                  % (w, np.abs(rw - rec).max() if rw.shape == rec.shape else -1, scale, len(angles)))
                break
        # ---- ROI masks: everything, nothing, one pixel, random; several worker counts
        pix = np.zeros(rec.shape, bool)
        pix[int(round(ri)) % rec.shape[0], int(round(rj)) % rec.shape[1]] = True
        rnd = r.random(rec.shape) < 0.3
        for mname, mask in (("all", np.ones(rec.shape, bool)), ("none", np.zeros(rec.shape, bool)), ("pixel", pix), ("random", rnd)):
            for w in (1, 2, 7, 16):
                rm = roi_iradon.run_iradon(sino, angles, workers=w, mask=mask, **kw)
                run.count("variant_roi_runs")
                if rm.shape != rec.shape or np.abs(rm[mask] - rec[mask]).max(initial=0) > tol:
                    V("variant:roi:masked-pixels-differ", "ROI mask '%s', %d workers: values inside the mask differ from the full "
                      "reconstruction by %.3g" % (mname, w, np.abs(rm[mask] - rec[mask]).max(initial=0) if rm.shape == rec.shape else -1))
                    break
                if np.abs(rm[~mask]).max(initial=0) != 0:
                    V("variant:roi:outside-not-zero", "ROI mask '%s': pixels outside the mask are not zero" % mname)
                    break
        # ---- routes: iradon called directly is what run_iradon computes
        direct = roi_iradon.iradon(sino, theta=angles, output_size=ny + pad, projection_shifts=np.full(sino.shape, shift),
                                   filter_name=filt, interpolation="linear", workers=1)
        run.count("variant_route_checks")
        if not np.array_equal(direct, rec):
            V("variant:route:iradon-vs-run_iradon", "iradon(..., projection_shifts=full(shift)) differs from run_iradon")
        if centred:
            none = roi_iradon.iradon(sino, theta=angles, output_size=ny + pad, projection_shifts=None, filter_name=filt, workers=1)
            run.count("variant_noshift_checks")
            if np.abs(none - rec).max() > tol:
                V("variant:route:no-shift", "projection_shifts=None differs from a zero shift by %.3g" % np.abs(none - rec).max())
        # other interpolations and the default output size are not reachable through run_iradon: linear / schedule laws only
        for interp, osz in (("nearest", ny + pad), ("cubic", ny + pad), ("linear", None)):
            k3 = dict(theta=angles, output_size=osz, projection_shifts=np.full(sino.shape, shift), filter_name=filt, interpolation=interp)
            q1 = roi_iradon.iradon(sino, workers=1, **k3)
            q2 = roi_iradon.iradon(sino2, workers=1, **k3)
            q12 = roi_iradon.iradon(a * sino + b * sino2, workers=1, **k3)
            q1w = roi_iradon.iradon(sino, workers=4, **k3)
            run.count("variant_interpolation_checks")
            qs = max(float(np.abs(q1).max()), float(np.abs(q2).max()), 1e-300)
            if q1.shape != ((osz or ny),) * 2 or np.abs(q12 - (a * q1 + b * q2)).max() > 1e-9 * (abs(a) + abs(b) + 1) * qs:
                V("variant:linearity:" + interp, "iradon(interpolation=%s, output_size=%r) is not linear in the sinogram" % (interp, osz))
            if np.abs(q1w - q1).max() > 1e-9 * qs:
                V("variant:workers:" + interp, "iradon(interpolation=%s, output_size=%r) depends on the worker count" % (interp, osz))
        # ---- float32 sinogram: result stays float32 and the peak stays where it belongs
        r32 = roi_iradon.run_iradon(sino.astype(np.float32), angles, workers=1, **kw)
        run.count("variant_float32_runs")
        if r32.dtype != np.float32 or r32.shape != rec.shape or not np.isfinite(r32).all():
            V("variant:float32", "float32 sinogram gives dtype %s shape %r" % (r32.dtype, r32.shape))
        elif even_cover:
            pi_, pj_ = peak_position(r32.astype(float))
            if not float(np.hypot(pi_ - ri, pj_ - rj)) <= 1.5:
                V("variant:float32:placement", "float32 sinogram: peak %.2f px from the predicted position" % np.hypot(pi_ - ri, pj_ - rj))
        # ---- the consumer: GrainSinogram.recon dispatches to the same function with its stored pad / shift / mask
        if idx % 2 == 0:
            gs = _grain_sinogram()
            gs.ssino, gs.sinoangles = sino, angles
            gs.recon_mask = None
            gs.update_recon_parameters(pad=pad, shift=shift)
            with contextlib.redirect_stdout(io.StringIO()):
                g1 = gs.recon(method="iradon", workers=1, filter_name=filt)
                sel = r.random(len(angles)) < 0.6
                sel[int(r.integers(len(angles)))] = True
                g2 = gs.recon(method="iradon", workers=1, projections=sel, filter_name=filt)
                gs.update_recon_parameters(mask=rnd)
                g3 = gs.recon(method="iradon", workers=3, filter_name=filt)
            run.count("grainsinogram_recon_checks")
            if not np.array_equal(g1, rec) or gs.recons.get("iradon") is not g3:
                V("variant:GrainSinogram.recon", "GrainSinogram.recon differs from run_iradon with the stored pad and shift")
            want2 = roi_iradon.run_iradon(sino[:, sel], angles[sel], workers=1, **kw)
            if g2.shape != want2.shape or not np.array_equal(g2, want2):
                V("variant:GrainSinogram.recon:projections", "GrainSinogram.recon(projections=subset) differs from run_iradon on that subset")
            if g3.shape != rec.shape or np.abs(g3[rnd] - rec[rnd]).max(initial=0) > tol or np.abs(g3[~rnd]).max(initial=0) != 0:
                V("variant:GrainSinogram.recon:mask", "GrainSinogram.recon with a stored mask differs from the full reconstruction inside it")
    except Exception as e:
        import traceback
        V("variant:exception:%s" % type(e).__name__, "variant raised %s: %s [%s]" % (type(e).__name__, e,
                                                                                   traceback.format_exc().strip().splitlines()[-3].strip()))


def ref_fourier_filter(size, name):
    """the reconstruction filters (Kak & Slaney ch. 3 eq. 61 ramp, windows as in skimage), written out independently"""
    n = np.concatenate((np.arange(1, size // 2 + 1, 2), np.arange(size // 2 - 1, 0, -2)))
    f = np.zeros(size)
    f[0] = 0.25
    f[1::2] = -1.0 / (np.pi * n) ** 2
    ramp = 2 * np.real(np.fft.fft(f))
    if name == "ramp":
        return ramp
    if name == "shepp-logan":
        om = np.pi * np.fft.fftfreq(size)
        w = np.ones(size)
        w[1:] = np.sin(om[1:]) / om[1:]
        return ramp * w
    if name == "cosine":
        return ramp * np.fft.fftshift(np.sin(np.linspace(0, np.pi, size, endpoint=False)))
    if name == "hamming":
        return ramp * np.fft.fftshift(np.hamming(size))
    if name == "hann":
        return ramp * np.fft.fftshift(np.hanning(size))
    raise ValueError(name)


def filter_history(run, seed, idx, roi_iradon):
    """One process reconstructs many grains with different filters, in any order.  Oracle: filtered back-projection
    with filter X of a sinogram equals UNFILTERED back-projection (filter_name=None) of the sinogram the harness
    filtered itself (same zero padding, independent filter formula) - whatever was reconstructed before."""
    r = rng(seed, "C19", "filters", idx)
    sizes = [int(v) for v in r.choice([9, 16, 21, 33, 40], 2, replace=False)]
    theta = np.arange(0.0, 180.0, float(r.choice([2.0, 3.0, 7.5])))
    order = [FILTERS[i] for i in r.permutation(len(FILTERS))] + [FILTERS[i] for i in r.permutation(len(FILTERS))]
    desc = dict(index=idx, kind="filter-history", sizes=sizes, order=[str(f) for f in order])
    run.case(("filter-history", tuple(sizes), tuple(str(f) for f in order)), nontrivial=True, sample=desc if idx < 2 else None)
    first = {}
    for step, filt in enumerate(order):
        n = sizes[step % 2] if idx % 2 else sizes[0]
        sino = r.random((n, len(theta)))
        m = int(np.ceil(np.sqrt(2) * n))
        before = m // 2 - n // 2
        padded = np.zeros((m, len(theta)))
        padded[before:before + n] = sino
        if filt is None:
            F = padded
        else:
            P = max(64, int(2 ** np.ceil(np.log2(2 * m))))
            big = np.zeros((P, len(theta)))
            big[:m] = padded
            F = np.real(np.fft.ifft(np.fft.fft(big, axis=0) * ref_fourier_filter(P, filt)[:, None], axis=0))[:m]
        got = roi_iradon.iradon(sino.copy(), theta=theta, output_size=n, filter_name=filt, workers=1)
        want = roi_iradon.iradon(F, theta=theta, output_size=n, filter_name=None, workers=1)
        run.count("filter_history_reconstructions")
        scale = float(np.abs(want).max())
        if got.shape != want.shape or not np.abs(got - want).max() <= 1e-9 * scale:
            run.violation("iradon:filter-history", "step %d of a series of reconstructions: filter %r gives an image that differs "
                          "from back-projecting the independently filtered sinogram by %.3g (scale %.3g); filters used "
                          "before: %r" % (step, filt, float(np.abs(got - want).max()) if got.shape == want.shape else -1,
                                          scale, [str(f) for f in order[:step]]), dict(desc, step=step))
            return


def check(run, replay=None):
    from ImageD11.sinograms import geometry, roi_iradon
    from ImageD11.sinograms import point_by_point as pbp
    if replay is not None:
        cs = replay["case"]
        if cs["kind"] == "conversions":
            conversions(run, replay["seed"], cs["index"], geometry, pbp)
        elif cs["kind"] == "geometry-extras":
            geometry_extras(run, replay["seed"], cs["index"], geometry)
        elif cs["kind"] == "variants":
            variants(run, replay["seed"], cs["index"], geometry, roi_iradon)
        elif cs["kind"] == "filter-history":
            filter_history(run, replay["seed"], cs["index"], roi_iradon)
        else:
            reconstruction(run, replay["seed"], cs["index"], geometry, roi_iradon)
        run.nontrivial.update(["replay", "replay2"])
        return
    nc, nr, nv = (120, 40, 60) if run.tier == "quick" else (4000, 1500, 1200)
    for i in range(nc):
        conversions(run, run.seed, i, geometry, pbp)
        geometry_extras(run, run.seed, i, geometry)
    for i in range(nr):
        reconstruction(run, run.seed, i, geometry, roi_iradon)
    for i in range(nv):
        variants(run, run.seed, i, geometry, roi_iradon)
    for i in range(nv // 6):
        filter_history(run, run.seed, i, roi_iradon)
    run.extra["workers_tested"] = [1, 2, 3, 4, 5, 7, 8, 13, 16, None]
    run.require_counter("conversion_samples", 5000)
    run.require_counter("reused_angle_buffer_calls", 100)
    run.require_counter("reconstructions", 20)
    run.require_counter("worker_runs", 50)
    run.require_counter("sine_fits_checked", 100)
    run.require_counter("step_grids_checked", 100)
    run.require_counter("variant_reconstructions", 50)
    run.require_counter("variant_placements_checked", 30)
    for k in ("0-180", "-180-180", "half-bin", "shuffled", "non-uniform", "few"):
        run.require_counter("variant_angles_" + k, 5)
    for f in FILTERS:
        run.require_counter("variant_filter_%s" % f, 3)
    run.require_counter("variant_roi_runs", 500)
    run.require_counter("filter_history_reconstructions", 100)
    run.require_counter("variant_interpolation_checks", 100)
    run.require_counter("variant_noshift_checks", 5)
    run.require_counter("variant_float32_runs", 50)
    run.require_counter("grainsinogram_recon_checks", 20)


# workloads added in seeding rounds 7-10 (DESIGN.md sections 13.9-13.12)
LEVEL_TEXT = LEVEL_TEXT + ' Later additions: filter histories against back-projection of an independently filtered sinogram; grains in the outer ring of 0-360 scans with the axis off the middle; exceptions reported per case.'
