"""C14 - sparse images round-trip and overlap counting is exact.

Oracle: numpy boolean selection for dense<->sparse identity, lexicographic
order checker, brute-force overlap matrix from dense label images compared as
a multiset of (label1, label2, count) triples with the linear and the matrix
algorithm.
"""
import numpy as np
from .. import imgs
from ..common import rng

TECHNIQUE = ("runtime reference-model monitor: dense<->sparse identity against numpy selection, sortedness checker, brute-force "
             "overlap matrix vs sparseframe.overlaps_linear / overlaps_matrix / overlaps and cImageD11.sparse_overlaps / "
             "compress_duplicates / coverlaps")
LEVEL_TEXT = ("Exploration: shapes up to 3x65534 and 65534x3, uint16/uint32/float32 data, masks from a single pixel to the full "
              "image, cuts at min/max, pixels in the last row and column; unsorted frames produced by random permutation and re-sorted; "
              "label frames disjoint / identical / partially overlapping with 1..N labels (label ids at the histogram edge, frames ending on "
              "the same pixel).")
LEVEL_NOTE = "Trusts numpy; empty frames are excluded as the property states (the library represents them as None)."

RULE = ("a case = (shape, dtype, mask class) for the round trip or (shape, label classes) for overlaps; non-trivial = mask neither "
        "empty nor full / at least one overlapping label pair; distinct = (shape, dtype, mask class, hash of mask)")


def sorted_strict(row, col):
    key = row.astype(np.int64) * 70000 + col.astype(np.int64)
    return bool((np.diff(key) > 0).all())


def roundtrip_case(run, seed, idx, mods):
    cImageD11, sparseframe = mods
    r = rng(seed, "C14", "rt", idx)
    shapes = [(2, 2), (3, 5), (7, 7), (16, 33), (64, 64), (100, 37), (3, 65534), (65534, 3), (1, 50), (50, 1), (256, 300)]
    shape = shapes[idx % len(shapes)]
    dt = [np.uint16, np.float32, np.uint32][(idx // 3) % 3]
    mk = ["bernoulli", "single", "full", "lastpixel", "blobs", "firstlast", "row", "col"][idx % 8]
    n = shape[0] * shape[1]
    if mk == "single":
        mask = np.zeros(shape, bool)
        mask.flat[int(r.integers(n))] = True
    elif mk == "full":
        mask = np.ones(shape, bool)
    elif mk == "lastpixel":
        mask = np.zeros(shape, bool)
        mask[-1, -1] = True
    elif mk == "firstlast":
        mask = np.zeros(shape, bool)
        mask[0, 0] = mask[-1, -1] = mask[0, -1] = mask[-1, 0] = True
    elif mk == "row":
        mask = np.zeros(shape, bool)
        mask[int(r.integers(shape[0])), :] = True
    elif mk == "col":
        mask = np.zeros(shape, bool)
        mask[:, int(r.integers(shape[1]))] = True
    elif mk == "blobs" and min(shape) >= 3:
        mask = imgs.gen_mask(r, shape, "blobs")
    else:
        mask = r.random(shape) < float(r.choice([0.01, 0.2, 0.5, 0.9]))
    if not mask.any():
        mask.flat[int(r.integers(n))] = True
    if dt == np.float32:
        data = (r.random(shape) * 1000 - 200).astype(np.float32)
    else:
        data = r.integers(0, np.iinfo(dt).max if dt == np.uint16 else 2 ** 32 - 1, shape, dtype=np.uint64).astype(dt)
    desc = dict(index=idx, kind="roundtrip", shape=shape, dtype=np.dtype(dt).name, mask=mk)
    run.case((shape, np.dtype(dt).name, mk, hash(mask.tobytes())), nontrivial=(0 < mask.sum() < n),
             sample=dict(desc, nnz=int(mask.sum())))

    def V(key, what):
        run.violation(key, what, desc)

    # ---- from_data_mask
    fr = sparseframe.from_data_mask(mask.astype(np.int8), data, {"threshold": 0})
    run.count("roundtrips")
    if fr.nnz != int(mask.sum()):
        V("from_data_mask:nnz", "nnz %d != selected pixels %d" % (fr.nnz, int(mask.sum())))
    if not sorted_strict(fr.row, fr.col):
        V("from_data_mask:order", "coordinates not in strictly increasing row-major order")
    if cImageD11.sparse_is_sorted(fr.row, fr.col) != 0:
        V("sparse_is_sorted:false-negative", "sparse_is_sorted reports a sorted frame as unsorted")
    dense = fr.to_dense("intensity")
    want = np.where(mask, data, 0).astype(data.dtype)
    if dense.shape != shape or not np.array_equal(dense, want):
        V("from_data_mask:roundtrip", "to_dense(from_data_mask(img)) != img*mask")
    # ---- from_data_cut / tosparse kernels
    cut = [float(np.median(data)), float(data.min()), float(data.max()) - 1, 0.0][idx % 4]
    if dt == np.uint32:
        # the kernel takes the cut as a C float: use a value that float32 represents exactly
        cut = float(np.float32(max(0.0, min(cut, 2.0 ** 31))))
    detmask = (r.random(shape) < 0.8) if idx % 2 else np.ones(shape, bool)
    if dt in (np.uint16, np.float32):
        cutv = int(cut) if dt == np.uint16 else np.float32(cut)
        sel = (data > (np.uint16(cutv) if dt == np.uint16 else cutv)) & detmask
        if sel.any():
            fc = sparseframe.from_data_cut(data, cutv, detectormask=detmask.astype(np.uint8))
            run.count("cut_roundtrips")
            if not sorted_strict(fc.row, fc.col) or fc.nnz != int(sel.sum()):
                V("from_data_cut:order-or-count", "from_data_cut: nnz %d vs %d selected or unsorted" % (fc.nnz, int(sel.sum())))
            elif not np.array_equal(fc.to_dense("intensity"), np.where(sel, data, 0).astype(data.dtype)):
                V("from_data_cut:roundtrip", "to_dense(from_data_cut(img, cut)) != selected pixels")
    else:
        row = np.zeros(n, np.uint16)
        col = np.zeros(n, np.uint16)
        val = np.zeros(n, np.uint32)
        k = cImageD11.tosparse_u32(data, detmask.astype(np.uint8), row, col, val, float(cut))
        sel = (data > np.uint32(cut)) & detmask
        run.count("cut_roundtrips")
        out = np.zeros(shape, np.uint32)
        out[row[:k], col[:k]] = val[:k]
        if k != int(sel.sum()) or not np.array_equal(out, np.where(sel, data, 0)) or not sorted_strict(row[:k], col[:k]):
            V("tosparse_u32", "tosparse_u32 does not reproduce the selected pixels (%d vs %d)" % (k, int(sel.sum())))
    # ---- unsorted -> sort
    if fr.nnz >= 2:
        perm = r.permutation(fr.nnz)
        fu = sparseframe.sparse_frame(fr.row[perm].copy(), fr.col[perm].copy(), shape,
                                      pixels={"intensity": fr.pixels["intensity"][perm].copy(),
                                              "tag": np.arange(fr.nnz)[perm].copy()})
        nonid = not np.array_equal(perm, np.arange(fr.nnz))
        s = cImageD11.sparse_is_sorted(fu.row, fu.col)
        if nonid and s == 0:
            V("sparse_is_sorted:false-positive", "sparse_is_sorted returns 0 for an unsorted frame")
        if nonid and s != 0:
            # documented: k = first non-sorted element
            key = fu.row.astype(np.int64) * 70000 + fu.col
            first = int(np.nonzero(np.diff(key) < 0)[0][0]) + 1
            if s != first:
                V("sparse_is_sorted:index", "sparse_is_sorted returned %d, first unsorted element is %d" % (s, first))
        run.count("sort_calls")
        try:
            fu.sort()
        except Exception as e:
            V("sort:exception:%s" % type(e).__name__, "sparse_frame.sort() raised %s: %s" % (type(e).__name__, e))
        else:
            if not sorted_strict(fu.row, fu.col):
                V("sort:order", "sort() did not establish row-major order")
            elif not (np.array_equal(fu.row, fr.row) and np.array_equal(fu.col, fr.col) and
                      np.array_equal(fu.pixels["intensity"], fr.pixels["intensity"]) and
                      np.array_equal(fu.pixels["tag"], np.arange(fr.nnz))):
                V("sort:values-detached", "sort() detached pixel values from their coordinates")
        # duplicates are flagged with a negative index
        fd_row = np.concatenate([fr.row[:1], fr.row])
        fd_col = np.concatenate([fr.col[:1], fr.col])
        sd = cImageD11.sparse_is_sorted(fd_row, fd_col)
        if sd != -1:
            V("sparse_is_sorted:duplicate", "duplicate first pixel reported as %d, expected -1" % sd)
        # sort_by keeps values attached too
        fu2 = sparseframe.sparse_frame(fr.row.copy(), fr.col.copy(), shape,
                                       pixels={"intensity": fr.pixels["intensity"].copy(),
                                               "key": r.permutation(fr.nnz).astype(np.int32)})
        try:
            fu2.sort_by("key")
        except Exception as e:
            V("sort_by:exception:%s" % type(e).__name__, "sparse_frame.sort_by() raised %s: %s" % (type(e).__name__, e))
        else:
            d2 = np.zeros(shape, data.dtype)
            d2[fu2.row, fu2.col] = fu2.pixels["intensity"]
            if not np.array_equal(fu2.pixels["key"], np.arange(fr.nnz)) or not np.array_equal(d2, want):
                V("sort_by:values-detached", "sort_by() detached pixel values from their coordinates")
    # oversize must be refused, not silently wrapped
    if idx % 40 == 0:
        try:
            sparseframe.from_data_mask(np.ones((1, 65540), np.int8), np.ones((1, 65540), np.float32), {})
            V("from_data_mask:oversize", "image with 65540 columns accepted with 16 bit indices")
        except AssertionError:
            run.count("oversize_rejected")


def overlap_case(run, seed, idx, mods):
    cImageD11, sparseframe = mods
    r = rng(seed, "C14", "ov", idx)
    shape = [(4, 4), (8, 13), (32, 32), (64, 50), (128, 128), (3, 300)][idx % 6]
    cls = ["partial", "identical", "disjoint", "random-labels", "partial", "same-last-pixel"][(idx // 2) % 6]
    tall = idx % 10 == 9
    if tall:
        # coordinates are 16 bit: exercise rows/columns beyond 32767 (sign bit of a packed 32 bit key) with frames
        # that straddle that line
        shape = [(40000, 6), (6, 40000), (65534, 3), (33000, 4)][(idx // 10) % 4]
    m1 = r.random(shape) < float(r.choice([0.1, 0.3, 0.6]))
    if tall:
        m1 = np.zeros(shape, bool)
        ax = 0 if shape[0] > shape[1] else 1
        for lo in (int(r.integers(0, 30000)), 32760, int(r.integers(32768, shape[ax] - 8))):
            sl = [slice(None), slice(None)]
            sl[ax] = slice(lo, lo + int(r.integers(3, 16)))
            m1[tuple(sl)] = r.random(m1[tuple(sl)].shape) < 0.7
    if cls == "identical":
        m2 = m1.copy()
    elif cls == "disjoint":
        m2 = (~m1) & (r.random(shape) < 0.5)
    elif tall:
        m2 = np.roll(m1, int(r.integers(-3, 4)), axis=0 if shape[0] > shape[1] else 1) & (r.random(shape) < 0.9)
    else:
        m2 = r.random(shape) < float(r.choice([0.1, 0.3, 0.6]))
    if cls == "same-last-pixel":
        m1[-1, -1] = m2[-1, -1] = True
    for m in (m1, m2):
        if not m.any():
            m.flat[int(r.integers(m.size))] = True
    if cls == "random-labels":
        n1, n2 = int(r.integers(1, 40)), int(r.integers(1, 40))
        l1 = np.where(m1, r.integers(1, n1 + 1, shape), 0)
        l2 = np.where(m2, r.integers(1, n2 + 1, shape), 0)
        # make sure the top label id is present (histogram edge)
        l1[np.nonzero(m1)[0][0], np.nonzero(m1)[1][0]] = n1
        l2[np.nonzero(m2)[0][-1], np.nonzero(m2)[1][-1]] = n2
    else:
        l1, n1 = imgs.ref_label(m1, True)
        l2, n2 = imgs.ref_label(m2, True)
    # brute force
    both = (l1 > 0) & (l2 > 0)
    want = {}
    for a, b in zip(l1[both].tolist(), l2[both].tolist()):
        want[(a, b)] = want.get((a, b), 0) + 1
    desc = dict(index=idx, kind="overlap", shape=shape, cls=cls, n1=int(n1), n2=int(n2))
    if tall:
        run.count("overlap_cases_beyond_32767")
    run.case((shape, cls, hash(m1.tobytes()), hash(m2.tobytes())), nontrivial=len(want) >= 1,
             sample=dict(desc, pairs=len(want)))

    def V(key, what):
        run.violation(key, what, desc)

    f1 = sparseframe.from_data_mask(m1.astype(np.int8), l1.astype(np.int32), {})
    f2 = sparseframe.from_data_mask(m2.astype(np.int8), l2.astype(np.int32), {})
    lab1 = f1.pixels["intensity"].astype(np.int32)
    lab2 = f2.pixels["intensity"].astype(np.int32)
    f1.set_pixels("labels", lab1, {"nlabel": int(n1)})
    f2.set_pixels("labels", lab2, {"nlabel": int(n2)})

    def as_dict(rows, route):
        d = {}
        for a, b, c in rows:
            if (int(a), int(b)) in d:
                V(route + ":pair-twice", "label pair (%d,%d) listed twice" % (a, b))
            d[(int(a), int(b))] = int(c)
        return d

    run.count("overlap_cases")
    # linear
    ol = sparseframe.overlaps_linear(nnzmax=max(f1.nnz, f2.nnz, n1, n2) + 1)
    ne, rcl = ol(f1.row, f1.col, lab1, n1, f2.row, f2.col, lab2, n2)
    got = as_dict(rcl[:ne], "overlaps_linear") if ne else {}
    if got != want:
        V("overlaps_linear", "linear algorithm: %d pairs, brute force %d; first difference %r"
          % (len(got), len(want), sorted(set(got.items()) ^ set(want.items()))[:2]))
    # linear with a *small* initial buffer: must realloc by itself
    import contextlib, io
    with contextlib.redirect_stdout(io.StringIO()):
        ol2 = sparseframe.overlaps_linear(nnzmax=4)
        ne2, rcl2 = ol2(f1.row, f1.col, lab1, n1, f2.row, f2.col, lab2, n2)
    got2 = as_dict(rcl2[:ne2], "overlaps_linear(realloc)") if ne2 else {}
    if got2 != want:
        V("overlaps_linear:realloc", "linear algorithm with growing buffers differs from brute force")
    # matrix
    with contextlib.redirect_stdout(io.StringIO()):
        om = sparseframe.overlaps_matrix(npkmax=4)
        nm, res = om(f1.row, f1.col, lab1, n1, f2.row, f2.col, lab2, n2)
    gotm = as_dict(res[:nm], "overlaps_matrix") if nm else {}
    if gotm != want:
        V("overlaps_matrix", "matrix algorithm: %d pairs, brute force %d" % (len(gotm), len(want)))
    # overlaps() -> scipy coo (labels - 1)
    if want:
        co = sparseframe.overlaps(f1, "labels", f2, "labels").tocoo()
        gots = as_dict(zip(co.row + 1, co.col + 1, co.data), "overlaps")
        if gots != want:
            V("overlaps", "sparseframe.overlaps differs from brute force")
    # low level pixel matching
    k1 = np.zeros(f1.nnz, np.int32)
    k2 = np.zeros(f2.nnz, np.int32)
    npx = cImageD11.sparse_overlaps(f1.row, f1.col, k1, f2.row, f2.col, k2)
    if npx != int(both.sum()) or not (np.array_equal(f1.row[k1[:npx]], f2.row[k2[:npx]]) and
                                       np.array_equal(f1.col[k1[:npx]], f2.col[k2[:npx]])):
        V("sparse_overlaps", "sparse_overlaps found %d shared pixels, dense comparison %d" % (npx, int(both.sum())))


def pairrow_case(run, seed, idx, sparseframe):
    """properties.pairrow: overlaps between consecutive frames of a labelled sparse scan, as stored by the real consumer
    (one overlaps_linear object is called for every frame pair and all answers are kept)"""
    import os, tempfile, shutil, contextlib, io
    from ..common import WORK
    from ImageD11.sinograms import properties
    r = rng(seed, "C14", "pairrow", idx)
    shape = [(12, 10), (32, 32), (50, 40)][idx % 3]
    nfr = int(r.integers(3, 9))
    frames = []
    for k in range(nfr):
        m = r.random(shape) < float(r.choice([0.15, 0.35, 0.6]))
        if k == 2 and idx % 2:
            m[:] = False                      # an empty frame in the middle
        img = np.where(m, r.random(shape) * 100 + 1, 0).astype(np.float32)
        frames.append((m, img))
    desc = dict(index=idx, kind="pairrow", shape=shape, nframes=nfr)
    run.case(("pairrow", shape, nfr, idx), nontrivial=True, sample=desc if idx < 2 else None)
    os.makedirs(os.path.join(WORK, "tmp"), exist_ok=True)
    d = tempfile.mkdtemp(prefix="c14p_", dir=os.path.join(WORK, "tmp"))
    try:
        fn = os.path.join(d, "scan.h5")
        omega = np.arange(nfr) * 0.5
        imgs.write_sparse_scan(fn, frames, omega=omega)
        sc = sparseframe.SparseScan(fn, "1.1")
        sc.cplabel(threshold=0.5, countall=False)
        with contextlib.redirect_stdout(io.StringIO()):
            pairs = properties.pairrow(sc, 7)
        run.count("pairrow_runs")
        # dense label images from the scan's own labels
        dense = []
        for k in range(nfr):
            s0, e0 = sc.ipt[k], sc.ipt[k + 1]
            lab = np.zeros(shape, np.int64)
            lab[sc.row[s0:e0], sc.col[s0:e0]] = sc.labels[s0:e0]
            dense.append(lab)
        for k in range(1, nfr):
            if sc.nnz[k] == 0 or sc.nnz[k - 1] == 0:
                continue
            key = (7, k - 1, 7, k)
            if key not in pairs:
                run.violation("pairrow:missing", "frame pair %r missing from pairrow result" % (key,), desc)
                return
            ne, rcl = pairs[key]
            both = (dense[k - 1] > 0) & (dense[k] > 0)
            want = {}
            for a, b in zip(dense[k - 1][both].tolist(), dense[k][both].tolist()):
                want[(a, b)] = want.get((a, b), 0) + 1
            got = {(int(a), int(b)): int(c) for a, b, c in (rcl[:ne] if ne else [])}
            run.count("pairrow_pairs_checked")
            if got != want or (ne or 0) != len(want):
                run.violation("pairrow:stored-overlaps",
                              "overlaps stored by properties.pairrow for frames %d/%d differ from the brute-force count "
                              "(%d pairs stored, %d expected)" % (k - 1, k, len(got), len(want)), dict(desc, frame=k))
                return
    finally:
        shutil.rmtree(d, ignore_errors=True)


def check(run, replay=None):
    from ImageD11 import cImageD11, sparseframe
    mods = (cImageD11, sparseframe)
    if replay is not None:
        cs = replay["case"]
        if cs["kind"] == "pairrow":
            pairrow_case(run, replay["seed"], cs["index"], sparseframe)
        else:
            (overlap_case if cs["kind"] == "overlap" else roundtrip_case)(run, replay["seed"], cs["index"], mods)
        run.nontrivial.update(["replay", "replay2"])
        return
    nr, no = (330, 400) if run.tier == "quick" else (20000, 30000)
    for i in range(nr):
        roundtrip_case(run, run.seed, i, mods)
    for i in range(no):
        overlap_case(run, run.seed, i, mods)
    for i in range(20 if run.tier == "quick" else 600):
        pairrow_case(run, run.seed, i, sparseframe)
    run.require_counter("pairrow_pairs_checked", 20)
    run.require_counter("roundtrips", 100)
    run.require_counter("sort_calls", 50)
    run.require_counter("overlap_cases", 100)
    run.require_counter("overlap_cases_beyond_32767", 10)
