"""C14 - sparse images round-trip and overlap counting is exact.

Oracle: numpy boolean selection for dense<->sparse identity, lexicographic
order checker, brute-force overlap matrix from dense label images compared as
a multiset of (label1, label2, count) triples with the linear and the matrix
algorithm.
"""
import os
import numpy as np
from .. import imgs
from ..common import rng

TECHNIQUE = ("runtime reference-model monitor: dense<->sparse identity against numpy selection, sortedness checker, brute-force "
             "overlap matrix vs sparseframe.overlaps_linear / overlaps_matrix (one object reused over calls of different shape) / "
             "overlaps and cImageD11.sparse_overlaps / compress_duplicates / coverlaps (called on a buffer with guard zones), "
             "and vs the overlaps stored by properties.pairrow / pairscans")
LEVEL_TEXT = ("Exploration: shapes up to 3x65534 and 65534x3, uint16/uint32/float32 data, masks from a single pixel to the full "
              "image given as int8 / bool / uint8 (values up to 255), cuts at min / max-1 / median / 90th percentile / 0 / negative (uint16) combined at random "
              "with no / full / 80% / 30% detector masks, pixels in the last row and column; sparse_frame.mask / threshold / "
              "to_dense(default, out=); unsorted frames produced by random permutation and re-sorted, duplicates at any position; "
              "label frames disjoint / identical / partially overlapping with 1..N labels (label ids at the histogram edge, frames ending on "
              "the same pixel), with and without unlabelled (0) pixels; scans with increasing / decreasing / shuffled omega.")
LEVEL_NOTE = ("Trusts numpy; empty frames are excluded as the property states (the library represents them as None). Frames holding "
              "unlabelled (label 0 = background) pixels must give the pairs of labels >= 1 only, on the linear and the matrix route "
              "(the pinned tree wrote before the matrix and listed pairs naming 0; repaired in /repo); "
              "sparseframe.overlaps documents that it assumes no 0 label and is not given such frames. Labels above the frame's own "
              "label count (cplabel(countall=True)) are outside the statement and not passed. Masks with negative entries: an exception, the mask>0 or the mask!=0 "
              "selection are all accepted.")

# sub-checks guarded by hard rule 2 (real behaviour differs from the statement; coordinator decides): run only when the
# environment variable is set
PENDING = {
}
# sub-checks that failed when they were written and were repaired in /repo since (fix: commits 76ed587, c415294, 24a477a,
# 7f70c21): always on now
RESOLVED = {
    "VERIF_PENDING_C14_LABEL0": "coverlaps / overlaps_matrix on frames holding label-0 pixels wrote before mat and miscounted; overlaps_linear listed pairs naming 0 (fix 5b85484)",
    "VERIF_PENDING_C14_OVERLAPS_DISJOINT": "sparseframe.overlaps raised ValueError for two frames without a common pixel",
    "VERIF_PENDING_C14_NEGMASK": "from_data_mask with negative int8 mask entries returned uninitialised coordinates (return code 4 ignored)",
    "VERIF_PENDING_C14_NEGCUT": "from_data_cut(uint16 image, cut < 0) selected nothing ((uint16_t)cut wrapped)",
    "VERIF_PENDING_C14_TODENSE_ARRAY": "sparse_frame.to_dense(<array>) (documented) raised TypeError",
}


def pending(name):
    if name in RESOLVED:
        return True
    assert name in PENDING
    return bool(os.environ.get(name))


def sorted_strict(row, col):
    key = row.astype(np.int64) * 70000 + col.astype(np.int64)
    return bool((np.diff(key) > 0).all())


def roundtrip_case(run, seed, idx, mods):
    cImageD11, sparseframe = mods
    r = rng(seed, "C14", "rt", idx)
    shapes = [(2, 2), (3, 5), (7, 7), (16, 33), (64, 64), (100, 37), (3, 65534), (65534, 3), (1, 50), (50, 1), (256, 300)]
    shape = shapes[idx % len(shapes)]
    dt = [np.uint16, np.float32, np.uint32][(idx // 3) % 3]
    mk = ["bernoulli", "single", "full", "lastpixel", "blobs", "firstlast", "row", "col"][idx % 8]
    n = shape[0] * shape[1]
    if mk == "single":
        mask = np.zeros(shape, bool)
        mask.flat[int(r.integers(n))] = True
    elif mk == "full":
        mask = np.ones(shape, bool)
    elif mk == "lastpixel":
        mask = np.zeros(shape, bool)
        mask[-1, -1] = True
    elif mk == "firstlast":
        mask = np.zeros(shape, bool)
        mask[0, 0] = mask[-1, -1] = mask[0, -1] = mask[-1, 0] = True
    elif mk == "row":
        mask = np.zeros(shape, bool)
        mask[int(r.integers(shape[0])), :] = True
    elif mk == "col":
        mask = np.zeros(shape, bool)
        mask[:, int(r.integers(shape[1]))] = True
    elif mk == "blobs" and min(shape) >= 3:
        mask = imgs.gen_mask(r, shape, "blobs")
    else:
        mask = r.random(shape) < float(r.choice([0.01, 0.2, 0.5, 0.9]))
    if not mask.any():
        mask.flat[int(r.integers(n))] = True
    if dt == np.float32:
        data = (r.random(shape) * 1000 - 200).astype(np.float32)
    else:
        data = r.integers(0, np.iinfo(dt).max if dt == np.uint16 else 2 ** 32 - 1, shape, dtype=np.uint64).astype(dt)
    desc = dict(index=idx, kind="roundtrip", shape=shape, dtype=np.dtype(dt).name, mask=mk)
    run.case((shape, np.dtype(dt).name, mk, hash(mask.tobytes())), nontrivial=(0 < mask.sum() < n),
             sample=dict(desc, nnz=int(mask.sum())))

    def V(key, what):
        run.violation(key, what, desc)

    # second stream for the dimensions added later (keeps the older part of the case unchanged)
    r2 = rng(seed, "C14", "rt2", idx)
    # third stream: memory layout of the image and of the masks handed to the library (C order, Fortran order, a
    # transposed view, every other column of a wider array).  The values are the same; the result must be too.
    r3 = rng(seed, "C14", "rt3", idx)

    def lay(a, kind):
        if kind == "F":
            return np.asfortranarray(a)
        if kind == "T":
            return np.ascontiguousarray(a.T).T
        if kind == "strided":
            big = np.zeros((a.shape[0], 2 * a.shape[1]), a.dtype)
            big[:, ::2] = a
            return big[:, ::2]
        return a
    lk_data = ["C", "F", "T", "strided"][int(r3.integers(4))] if n <= 200000 else "C"
    lk_mask = ["C", "F", "T", "strided"][int(r3.integers(4))] if n <= 200000 else "C"
    data_c = data
    data = lay(data, lk_data)
    desc["layout"] = [lk_data, lk_mask]
    run.count("layout_data_" + lk_data)
    run.count("layout_mask_" + lk_mask)
    # ---- from_data_mask: the mask in one of the representations callers use
    mrep = ["int8", "bool", "uint8", "int8-big"][int(r2.integers(4))]
    if mrep == "int8":
        marg = mask.astype(np.int8)
    elif mrep == "bool":
        marg = mask.copy()
    elif mrep == "uint8":
        marg = np.where(mask, r2.choice(np.array([1, 2, 127, 128, 255], np.uint8), shape), 0).astype(np.uint8)
    else:
        marg = np.where(mask, r2.integers(1, 128, shape), 0).astype(np.int8)
    marg = lay(marg, lk_mask)
    desc["maskrep"] = mrep
    run.count("maskrep_" + mrep)
    fr = sparseframe.from_data_mask(marg, data, {"threshold": 0})
    run.count("roundtrips")
    if fr.nnz != int(mask.sum()):
        V("from_data_mask:nnz", "nnz %d != selected pixels %d" % (fr.nnz, int(mask.sum())))
    if not sorted_strict(fr.row, fr.col):
        V("from_data_mask:order", "coordinates not in strictly increasing row-major order")
    if cImageD11.sparse_is_sorted(fr.row, fr.col) != 0:
        V("sparse_is_sorted:false-negative", "sparse_is_sorted reports a sorted frame as unsorted")
    dense = fr.to_dense("intensity")
    want = np.where(mask, data, 0).astype(data.dtype)
    if dense.shape != shape or not np.array_equal(dense, want):
        V("from_data_mask:roundtrip", "to_dense(from_data_mask(img)) != img*mask")
    # ---- sparse_frame.to_dense defaults / out= ; mask() ; threshold()
    d0 = fr.to_dense()                       # one pixel array: that one is the default
    if not np.array_equal(d0, want) or d0.dtype != data.dtype:
        V("to_dense:default", "to_dense() of a frame with one pixel array is not that array laid out densely")
    outbuf = np.full(shape, 77, data.dtype)  # stale contents must not survive
    o2 = fr.to_dense("intensity", out=outbuf)
    if o2 is not outbuf or not np.array_equal(outbuf, want):
        V("to_dense:out", "to_dense(out=buffer) does not fill the buffer with the selected pixels (stale values kept or other array returned)")
    run.count("to_dense_variants", 2)
    if pending("VERIF_PENDING_C14_TODENSE_ARRAY"):
        try:
            d3 = fr.to_dense(fr.pixels["intensity"])
        except Exception as e:
            V("to_dense:array-argument", "to_dense(<1D array>) (documented) raised %s: %s" % (type(e).__name__, e))
        else:
            if not np.array_equal(d3, want):
                V("to_dense:array-argument", "to_dense(<1D array>) differs from the selected pixels")
    sub = r2.random(fr.nnz) < float(r2.choice([0.1, 0.5, 0.9]))
    sub[int(r2.integers(fr.nnz))] = True
    try:
        fm = fr.mask(sub)
        tcut = fr.pixels["intensity"][int(r2.integers(fr.nnz))]
        ft = fr.threshold(tcut) if (fr.pixels["intensity"] > tcut).any() else None
    except Exception as e:
        V("mask-threshold:exception:%s" % type(e).__name__, "sparse_frame.mask()/threshold() raised %s: %s" % (type(e).__name__, e))
    else:
        run.count("mask_method_calls")
        submask = np.zeros(shape, bool)
        submask[fr.row[sub], fr.col[sub]] = True
        if fm.nnz != int(sub.sum()) or not sorted_strict(fm.row, fm.col) or \
                not np.array_equal(fm.to_dense("intensity"), np.where(submask, data, 0).astype(data.dtype)):
            V("mask:subset", "sparse_frame.mask(selection) is not the selected subset of the frame")
        if fm.row.base is fr.row or np.shares_memory(fm.row, fr.row):
            V("mask:aliases-parent", "sparse_frame.mask() returned coordinates that share memory with the parent frame")
        if ft is not None:
            run.count("threshold_method_calls")
            tsel = mask & (data > tcut)
            if ft.nnz != int(tsel.sum()) or not sorted_strict(ft.row, ft.col) or \
                    not np.array_equal(ft.to_dense("intensity"), np.where(tsel, data, 0).astype(data.dtype)):
                V("threshold:subset", "sparse_frame.threshold(t) is not the pixels of the frame above t")
    # ---- masks with negative entries: mask>0 (python side) and mask!=0 (C side) disagree; any of: an exception, the
    # mask>0 selection, the mask!=0 selection is accepted - coordinates that match neither are not
    if pending("VERIF_PENDING_C14_NEGMASK") and n >= 2:
        mneg = mask.astype(np.int8)
        flip = r2.random(shape) < 0.3
        flip.flat[int(r2.integers(n))] = True
        mneg[flip] = (-r2.integers(1, 129, int(flip.sum()))).astype(np.int8)
        if (mneg > 0).any():
            try:
                fn = sparseframe.from_data_mask(mneg, data, {})
            except Exception:
                run.count("negmask_refused")
            else:
                run.count("negmask_accepted")
                ok = False
                for selm in (mneg > 0, mneg != 0):
                    if fn.nnz == int(selm.sum()) and np.array_equal(fn.row, np.nonzero(selm)[0]) and \
                            np.array_equal(fn.col, np.nonzero(selm)[1]) and len(fn.pixels["intensity"]) == fn.nnz and \
                            np.array_equal(fn.pixels["intensity"], data[selm]):
                        ok = True
                if not ok:
                    V("from_data_mask:negative-mask", "mask with negative int8 entries: frame matches neither mask>0 nor mask!=0 "
                      "(mask_to_coo return code ignored, coordinates uninitialised)")
    # ---- from_data_cut / tosparse kernels: cut class and detector mask are drawn independently
    ck = ["median", "min", "max-1", "zero", "q90"][int(r2.integers(5))]
    flat = data.ravel()
    cut = {"median": float(np.median(data)), "min": float(data.min()), "max-1": float(data.max()) - 1, "zero": 0.0,
           "q90": float(np.sort(flat[:: max(1, n // 5000)])[-max(1, min(n, 5000) // 10)])}[ck]
    if dt == np.uint32:
        # the kernel takes the cut as a C float: use a value that float32 represents exactly
        cut = float(np.float32(max(0.0, min(cut, 2.0 ** 31))))
    dk = ["none", "ones", "p80", "p30"][int(r2.integers(4))]
    if dt == np.uint32 and dk == "none":
        dk = "ones"                           # the u32 kernel is called directly and always takes a mask
    detmask = (r2.random(shape) < (0.8 if dk == "p80" else 0.3)) if dk in ("p80", "p30") else np.ones(shape, bool)
    detarg = np.where(detmask, r2.choice(np.array([1, 255], np.uint8), shape), 0).astype(np.uint8)
    detarg = lay(detarg, lk_mask)
    desc.update(cut=ck, detmask=dk)
    if dt in (np.uint16, np.float32):
        cutv = max(int(cut), 0) if dt == np.uint16 else np.float32(cut)
        sel = (data > (np.uint16(cutv) if dt == np.uint16 else cutv)) & detmask
        if sel.any():
            if dk == "none":
                fc = sparseframe.from_data_cut(data, cutv)       # default header, detectormask=None
            else:
                fc = sparseframe.from_data_cut(data, cutv, detectormask=detarg)
            run.count("cut_roundtrips")
            run.count("cut_detmask_" + dk)
            if dk in ("p80", "p30") and ck in ("median", "q90", "max-1") and 0 < int(sel.sum()) < int(detmask.sum()):
                run.count("cut_selective_under_partial_detmask")
            if not sorted_strict(fc.row, fc.col) or fc.nnz != int(sel.sum()):
                V("from_data_cut:order-or-count", "from_data_cut: nnz %d vs %d selected or unsorted" % (fc.nnz, int(sel.sum())))
            elif not np.array_equal(fc.to_dense("intensity"), np.where(sel, data, 0).astype(data.dtype)):
                V("from_data_cut:roundtrip", "to_dense(from_data_cut(img, cut)) != selected pixels")
        if dt == np.uint16:
            # a cut that is not a whole number (a threshold computed as mean + 3 sigma): pixel > cut decides, so pixels
            # equal to ceil(cut) are selected
            cutf = float(max(int(cut), 0)) + float(r2.choice([0.25, 0.5, 0.6, 0.75, 0.9]))
            if r2.random() < 0.5:
                # put the cut just under a value that is present
                present = np.unique(data[detmask]) if detmask.any() else np.array([1])
                cutf = float(present[int(r2.integers(len(present)))]) - float(r2.choice([0.1, 0.4, 0.5]))
            self_ = (data.astype(np.float64) > cutf) & detmask
            if self_.any() and cutf > 0:
                try:
                    ff = sparseframe.from_data_cut(data, cutf, detectormask=detarg)
                except Exception as e:
                    V("from_data_cut:fractional-cut", "from_data_cut(uint16 image, cut=%r) raised %s: %s" % (cutf, type(e).__name__, e))
                else:
                    run.count("cut_fractional_on_uint16")
                    if ff.nnz != int(self_.sum()) or not np.array_equal(ff.to_dense("intensity"),
                                                                       np.where(self_, data, 0).astype(data.dtype)):
                        V("from_data_cut:fractional-cut", "from_data_cut(uint16 image, cut=%r) keeps %d pixels, %d are above the cut"
                          % (cutf, ff.nnz, int(self_.sum())))
        if dt == np.uint16 and detmask.any() and pending("VERIF_PENDING_C14_NEGCUT"):
            # every uint16 pixel is above a negative cut
            negcut = -int(r2.integers(1, 70000))
            try:
                fneg = sparseframe.from_data_cut(data, negcut, detectormask=detarg)
                okneg = fneg.nnz == int(detmask.sum()) and np.array_equal(fneg.to_dense("intensity"), np.where(detmask, data, 0))
            except Exception as e:
                V("from_data_cut:negative-cut", "from_data_cut(uint16 image, cut=%d) raised %s: %s (all unmasked pixels are above the cut)"
                  % (negcut, type(e).__name__, e))
            else:
                if not okneg:
                    V("from_data_cut:negative-cut", "from_data_cut(uint16 image, cut=%d) does not select all unmasked pixels" % negcut)
    else:
        row = np.zeros(n, np.uint16)
        col = np.zeros(n, np.uint16)
        val = np.zeros(n, np.uint32)
        k = cImageD11.tosparse_u32(data, detarg, row, col, val, float(cut))
        sel = (data > np.uint32(cut)) & detmask
        run.count("cut_roundtrips")
        out = np.zeros(shape, np.uint32)
        out[row[:k], col[:k]] = val[:k]
        if k != int(sel.sum()) or not np.array_equal(out, np.where(sel, data, 0)) or not sorted_strict(row[:k], col[:k]):
            V("tosparse_u32", "tosparse_u32 does not reproduce the selected pixels (%d vs %d)" % (k, int(sel.sum())))
    # ---- unsorted -> sort
    if fr.nnz >= 2:
        perm = r.permutation(fr.nnz)
        fu = sparseframe.sparse_frame(fr.row[perm].copy(), fr.col[perm].copy(), shape,
                                      pixels={"intensity": fr.pixels["intensity"][perm].copy(),
                                              "tag": np.arange(fr.nnz)[perm].copy()})
        nonid = not np.array_equal(perm, np.arange(fr.nnz))
        s = cImageD11.sparse_is_sorted(fu.row, fu.col)
        if nonid and s == 0:
            V("sparse_is_sorted:false-positive", "sparse_is_sorted returns 0 for an unsorted frame")
        if nonid and s != 0:
            # documented: k = first non-sorted element
            key = fu.row.astype(np.int64) * 70000 + fu.col
            first = int(np.nonzero(np.diff(key) < 0)[0][0]) + 1
            if s != first:
                V("sparse_is_sorted:index", "sparse_is_sorted returned %d, first unsorted element is %d" % (s, first))
        run.count("sort_calls")
        try:
            fu.sort()
        except Exception as e:
            V("sort:exception:%s" % type(e).__name__, "sparse_frame.sort() raised %s: %s" % (type(e).__name__, e))
        else:
            if not sorted_strict(fu.row, fu.col):
                V("sort:order", "sort() did not establish row-major order")
            elif not (np.array_equal(fu.row, fr.row) and np.array_equal(fu.col, fr.col) and
                      np.array_equal(fu.pixels["intensity"], fr.pixels["intensity"]) and
                      np.array_equal(fu.pixels["tag"], np.arange(fr.nnz))):
                V("sort:values-detached", "sort() detached pixel values from their coordinates")
        # duplicates are flagged with a negative index
        fd_row = np.concatenate([fr.row[:1], fr.row])
        fd_col = np.concatenate([fr.col[:1], fr.col])
        sd = cImageD11.sparse_is_sorted(fd_row, fd_col)
        if sd != -1:
            V("sparse_is_sorted:duplicate", "duplicate first pixel reported as %d, expected -1" % sd)
        # a duplicate anywhere in an otherwise sorted frame: documented answer is -(index of the first duplicate)
        pd = int(r2.integers(1, fr.nnz + 1))
        fd_row = np.insert(fr.row, pd, fr.row[pd - 1])
        fd_col = np.insert(fr.col, pd, fr.col[pd - 1])
        sd = cImageD11.sparse_is_sorted(fd_row, fd_col)
        run.count("duplicate_position_checks")
        if sd != -pd:
            V("sparse_is_sorted:duplicate-position", "duplicate at index %d of %d reported as %d, expected %d" % (pd, fr.nnz + 1, sd, -pd))
        # a duplicate and an inversion together: the documentation gives k for the first unsorted element and -k for the
        # first duplicate, and does not say which wins: accept either, but the index must be the right one
        if fr.nnz >= 3:
            q = int(r2.integers(1, len(fd_row)))
            mr, mc = fd_row.copy(), fd_col.copy()
            mr[[q - 1, q]] = mr[[q, q - 1]]
            mc[[q - 1, q]] = mc[[q, q - 1]]
            key = mr.astype(np.int64) * 70000 + mc
            dk_ = np.diff(key)
            uns = np.nonzero(dk_ < 0)[0]
            dup = np.nonzero(dk_ == 0)[0]
            sm = cImageD11.sparse_is_sorted(mr, mc)
            okv = set()
            if len(uns):
                okv.add(int(uns[0]) + 1)
            if len(dup):
                okv.add(-(int(dup[0]) + 1))
            if not okv:
                okv.add(0)
            run.count("mixed_duplicate_inversion_checks")
            if sm not in okv:
                V("sparse_is_sorted:mixed", "frame with first inversion/duplicate at %r reported as %d" % (sorted(okv), sm))
        # sort_by keeps values attached too
        fu2 = sparseframe.sparse_frame(fr.row.copy(), fr.col.copy(), shape,
                                       pixels={"intensity": fr.pixels["intensity"].copy(),
                                               "key": r.permutation(fr.nnz).astype(np.int32)})
        try:
            fu2.sort_by("key")
        except Exception as e:
            V("sort_by:exception:%s" % type(e).__name__, "sparse_frame.sort_by() raised %s: %s" % (type(e).__name__, e))
        else:
            d2 = np.zeros(shape, data.dtype)
            d2[fu2.row, fu2.col] = fu2.pixels["intensity"]
            if not np.array_equal(fu2.pixels["key"], np.arange(fr.nnz)) or not np.array_equal(d2, want):
                V("sort_by:values-detached", "sort_by() detached pixel values from their coordinates")
        # one frame object through a history of orderings: sort, re-order by another key (or by an explicit
        # permutation), sort again ... after every sort() the frame must be in row-major order with its values attached,
        # whatever was done to it before
        fh = sparseframe.sparse_frame(fr.row.copy(), fr.col.copy(), shape,
                                      pixels={"intensity": fr.pixels["intensity"].copy(),
                                              "key": r2.permutation(fr.nnz).astype(np.int32),
                                              "tag": np.arange(fr.nnz)})
        try:
            for stepno in range(3):
                fh.sort()
                run.count("sort_history_steps")
                if not sorted_strict(fh.row, fh.col) or not np.array_equal(fh.pixels["tag"], np.arange(fr.nnz)) or \
                        not np.array_equal(fh.pixels["intensity"], fr.pixels["intensity"]):
                    V("sort:history", "sort() number %d on one frame (after sort_by / reorder) left it %s"
                      % (stepno + 1, "unsorted" if not sorted_strict(fh.row, fh.col) else "with detached values"))
                    break
                if stepno == 0:
                    fh.sort_by("key")
                else:
                    fh.reorder(r2.permutation(fr.nnz))
        except Exception as e:
            V("sort:history:exception:%s" % type(e).__name__, "sort/sort_by/reorder history raised %s: %s" % (type(e).__name__, e))
    # oversize must be refused, not silently wrapped
    if idx % 40 == 0:
        try:
            sparseframe.from_data_mask(np.ones((1, 65540), np.int8), np.ones((1, 65540), np.float32), {})
            V("from_data_mask:oversize", "image with 65540 columns accepted with 16 bit indices")
        except AssertionError:
            run.count("oversize_rejected")
        for big in ((1, 65540), (65537, 2)):
            try:
                sparseframe.from_data_cut(np.ones(big, np.float32), 0.5)
                V("from_data_cut:oversize", "image of shape %r accepted with 16 bit indices" % (big,))
            except AssertionError:
                run.count("oversize_rejected")


def overlap_case(run, seed, idx, mods):
    cImageD11, sparseframe = mods
    r = rng(seed, "C14", "ov", idx)
    shape = [(4, 4), (8, 13), (32, 32), (64, 50), (128, 128), (3, 300)][idx % 6]
    cls = ["partial", "identical", "disjoint", "random-labels", "partial", "same-last-pixel"][(idx // 2) % 6]
    tall = idx % 10 == 9
    if tall:
        # coordinates are 16 bit: exercise rows/columns beyond 32767 (sign bit of a packed 32 bit key) with frames
        # that straddle that line
        shape = [(40000, 6), (6, 40000), (65534, 3), (33000, 4)][(idx // 10) % 4]
    m1 = r.random(shape) < float(r.choice([0.1, 0.3, 0.6]))
    if tall:
        m1 = np.zeros(shape, bool)
        ax = 0 if shape[0] > shape[1] else 1
        for lo in (int(r.integers(0, 30000)), 32760, int(r.integers(32768, shape[ax] - 8))):
            sl = [slice(None), slice(None)]
            sl[ax] = slice(lo, lo + int(r.integers(3, 16)))
            m1[tuple(sl)] = r.random(m1[tuple(sl)].shape) < 0.7
    if cls == "identical":
        m2 = m1.copy()
    elif cls == "disjoint":
        m2 = (~m1) & (r.random(shape) < 0.5)
    elif tall:
        m2 = np.roll(m1, int(r.integers(-3, 4)), axis=0 if shape[0] > shape[1] else 1) & (r.random(shape) < 0.9)
    else:
        m2 = r.random(shape) < float(r.choice([0.1, 0.3, 0.6]))
    if cls == "same-last-pixel":
        m1[-1, -1] = m2[-1, -1] = True
    for m in (m1, m2):
        if not m.any():
            m.flat[int(r.integers(m.size))] = True
    if cls == "random-labels":
        n1, n2 = int(r.integers(1, 40)), int(r.integers(1, 40))
        l1 = np.where(m1, r.integers(1, n1 + 1, shape), 0)
        l2 = np.where(m2, r.integers(1, n2 + 1, shape), 0)
        # make sure the top label id is present (histogram edge)
        l1[np.nonzero(m1)[0][0], np.nonzero(m1)[1][0]] = n1
        l2[np.nonzero(m2)[0][-1], np.nonzero(m2)[1][-1]] = n2
    else:
        l1, n1 = imgs.ref_label(m1, True)
        l2, n2 = imgs.ref_label(m2, True)
    # unlabelled (background, label 0) pixels stored in the frames, as sparse_connectedpixels(threshold) leaves them
    r2 = rng(seed, "C14", "ov2", idx)
    bg = r2.random() < 0.25
    if bg:
        for l, m in ((l1, m1), (l2, m2)):
            z = m & (r2.random(shape) < float(r2.choice([0.05, 0.3, 0.7])))
            l[z] = 0
        if r2.random() < 0.3:
            # first / last stored pixel unlabelled
            l1[np.nonzero(m1)[0][0], np.nonzero(m1)[1][0]] = 0
            l2[np.nonzero(m2)[0][-1], np.nonzero(m2)[1][-1]] = 0
    # brute force
    both = (l1 > 0) & (l2 > 0)
    want = {}
    for a, b in zip(l1[both].tolist(), l2[both].tolist()):
        want[(a, b)] = want.get((a, b), 0) + 1
    desc = dict(index=idx, kind="overlap", shape=shape, cls=cls, n1=int(n1), n2=int(n2), background=bool(bg))
    if tall:
        run.count("overlap_cases_beyond_32767")
    has0 = bool(((l1 == 0) & m1).any() or ((l2 == 0) & m2).any())
    if has0:
        run.count("overlap_cases_with_label0_pixels")
    if not want:
        run.count("overlap_cases_no_shared_label_pair")
    run.case((shape, cls, hash(m1.tobytes()), hash(m2.tobytes())), nontrivial=len(want) >= 1,
             sample=dict(desc, pairs=len(want)))

    def V(key, what):
        run.violation(key, what, desc)

    f1 = sparseframe.from_data_mask(m1.astype(np.int8), l1.astype(np.int32), {})
    f2 = sparseframe.from_data_mask(m2.astype(np.int8), l2.astype(np.int32), {})
    lab1 = f1.pixels["intensity"].astype(np.int32)
    lab2 = f2.pixels["intensity"].astype(np.int32)
    f1.set_pixels("labels", lab1, {"nlabel": int(n1)})
    f2.set_pixels("labels", lab2, {"nlabel": int(n2)})

    def as_dict(rows, route):
        """pairs of labels >= 1 -> count; pairs naming the background 0 are counted but not judged (see LEVEL_NOTE)"""
        d = {}
        seen = set()
        for a, b, c in rows:
            if (int(a), int(b)) in seen:
                V(route + ":pair-twice", "label pair (%d,%d) listed twice" % (a, b))
            seen.add((int(a), int(b)))
            if int(a) <= 0 or int(b) <= 0:
                # label 0 is the background (stored pixel outside every peak): it is not a label that can overlap
                V(route + ":background-pair", "pair (%d,%d) names the background label" % (a, b))
                continue
            d[(int(a), int(b))] = int(c)
        return d

    run.count("overlap_cases")
    # linear
    ol = sparseframe.overlaps_linear(nnzmax=max(f1.nnz, f2.nnz, n1, n2) + 1)
    ne, rcl = ol(f1.row, f1.col, lab1, n1, f2.row, f2.col, lab2, n2)
    got = as_dict(rcl[:ne], "overlaps_linear") if ne else {}
    if got != want:
        V("overlaps_linear", "linear algorithm: %d pairs, brute force %d; first difference %r"
          % (len(got), len(want), sorted(set(got.items()) ^ set(want.items()))[:2]))
    # linear with a *small* initial buffer: must realloc by itself
    import contextlib, io
    with contextlib.redirect_stdout(io.StringIO()):
        ol2 = sparseframe.overlaps_linear(nnzmax=4)
        ne2, rcl2 = ol2(f1.row, f1.col, lab1, n1, f2.row, f2.col, lab2, n2)
    got2 = as_dict(rcl2[:ne2], "overlaps_linear(realloc)") if ne2 else {}
    if got2 != want:
        V("overlaps_linear:realloc", "linear algorithm with growing buffers differs from brute force")
    # matrix kernel on a buffer with guard zones on both sides: nothing outside mat / results may be written
    if (not has0) or pending("VERIF_PENDING_C14_LABEL0"):
        G = int(n2) + 8
        buf = np.full(G + n1 * n2 + G, -777, np.int32)
        mat = buf[G:G + n1 * n2].reshape(n1, n2)
        rbuf = np.full(3 * n1 * n2 + 16, -777, np.int32)
        nk = cImageD11.coverlaps(f1.row, f1.col, lab1, f2.row, f2.col, lab2, mat, rbuf)
        run.count("coverlaps_guarded_calls")
        if (buf[:G] != -777).any() or (buf[G + n1 * n2:] != -777).any():
            V("coverlaps:out-of-bounds", "coverlaps wrote outside its %dx%d matrix (%d guard words changed)"
              % (n1, n2, int((buf[:G] != -777).sum() + (buf[G + n1 * n2:] != -777).sum())))
        elif not (0 <= nk <= n1 * n2) or (rbuf[3 * max(nk, 0):] != -777).any():
            V("coverlaps:results-overrun", "coverlaps returned %d pairs / wrote past 3*npairs in results" % nk)
        else:
            gotk = as_dict(rbuf[:3 * nk].reshape(nk, 3), "coverlaps")
            if gotk != want:
                V("coverlaps", "matrix kernel: %d pairs, brute force %d; first difference %r"
                  % (len(gotk), len(want), sorted(set(gotk.items()) ^ set(want.items()))[:2]))
    # matrix object, reused over calls with different (n1, n2): swapped, self, then the pair itself
    if True:
        want21 = {(b, a): c for (a, b), c in want.items()}
        want11 = {(int(a), int(a)): int(c) for a, c in zip(*np.unique(l1[l1 > 0], return_counts=True))}
        with contextlib.redirect_stdout(io.StringIO()):
            om = sparseframe.overlaps_matrix(npkmax=4)
            for tag, (fa, la, na, fb, lb, nb, wnt) in (("swapped", (f2, lab2, n2, f1, lab1, n1, want21)),
                                                       ("self", (f1, lab1, n1, f1, lab1, n1, want11)),
                                                       ("", (f1, lab1, n1, f2, lab2, n2, want))):
                nm, res = om(fa.row, fa.col, la, na, fb.row, fb.col, lb, nb)
                gotm = as_dict(res[:nm], "overlaps_matrix") if nm else {}
                run.count("overlaps_matrix_calls")
                if gotm != wnt:
                    V("overlaps_matrix" + (":reused-" + tag if tag else ""),
                      "matrix algorithm (%s call on one object): %d pairs, brute force %d" % (tag or "main", len(gotm), len(wnt)))
    # overlaps() -> scipy coo (labels - 1); it documents that it assumes no 0 label
    if not has0 and (want or pending("VERIF_PENDING_C14_OVERLAPS_DISJOINT")):
        try:
            cm = sparseframe.overlaps(f1, "labels", f2, "labels")
        except Exception as e:
            V("overlaps:exception:%s" % type(e).__name__, "sparseframe.overlaps raised %s: %s (%d label pairs share pixels)"
              % (type(e).__name__, e, len(want)))
        else:
            co = cm.tocoo()
            gots = as_dict(zip(co.row + 1, co.col + 1, co.data), "overlaps")
            run.count("overlaps_calls")
            if gots != want or tuple(cm.shape) != (n1, n2):
                V("overlaps", "sparseframe.overlaps differs from brute force")
    # low level pixel matching
    k1 = np.zeros(f1.nnz, np.int32)
    k2 = np.zeros(f2.nnz, np.int32)
    npx = cImageD11.sparse_overlaps(f1.row, f1.col, k1, f2.row, f2.col, k2)
    if npx != int((m1 & m2).sum()) or not (np.array_equal(f1.row[k1[:npx]], f2.row[k2[:npx]]) and
                                       np.array_equal(f1.col[k1[:npx]], f2.col[k2[:npx]])):
        V("sparse_overlaps", "sparse_overlaps found %d shared pixels, dense comparison %d" % (npx, int((m1 & m2).sum())))


def _dense_labels(sc, shape):
    out = []
    for k in range(len(sc.nnz)):
        s0, e0 = sc.ipt[k], sc.ipt[k + 1]
        lab = np.zeros(shape, np.int64)
        lab[sc.row[s0:e0], sc.col[s0:e0]] = sc.labels[s0:e0]
        out.append(lab)
    return out


def _judge_stored(run, desc, what, ans, da, db, bgframes):
    """ans = (nedge, rcl) as stored by the consumer for dense label images da, db"""
    ne, rcl = ans
    both = (da > 0) & (db > 0)
    want = {}
    for a, b in zip(da[both].tolist(), db[both].tolist()):
        want[(a, b)] = want.get((a, b), 0) + 1
    rows = [(int(a), int(b), int(c)) for a, b, c in (rcl[:ne] if ne else [])]
    if len(set(r_[:2] for r_ in rows)) != len(rows):
        run.violation(what + ":pair-twice", "a label pair is stored twice", desc)
        return False
    if bgframes:
        # unlabelled pixels present (threshold above the weakest stored pixel): no pair may name the background
        run.count("pairrow_runs_with_background_pixels")
        nbg = sum(1 for a, b, c in rows if a == 0 or b == 0)
        if nbg:
            run.violation(what + ":background-pair", "%d stored pairs name the background label 0" % nbg, desc)
            return False
    got = {(a, b): c for a, b, c in rows}
    if got != want or len(rows) != len(want):
        run.violation(what + ":stored-overlaps", "overlaps stored by properties.%s differ from the brute-force count "
                      "(%d pairs stored, %d expected)" % (what, len(got), len(want)), desc)
        return False
    return True


def pairrow_case(run, seed, idx, sparseframe):
    """properties.pairrow / pairscans: overlaps between consecutive frames of a labelled sparse scan (or matching frames of
    two scans), as stored by the real consumers (one overlaps_linear object is called for every frame pair and all
    answers are kept)"""
    import os, tempfile, shutil, contextlib, io
    from ..common import WORK
    from ImageD11.sinograms import properties
    r = rng(seed, "C14", "pairrow", idx)
    shape = [(12, 10), (32, 32), (50, 40)][idx % 3]
    nfr = int(r.integers(3, 9))
    frames = []
    for k in range(nfr):
        m = r.random(shape) < float(r.choice([0.15, 0.35, 0.6]))
        if k == 2 and idx % 2:
            m[:] = False                      # an empty frame in the middle
        img = np.where(m, r.random(shape) * 100 + 1, 0).astype(np.float32)
        frames.append((m, img))
    r2 = rng(seed, "C14", "pairrow2", idx)
    # scan direction: consecutive means consecutive in omega, not in storage order
    okind = ["increasing", "decreasing", "shuffled"][int(r2.integers(3))]
    # (no omega within the matching tolerance of a multiple of 360: pairscans compares omega % 360 linearly, so a frame at
    # 360.00 and its partner at 359.99 are not matched - frame matching is not part of this property's statement)
    omega = np.arange(nfr) * 0.5 + float(r2.choice([0.25, -180.25, 359.25]))
    if okind == "decreasing":
        omega = omega[::-1].copy()
    elif okind == "shuffled":
        omega = omega[r2.permutation(nfr)]
    # threshold below every stored pixel (all pixels labelled) or inside the range (unlabelled pixels are stored)
    thr = 0.5 if r2.random() < 0.6 else float(r2.choice([20.0, 50.0, 90.0]))
    desc = dict(index=idx, kind="pairrow", shape=shape, nframes=nfr, omega=okind, threshold=thr)
    run.case(("pairrow", shape, nfr, idx), nontrivial=True, sample=desc if idx < 2 else None)
    os.makedirs(os.path.join(WORK, "tmp"), exist_ok=True)
    d = tempfile.mkdtemp(prefix="c14p_", dir=os.path.join(WORK, "tmp"))
    try:
        fn = os.path.join(d, "scan.h5")
        imgs.write_sparse_scan(fn, frames, omega=omega)
        sc = sparseframe.SparseScan(fn, "1.1")
        sc.cplabel(threshold=thr, countall=False)
        with contextlib.redirect_stdout(io.StringIO()):
            pairs = properties.pairrow(sc, 7)
        run.count("pairrow_runs")
        run.count("pairrow_omega_" + okind)
        dense = _dense_labels(sc, shape)
        bgframes = bool((sc.labels == 0).any())
        if bgframes:
            run.count("pairrow_runs_with_unlabelled_pixels")
        order = sorted(range(nfr), key=lambda k: omega[k])
        expected_keys = set()
        for a, b in zip(order[:-1], order[1:]):
            if sc.nnz[a] == 0 or sc.nnz[b] == 0:
                continue
            key = (7, a, 7, b)
            expected_keys.add(key)
            if key not in pairs:
                run.violation("pairrow:missing", "frame pair %r (consecutive in omega) missing from pairrow result" % (key,), desc)
                return
            run.count("pairrow_pairs_checked")
            if not _judge_stored(run, dict(desc, frames=[a, b]), "pairrow", pairs[key], dense[a], dense[b], bgframes):
                return
        extra = set(tuple(int(v) for v in k) for k in pairs) - expected_keys
        if extra:
            run.violation("pairrow:unexpected-pair", "pairrow stored frame pairs that are not consecutive in omega: %r"
                          % (sorted(extra)[:3],), desc)
            return
        # ---- pairscans: a second scan whose frames are matched by omega modulo 360
        frames2 = []
        for k in range(nfr):
            m = frames[k][0] & (r2.random(shape) < 0.8) | (r2.random(shape) < 0.1)
            if k == 1 and idx % 3 == 0:
                m[:] = False
            frames2.append((m, np.where(m, r2.random(shape) * 100 + 1, 0).astype(np.float32)))
        perm = r2.permutation(nfr) if r2.random() < 0.5 else np.arange(nfr)
        # frame j of scan 2 was taken at the omega of frame perm[j] of scan 1, one turn later, with a small jitter
        omega2 = omega[perm] + float(r2.choice([0.0, 360.0, -360.0])) + r2.uniform(-0.02, 0.02, nfr)
        lonely = int(r2.integers(nfr)) if r2.random() < 0.5 else -1
        if lonely >= 0:
            omega2[lonely] += 0.2          # farther than omegatol from every frame of scan 1 (step 0.5)
        fn2 = os.path.join(d, "scan2.h5")
        imgs.write_sparse_scan(fn2, [frames2[j] for j in range(nfr)], omega=omega2)
        # frames2[j] is stored as frame j of scan 2
        sc2 = sparseframe.SparseScan(fn2, "1.1")
        sc2.cplabel(threshold=thr, countall=False)
        sc.sinorow, sc2.sinorow = 7, 8
        with contextlib.redirect_stdout(io.StringIO()):
            p2 = properties.pairscans(sc, sc2)
        run.count("pairscans_runs")
        dense2 = _dense_labels(sc2, shape)
        bg2 = bgframes or bool((sc2.labels == 0).any())
        expk = set()
        for i in range(nfr):
            j = int(np.nonzero(perm == i)[0][0])
            if j == lonely or sc.nnz[i] == 0 or sc2.nnz[j] == 0:
                continue
            key = (7, i, 8, j)
            expk.add(key)
            if key not in p2:
                run.violation("pairscans:missing", "frame pair %r (same omega modulo 360) missing from pairscans result" % (key,), desc)
                return
            run.count("pairscans_pairs_checked")
            if not _judge_stored(run, dict(desc, frames=[i, j]), "pairscans", p2[key], dense[i], dense2[j], bg2):
                return
        extra = set(tuple(int(v) for v in k) for k in p2) - expk
        if extra:
            run.violation("pairscans:unexpected-pair", "pairscans stored frame pairs whose omega differ by more than the tolerance: %r"
                          % (sorted(extra)[:3],), desc)
    finally:
        shutil.rmtree(d, ignore_errors=True)


def check(run, replay=None):
    from ImageD11 import cImageD11, sparseframe
    mods = (cImageD11, sparseframe)
    if replay is not None:
        cs = replay["case"]
        if cs["kind"] == "pairrow":
            pairrow_case(run, replay["seed"], cs["index"], sparseframe)
        else:
            (overlap_case if cs["kind"] == "overlap" else roundtrip_case)(run, replay["seed"], cs["index"], mods)
        run.nontrivial.update(["replay", "replay2"])
        return
    nr, no = (330, 400) if run.tier == "quick" else (20000, 30000)
    for i in range(nr):
        roundtrip_case(run, run.seed, i, mods)
    for i in range(no):
        overlap_case(run, run.seed, i, mods)
    for i in range(20 if run.tier == "quick" else 600):
        pairrow_case(run, run.seed, i, sparseframe)
    run.require_counter("pairrow_pairs_checked", 20)
    run.require_counter("pairscans_pairs_checked", 20)
    for k in ("increasing", "decreasing", "shuffled"):
        run.require_counter("pairrow_omega_" + k, 2)
    run.require_counter("pairrow_runs_with_unlabelled_pixels", 3)
    run.require_counter("roundtrips", 100)
    for k in ("int8", "bool", "uint8", "int8-big"):
        run.require_counter("maskrep_" + k, 20)
    for k in ("none", "ones", "p80", "p30"):
        run.require_counter("cut_detmask_" + k, 10)
    run.require_counter("cut_selective_under_partial_detmask", 20)
    for lk in ("F", "T", "strided"):
        run.require_counter("layout_data_" + lk, 20)
    run.require_counter("mask_method_calls", 100)
    run.require_counter("threshold_method_calls", 50)
    run.require_counter("sort_calls", 50)
    run.require_counter("duplicate_position_checks", 50)
    run.require_counter("mixed_duplicate_inversion_checks", 50)
    run.require_counter("oversize_rejected", 3)
    run.require_counter("overlap_cases", 100)
    run.require_counter("overlap_cases_beyond_32767", 10)
    run.require_counter("overlap_cases_with_label0_pixels", 30)
    run.require_counter("overlap_cases_no_shared_label_pair", 20)
    run.require_counter("coverlaps_guarded_calls", 100)
    run.require_counter("overlaps_matrix_calls", 300)
    run.require_counter("overlaps_calls", 100)
    run.require_counter("negmask_accepted", 50)
    run.extra["pending_subchecks"] = {k: ("on" if os.environ.get(k) else "off (fails on the repaired tree, awaiting decision): ") + v
                                      for k, v in PENDING.items()}


# workloads added in seeding rounds 7-10 (DESIGN.md sections 13.9-13.12)
LEVEL_TEXT = LEVEL_TEXT + ' Later additions: uint16 images with cuts that are not whole numbers.'
