"""C17 - columnfile stays rectangular and self-consistent under any operation sequence.

Oracle: executable reference model (ordered dict title -> list of values + nrows)
advanced by the same operation; after EVERY step the harness compares titles,
nrows and the three views of every column (attribute, item, getcolumn) with
the model, and checks that copies share no storage.  Histories: exhaustive to
a bounded depth over a reduced-parameter alphabet from four start states,
random long sequences beyond.
"""
import itertools, os, tempfile
from collections import OrderedDict
import numpy as np
from ..common import rng, WORK

TECHNIQUE = ("runtime history monitor: executable reference model (dict of lists) stepped in lock-step with the real columnfile "
             "+ icontract postconditions on its mutators (also switched on for the repository's own columnfile tests); "
             "quiescent-point comparison of titles/nrows and the attribute/item/getcolumn views after every operation; storage-sharing "
             "probe on copies; bounded-exhaustive operation sequences + random long histories; second engine without a model: "
             "per-operation snapshot contracts (written column holds the written values, unrelated columns unchanged, every "
             "column = its snapshot under the ONE selection/permutation, copies share nothing, write-through probes between the "
             "three views) over fully random parameters incl. columns that alias other columns")
LEVEL_TEXT = ("Bounded-exhaustive exploration: ALL operation sequences up to depth 3 (quick) / 4 (thorough) over a 19-operation "
              "reduced-parameter alphabet, from four start states (newcolumnfile+set_bigarray, text-file-loaded, colfile_from_dict, "
              "HDF-loaded), plus random histories of length 10-60. The reference model is compared after every single step. "
              "Free engine: 2500 (quick) / 60000 (thorough) random histories of 6-40 operations from six start states (also an "
              "empty columnfile and integer columns), values given as fresh arrays, python lists, int/float32/strided arrays or "
              "as another column of the same object (aliases), targets drawn among all current titles, boolean/int/list "
              "masks incl. all-False (zero rows), removerows with and without tol, random permutations, copyrows by boolean "
              "mask / index array / list / slice / repeated indices, bigarray get and set in three forms.")
LEVEL_NOTE = ("Exhaustive only over the reduced alphabet and stated depth; parameters of each operation are fixed functions of the "
              "current state; sort results are judged by 'key sorted and row multiset preserved' so tie order is not prescribed. "
              "Free engine: an overwrite of an existing integer/float32 column in place may keep the column type (numpy cast "
              "accepted); a column that the caller made an alias of the written one may follow it; titles that shadow "
              "attributes of the class (nrows, filter, ...) are not generated.")

RULE = ("a case = one operation history (start state, op sequence); non-trivial = the history contains a row operation after a "
        "column write; distinct = (start state, op sequence)")

OPS = ["addcolumn_new", "addcolumn_existing", "setcolumn", "setitem_scalar", "setitem_array", "setitem_new", "setattr_scalar",
       "setattr_array", "filter_alt", "filter_all", "filter_first", "removerows", "sortby", "reorder", "copy", "copyrows",
       "get_bigarray", "set_bigarray_list", "set_bigarray_2d"]
ROWOPS = {"filter_alt", "filter_all", "filter_first", "removerows", "sortby", "reorder", "copyrows"}
WRITEOPS = {"addcolumn_new", "addcolumn_existing", "setcolumn", "setitem_scalar", "setitem_array", "setitem_new",
            "setattr_scalar", "setattr_array", "set_bigarray_list", "set_bigarray_2d", "get_bigarray"}
STARTS = ["new+set_bigarray", "file", "dict", "hdf"]


class Broken(Exception):
    def __init__(self, key, what):
        Exception.__init__(self, what)
        self.key, self.what = key, what


def start_state(columnfile, kind, tmpdir, tag):
    titles = ["a", "b", "c"]
    n = 5
    data = OrderedDict()
    data["a"] = [3.0, 1.0, 4.0, 1.5, 9.0]
    data["b"] = [2.0, 7.0, 1.0, 8.0, 2.5]
    data["c"] = [0.5, -1.0, 6.0, 0.25, 3.0]
    if kind == "new+set_bigarray":
        cf = columnfile.newcolumnfile(list(titles))
        cf.set_bigarray([np.array(data[t]) for t in titles])
    elif kind == "dict":
        cf = columnfile.colfile_from_dict(OrderedDict((t, np.array(data[t])) for t in titles))
    else:
        fn = os.path.join(tmpdir, "start_%s.flt" % tag)
        if not os.path.exists(fn):
            with open(fn, "w") as f:
                f.write("#  a  b  c\n")
                for i in range(n):
                    f.write("  %r  %r  %r\n" % (data["a"][i], data["b"][i], data["c"][i]))
        if kind == "file":
            cf = columnfile.columnfile(fn)
        else:
            h5 = os.path.join(tmpdir, "start_%s.h5" % tag)
            if not os.path.exists(h5):
                columnfile.colfile_to_hdf(columnfile.columnfile(fn), h5, name="peaks")
            cf = columnfile.colfile_from_hdf(h5, name="peaks")
    return cf, OrderedDict((t, list(v)) for t, v in data.items())


def compare(cf, model, where):
    titles = list(model.keys())
    if list(cf.titles) != titles:
        raise Broken("titles", "%s: titles %r, model %r" % (where, list(cf.titles), titles))
    n = len(next(iter(model.values()))) if model else 0
    if cf.nrows != n:
        raise Broken("nrows", "%s: nrows %r, model %d" % (where, cf.nrows, n))
    for t in titles:
        want = np.array(model[t], float)
        views = {}
        try:
            views["attribute"] = getattr(cf, t)
            views["item"] = cf[t]
            views["getcolumn"] = cf.getcolumn(t)
        except Exception as e:
            raise Broken("view-exception", "%s: reading column %s raised %s: %s" % (where, t, type(e).__name__, e))
        for vn, v in views.items():
            if np.isscalar(v) or np.ndim(v) != 1:
                raise Broken("view-not-array:" + vn, "%s: the %s view of column %s is %r, not a 1-D array of nrows entries"
                             % (where, vn, t, type(v).__name__))
            if len(v) != n:
                raise Broken("ragged:" + vn, "%s: column %s has %d entries through the %s view, nrows is %d"
                             % (where, t, len(v), vn, n))
            if not np.array_equal(np.asarray(v, float), want):
                raise Broken("value:" + vn, "%s: column %s through the %s view is %r, model %r"
                             % (where, t, vn, np.asarray(v).tolist(), want.tolist()))


def shares(cf1, cf2):
    for t in cf1.titles:
        for u in cf2.titles:
            if np.shares_memory(np.asarray(cf1.getcolumn(t)), np.asarray(cf2.getcolumn(u))):
                return (t, u)
            a, b = getattr(cf1, t), getattr(cf2, u)
            if isinstance(a, np.ndarray) and isinstance(b, np.ndarray) and np.shares_memory(a, b):
                return (t, u)
    return None


def apply(columnfile, cf, model, op, step):
    """apply op to both; returns (cf, model) (copy ops continue on the copy)"""
    titles = list(model.keys())
    n = len(model[titles[0]])
    k = step + 1
    vals = lambda off: [float(off + 1.25 * i * (1 if i % 2 else -1)) for i in range(n)]
    if op == "addcolumn_new":
        name = "n%d" % k
        v = vals(10 * k)
        cf.addcolumn(np.array(v), name)
        model[name] = list(v)
    elif op == "addcolumn_existing":
        v = vals(20 * k)
        cf.addcolumn(np.array(v), "a")
        model["a"] = list(v)
    elif op == "setcolumn":
        v = vals(30 * k)
        cf.setcolumn(np.array(v), "b")
        model["b"] = list(v)
    elif op == "setitem_scalar":
        cf["a"] = 7.5
        model["a"] = [7.5] * n
    elif op == "setitem_array":
        v = vals(40 * k)
        cf["b"] = np.array(v)
        model["b"] = list(v)
    elif op == "setitem_new":
        name = "m%d" % k
        v = vals(50 * k)
        cf[name] = np.array(v)
        model[name] = list(v)
    elif op == "setattr_scalar":
        cf.c = -2.0
        model["c"] = [-2.0] * n
    elif op == "setattr_array":
        v = vals(60 * k)
        cf.a = np.array(v)
        model["a"] = list(v)
    elif op in ("filter_alt", "filter_all", "filter_first"):
        if op == "filter_alt":
            m = [i % 2 == 0 for i in range(n)]
        elif op == "filter_all":
            m = [True] * n
        else:
            m = [i == 0 for i in range(n)]
        cf.filter(np.array(m))
        for t in titles:
            model[t] = [x for x, keep in zip(model[t], m) if keep]
    elif op == "removerows":
        val = int(model["a"][-1])
        cf.removerows("a", [val])
        keep = [int(x) != val for x in model["a"]]
        if not any(keep):
            raise Skip()
        for t in titles:
            model[t] = [x for x, kp in zip(model[t], keep) if kp]
    elif op == "sortby":
        before = sorted(zip(*[model[t] for t in titles]))
        cf.sortby("b")
        key = np.asarray(cf.getcolumn("b"), float)
        if (np.diff(key) < 0).any():
            raise Broken("sortby:not-sorted", "after sortby('b') the key column is %r" % key.tolist())
        try:
            after = sorted(zip(*[np.asarray(cf.getcolumn(t), float).tolist() for t in titles]))
        except Exception as e:
            raise Broken("sortby:exception", "reading columns after sortby raised %s" % e)
        if after != before:
            raise Broken("sortby:rows-not-permuted", "sortby did not apply one permutation to every column")
        for t in titles:
            model[t] = np.asarray(cf.getcolumn(t), float).tolist()
    elif op == "reorder":
        perm = list(range(n))[::-1]
        cf.reorder(np.array(perm))
        for t in titles:
            model[t] = [model[t][p] for p in perm]
    elif op == "copy":
        c2 = cf.copy()
        compare(c2, model, "copy()")
        sh = shares(cf, c2)
        if sh:
            raise Broken("copy:shared-storage", "copy() shares storage with the original (columns %s/%s)" % sh)
        # mutate the copy, the original must not change
        snap = OrderedDict((t, list(v)) for t, v in model.items())
        c2[titles[0]] = 12345.0
        compare(cf, snap, "original after writing into its copy")
        c2[titles[0]] = np.array(model[titles[0]])
        cf = c2
    elif op == "copyrows":
        rows = [i for i in range(n) if i % 2 == 0]
        c2 = cf.copyrows(np.array(rows))
        m2 = OrderedDict((t, [model[t][i] for i in rows]) for t in titles)
        compare(c2, m2, "copyrows()")
        sh = shares(cf, c2)
        if sh:
            raise Broken("copyrows:shared-storage", "copyrows() shares storage with the original (columns %s/%s)" % sh)
        compare(cf, model, "original after copyrows")
        cf, model = c2, m2
    elif op == "get_bigarray":
        b = cf.bigarray
        if np.shape(b) != (len(titles), n):
            raise Broken("bigarray:shape", "bigarray shape %r, expected %r" % (np.shape(b), (len(titles), n)))
        if not np.array_equal(np.asarray(b, float), np.array([model[t] for t in titles], float)):
            raise Broken("bigarray:values", "bigarray values differ from the columns")
    elif op in ("set_bigarray_list", "set_bigarray_2d"):
        n2 = n if k % 2 else n + 1
        arr = [[float(100 * k + 10 * ci + i) for i in range(n2)] for ci in range(len(titles))]
        if op == "set_bigarray_list":
            cf.set_bigarray([np.array(a) for a in arr])
        else:
            cf.bigarray = np.array(arr)
        for ci, t in enumerate(titles):
            model[t] = list(arr[ci])
    else:
        raise ValueError(op)
    return cf, model


class Skip(Exception):
    pass


def run_history(run, columnfile, start, seq, tmpdir, tag):
    try:
        cf, model = start_state(columnfile, start, tmpdir, tag)
        compare(cf, model, "start state %s" % start)
    except Broken as b:
        run.violation("start:%s:%s" % (start, b.key), b.what, dict(start=start, ops=[]))
        return
    for step, op in enumerate(seq):
        where = "%s after %s" % (start, " -> ".join(seq[:step + 1]))
        try:
            cf, model = apply(columnfile, cf, model, op, step)
            compare(cf, model, where)
            run.count("steps_compared")
        except Skip:
            run.count("histories_cut_short")
            return
        except Broken as b:
            prev = seq[step - 1] if step else "start"
            run.violation("%s:%s" % (op, b.key), "%s: %s" % (where, b.what),
                          dict(start=start, ops=list(seq[:step + 1])))
            return
        except Exception as e:
            run.violation("%s:exception:%s" % (op, type(e).__name__),
                          "%s raised %s: %s" % (where, type(e).__name__, e), dict(start=start, ops=list(seq[:step + 1])))
            return


def repo_tests_under_contracts(run, tmpdir):
    """the repository's own columnfile tests, re-run with the icontract postconditions switched on"""
    import shutil, subprocess, re
    from ..common import REPO, PY
    src = os.path.join(REPO, "test", "test_columnfile.py")
    if not os.path.exists(src):
        run.count("repo_tests_missing")
        return
    d = os.path.join(tmpdir, "repotests")
    os.makedirs(d)
    shutil.copy(src, d)
    p = subprocess.run([PY, "-m", "vlib.contracts_columnfile", "test_columnfile.py"], cwd=d, stdout=subprocess.PIPE,
                       stderr=subprocess.STDOUT, timeout=600)
    txt = p.stdout.decode(errors="replace")
    m = re.search(r"CONTRACT_EVALUATIONS (\d+)", txt)
    nev = int(m.group(1)) if m else 0
    run.count("contract_evaluations_in_repo_tests", nev)
    if "PostBroken" in txt:
        run.violation("contracts:repo-tests", "a columnfile postcondition fired while running the repository's own tests: %s"
                      % txt[-600:], dict(start="repo-tests", ops=[]))
    elif p.returncode != 0:
        run.inconc("repository columnfile tests did not pass under contracts (rc %d): %s" % (p.returncode, txt[-300:]))
    elif nev == 0:
        run.inconc("contracts were never evaluated in the repository tests (bound before decoration?)")


def check(run, replay=None):
    from ImageD11 import columnfile
    from .. import contracts_columnfile, c17_free
    contracts_columnfile.install()      # every history below also runs under the postconditions
    os.makedirs(os.path.join(WORK, "tmp"), exist_ok=True)
    tmpdir = tempfile.mkdtemp(prefix="c17_", dir=os.path.join(WORK, "tmp"))
    import contextlib, io, shutil
    try:
        with contextlib.redirect_stdout(io.StringIO()):
            if replay is not None and "free" in replay["case"]:
                fr = replay["case"]["free"]
                rr = rng(replay["seed"], "C17", "free", fr["i"])
                rr.integers(6, 40)               # the history length was drawn from this stream first
                c17_free.run_history(run, columnfile, rr, fr["start"], fr["L"],
                                     tmpdir, "r", dict(start="free", ops=[], free=fr))
                run.evaluations += 1
                run.nontrivial.update(["replay", "replay2"])
                return
            if replay is not None:
                cs = replay["case"]
                run_history(run, columnfile, cs["start"], cs["ops"], tmpdir, "r")
                run.evaluations += 1
                run.nontrivial.update(["replay", "replay2"])
                return
            depth = 3 if run.tier == "quick" else 4
            for start in STARTS:
                for d in range(1, depth + 1):
                    for seq in itertools.product(OPS, repeat=d):
                        nt = any(seq[i] in WRITEOPS and any(s in ROWOPS for s in seq[i + 1:]) for i in range(len(seq)))
                        run.case((start, seq), nontrivial=nt,
                                 sample=dict(start=start, ops=list(seq)) if (d == 3 and run.evaluations % 5000 == 7) else None)
                        run_history(run, columnfile, start, seq, tmpdir, start[:3])
                        run.count("exhaustive_histories")
            nrand = 1500 if run.tier == "quick" else 20000
            for i in range(nrand):
                r = rng(run.seed, "C17", i)
                L = int(r.integers(10, 61))
                seq = tuple(OPS[int(x)] for x in r.integers(0, len(OPS), L))
                start = STARTS[i % 4]
                run.case((start, seq), nontrivial=True, sample=dict(start=start, ops=list(seq)) if i < 2 else None)
                run_history(run, columnfile, start, seq, tmpdir, start[:3])
                run.count("random_histories")
            nfree = 2500 if run.tier == "quick" else 60000
            for i in range(nfree):
                r = rng(run.seed, "C17", "free", i)
                st = c17_free.STARTS[i % len(c17_free.STARTS)]
                L = int(r.integers(6, 40))
                fr = dict(i=i, start=st, L=L)
                run.case(("free", st, i), nontrivial=True, sample=dict(start="free", free=fr) if i < 2 else None)
                c17_free.run_history(run, columnfile, r, st, L, tmpdir, "f", dict(start="free", ops=[], free=fr))
                run.count("free_histories")
        repo_tests_under_contracts(run, tmpdir)
        run.require_counter("free_steps_checked", 10000)
        run.require_counter("free_alias_writes", 200)
        run.require_counter("free_steps_on_zero_rows", 200)
        run.require_counter("free_write_through_probes", 2000)
        run.count("contract_evaluations_in_histories", contracts_columnfile.COUNT["evaluations"])
        run.require_counter("contract_evaluations_in_histories", 1000)
        run.extra["exhaustive_depth"] = depth
        run.extra["alphabet"] = OPS
        run.extra["exhaustive_over_reduced_alphabet"] = True
        run.require_counter("steps_compared", 10000)
    finally:
        shutil.rmtree(tmpdir, ignore_errors=True)


# workloads added in seeding rounds 7-10 (DESIGN.md sections 13.9-13.12)
LEVEL_TEXT = LEVEL_TEXT + ' Later additions: columns of another length offered to a table that has columns (also an emptied one): refused or the table stays rectangular.'
LEVEL_TEXT = LEVEL_TEXT + ' Round 11: start state with a read-only column; a refused row operation leaves every column unchanged.'
