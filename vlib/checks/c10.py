"""C10 - finite strain tensors are objective, symmetric and exact for known deformations.

Oracle: grains are constructed in real space as a_i = R.S.a0_i (ubi = ubi0.S.R^T)
with a known symmetric positive stretch S and rotation R, so F = R.S exactly and
the Seth-Hill tensors have the closed form (S^2m - I)/2m (log S for m=0) via the
eigen-decomposition of S.  Objectivity, symmetry, zero strain, first-order
agreement and map-vs-grain differential are asserted on the real outputs.
"""
import contextlib, io
import numpy as np
from .. import xtal
from ..common import rng

TECHNIQUE = ("runtime closed-form oracle: Seth-Hill tensors from a known (S,R) via eigen-decomposition compared with "
             "grain.eps_grain/eps_sample(+_matrix), finite_strain.DeformationGradientTensor, tensor_map vectorised strains "
             "and TensorMap.eps_sample/eps_crystal in both access orders; objectivity/symmetry/zero-strain/first-order laws")
LEVEL_TEXT = ("Exploration: triclinic..cubic reference cells (given as cell parameters or as another grain), random rotations, "
              "stretches up to 10%, m in {-1,-0.5,0,0.5,1,1.5,2}; every tensor is compared with the closed form to 1e-10, rotated-grain "
              "runs check objectivity, identical cells must give exactly zero, map strains are compared per voxel with the per-grain "
              "ones and the rotate-from-cache path with its documented law U.E.U^T.")
LEVEL_NOTE = ("Trusts numpy eigh/svd in float64; the cached-rotation path of TensorMap is held to eps_sample = U.eps_crystal.U^T "
              "with the map's own U (differs from the polar R at second order in strain).")

RULE = ("a case = (reference kind: cell|grain, cell kind, stretch magnitude, rotation kind) evaluated for all seven m; "
        "non-trivial = non-zero stretch with a non-identity rotation; distinct = (ref kind, cell kind, magnitude, rounded cell)")

MS = (-1.0, -0.5, 0.0, 0.5, 1.0, 1.5, 2.0)


def seth_hill(S, m):
    w, v = np.linalg.eigh(S)
    if m == 0:
        f = np.log(w)
    else:
        f = (w ** (2 * m) - 1) / (2 * m)
    return (v * f) @ v.T


def sym6(E):
    return np.array([E[0, 0], E[0, 1], E[0, 2], E[1, 1], E[1, 2], E[2, 2]])


def gen_stretch(r, mag):
    if mag == 0:
        return np.eye(3)
    Q = xtal.random_rotation(r)
    lam = 1 + r.uniform(-mag, mag, 3)
    return (Q * lam) @ Q.T


def one_case(run, seed, idx, mods):
    grain, finite_strain, unitcell = mods
    r = rng(seed, "C10", "g", idx)
    kind = xtal.KINDS[idx % 7]
    cell0 = xtal.random_cell(r, kind)
    refkind = "grain" if idx % 3 == 0 else "cell"
    mag = float([0.0, 1e-6, 1e-4, 1e-3, 1e-2, 0.1][idx % 6])
    rk = ["haar", "identity", "haar", "pi", "near-identity"][idx % 5]
    R = xtal.random_rotation(r, rk)
    S = gen_stretch(r, mag)
    B0 = unitcell.unitcell(cell0).B          # reference exactly as the library builds it
    if refkind == "grain":
        U0 = xtal.random_rotation(r)
        g0 = grain.grain(np.linalg.inv(U0 @ B0))
        ubi0 = g0.ubi
        ref = g0
    else:
        ubi0 = np.linalg.inv(B0)
        ref = cell0
    ubi = ubi0 @ S @ R.T                     # rows a_i = R S a0_i
    g = grain.grain(ubi)
    desc = dict(index=idx, kind=kind, ref=refkind, mag=mag, rot=rk, cell=cell0)
    run.case((refkind, kind, mag, tuple(round(c, 2) for c in cell0)), nontrivial=(mag > 0 and rk != "identity"),
             sample=desc)

    def V(key, what, **kw):
        run.violation(key, what, dict(desc, **kw))

    eps = float(np.abs(S - np.eye(3)).max())
    tol = 1e-10 * max(1.0, 1.0)
    Es = {}
    for m in MS:
        want_g = seth_hill(S, m)
        want_s = R @ want_g @ R.T
        Eg = g.eps_grain_matrix(ref, m)
        Esm = g.eps_sample_matrix(ref, m)
        run.count("tensors_checked", 2)
        Es[m] = Eg
        if np.abs(Eg - want_g).max() > tol:
            V("eps_grain:value:m=%g" % m, "eps_grain_matrix(m=%g) differs from (S^2m-I)/2m by %.3g"
              % (m, np.abs(Eg - want_g).max()), m=m)
        if np.abs(Esm - want_s).max() > tol:
            V("eps_sample:value:m=%g" % m, "eps_sample_matrix(m=%g) differs from R.E.R^T by %.3g"
              % (m, np.abs(Esm - want_s).max()), m=m)
        if np.abs(Eg - Eg.T).max() > 1e-13 or np.abs(Esm - Esm.T).max() > 1e-13:
            V("symmetry:m=%g" % m, "strain tensor not symmetric", m=m)
        if not np.allclose(g.eps_grain(ref, m), sym6(Eg), rtol=0, atol=0) or \
                not np.allclose(g.eps_sample(ref, m), sym6(Esm), rtol=0, atol=0):
            V("e6:m=%g" % m, "6-vector form differs from the matrix form", m=m)
        if mag == 0 and (np.abs(Eg).max() > 1e-12 or np.abs(Esm).max() > 1e-12):
            V("zero-strain:m=%g" % m, "identical cells give non-zero strain %.3g" % max(np.abs(Eg).max(), np.abs(Esm).max()), m=m)
        # DeformationGradientTensor directly
        ub0 = ref.UB if refkind == "grain" else B0
        D = finite_strain.DeformationGradientTensor(ubi, ub0)
        if np.abs(D.F - R @ S).max() > 1e-11:
            V("F", "deformation gradient != R.S (err %.3g)" % np.abs(D.F - R @ S).max())
        if np.abs(D.finite_strain_ref(m) - want_g).max() > tol or np.abs(D.finite_strain_lab(m) - want_s).max() > tol:
            V("DGT:m=%g" % m, "DeformationGradientTensor.finite_strain_ref/lab wrong", m=m)
    Vp, Rp, Sp = D.VRS
    if mag > 0 and (np.abs(Rp - R).max() > 1e-10 or np.abs(Sp - S).max() > 1e-10 or np.abs(Vp - R @ S @ R.T).max() > 1e-10):
        V("polar", "polar decomposition does not return the known R, S, V")
    # objectivity: rotate the grain
    Q = xtal.random_rotation(r)
    g2 = grain.grain(ubi @ Q.T)
    for m in MS:
        run.count("objectivity_checks")
        if np.abs(g2.eps_grain_matrix(ref, m) - Es[m]).max() > tol:
            V("objectivity:grain:m=%g" % m, "grain-frame strain changed by %.3g when the grain was rotated"
              % np.abs(g2.eps_grain_matrix(ref, m) - Es[m]).max(), m=m)
        if np.abs(g2.eps_sample_matrix(ref, m) - Q @ g.eps_sample_matrix(ref, m) @ Q.T).max() > tol:
            V("objectivity:sample:m=%g" % m, "sample-frame strain is not rotated with the grain", m=m)
    # first order agreement between different m
    e2 = float(np.linalg.norm(S - np.eye(3), 2))
    for m in MS:
        for mm in MS:
            if np.linalg.norm(Es[m] - Es[mm], 2) > 3.0 * e2 ** 2 + 6.0 * e2 ** 3 + 1e-12:
                V("first-order", "E(m=%g) and E(m=%g) differ by %.3g > 3|e|^2 (|e|=%.3g)"
                  % (m, mm, np.linalg.norm(Es[m] - Es[mm], 2), e2), m=m, m2=mm)
                break


def one_map(run, seed, idx, mods, tmap):
    grain, finite_strain, unitcell = mods
    r = rng(seed, "C10", "m", idx)
    shp = [(1, 1, 1), (1, 3, 4), (2, 5, 3), (1, 7, 1)][idx % 4]
    n = int(np.prod(shp))
    kind = xtal.KINDS[idx % 7]
    cell0 = xtal.random_cell(r, kind)
    uc = unitcell.unitcell(cell0)
    B0 = uc.B
    mag = float([1e-4, 2e-3, 1e-2, 0.0][idx % 4])
    ubis = np.empty((n, 3, 3))
    for i in range(n):
        ubis[i] = np.linalg.inv(B0) @ gen_stretch(r, mag) @ xtal.random_rotation(r).T
    mask = r.random(n) < 0.2
    if n == 1:
        mask[:] = False
    ubimap = ubis.reshape(shp + (3, 3)).copy()
    ubimap.reshape(n, 3, 3)[mask] = np.nan
    desc = dict(index=idx, shape=shp, kind=kind, mag=mag, cell=cell0, n_nan=int(mask.sum()))
    run.case(("map", shp, kind, mag), nontrivial=mag > 0, sample=desc)

    def V(key, what, **kw):
        run.violation(key, what, dict(desc, **kw))

    cellmap = np.broadcast_to(np.array(cell0), shp + (6,)).copy()
    es = tmap.ubi_and_unitcell_to_eps_sample(ubimap, cellmap)
    ec = tmap.ubi_and_unitcell_to_eps_crystal(ubimap, cellmap)
    wants, wantc = np.full((n, 3, 3), np.nan), np.full((n, 3, 3), np.nan)
    for i in range(n):
        if not mask[i]:
            g = grain.grain(ubis[i])
            wants[i] = g.eps_sample_matrix(cell0, 0.5)
            wantc[i] = g.eps_grain_matrix(cell0, 0.5)
    run.count("map_voxels_checked", n)
    ok = ~mask
    if np.abs(es.reshape(n, 3, 3)[ok] - wants[ok]).max(initial=0) > 1e-10 or \
            not np.isnan(es.reshape(n, 3, 3)[mask]).all():
        V("map:eps_sample", "ubi_and_unitcell_to_eps_sample differs from grain.eps_sample_matrix(m=0.5)")
    if np.abs(ec.reshape(n, 3, 3)[ok] - wantc[ok]).max(initial=0) > 1e-10 or \
            not np.isnan(ec.reshape(n, 3, 3)[mask]).all():
        V("map:eps_crystal", "ubi_and_unitcell_to_eps_crystal differs from grain.eps_grain_matrix(m=0.5)")
    # TensorMap, both access orders
    phase_ids = np.zeros(shp, int)
    for order in ("sample-first", "crystal-first"):
        tm = tmap.TensorMap(maps={"UBI": ubimap.copy(), "phase_ids": phase_ids.copy()}, phases={0: uc})
        with contextlib.redirect_stdout(io.StringIO()):
            if order == "sample-first":
                a = tm.eps_sample
                b = tm.eps_crystal
            else:
                b = tm.eps_crystal
                a = tm.eps_sample
            U = tm.U
        run.count("tensormap_orders")
        a, b, U = a.reshape(n, 3, 3), b.reshape(n, 3, 3), U.reshape(n, 3, 3)
        first, second = (a, b) if order == "sample-first" else (b, a)
        wfirst = wants if order == "sample-first" else wantc
        if np.abs(first[ok] - wfirst[ok]).max(initial=0) > 1e-10:
            V("TensorMap:%s:direct" % order, "directly computed strain map differs from the per-grain value")
        # the second one is rotated from the cache with the map's own U: law E_s = U E_c U^T
        for i in np.nonzero(ok)[0]:
            law = np.abs(a[i] - U[i] @ b[i] @ U[i].T).max()
            if law > 1e-10:
                V("TensorMap:%s:rotation-law" % order,
                  "eps_sample != U.eps_crystal.U^T for the cached-rotation path (err %.3g, strain %.3g)" % (law, mag),
                  voxel=int(i))
                break
        # and it must agree with the per-grain value to second order in strain
        wsecond = wantc if order == "sample-first" else wants
        e2 = mag * 3
        if np.abs(second[ok] - wsecond[ok]).max(initial=0) > 4 * e2 ** 2 + 1e-10:
            V("TensorMap:%s:rotated-vs-grain" % order,
              "rotated strain map differs from the per-grain value by %.3g (strain %.3g): more than second order"
              % (np.abs(second[ok] - wsecond[ok]).max(), mag))


def check(run, replay=None):
    from ImageD11 import grain, finite_strain, unitcell
    from ImageD11.sinograms import tensor_map as tmap
    mods = (grain, finite_strain, unitcell)
    if replay is not None:
        cs = replay["case"]
        if "shape" in cs:
            one_map(run, replay["seed"], cs["index"], mods, tmap)
        else:
            one_case(run, replay["seed"], cs["index"], mods)
        run.nontrivial.update(["replay", "replay2"])
        return
    ng, nm = (210, 24) if run.tier == "quick" else (10000, 600)
    for i in range(ng):
        one_case(run, run.seed, i, mods)
    for i in range(nm):
        one_map(run, run.seed, i, mods, tmap)
    run.require_counter("tensors_checked", 1000)
    run.require_counter("map_voxels_checked", 50)
    run.require_counter("tensormap_orders", 10)
