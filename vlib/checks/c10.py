"""C10 - finite strain tensors are objective, symmetric and exact for known deformations.

Oracle: grains are constructed in real space as a_i = R.S.a0_i (ubi = ubi0.S.R^T)
with a known symmetric positive stretch S and rotation R, so F = R.S exactly and
the Seth-Hill tensors have the closed form (S^2m - I)/2m (log S for m=0) via the
eigen-decomposition of S.  Objectivity, symmetry, zero strain, first-order
agreement and map-vs-grain differential are asserted on the real outputs.
"""
import contextlib, io
import numpy as np
from .. import xtal
from ..common import rng

TECHNIQUE = ("runtime closed-form oracle: Seth-Hill tensors from a known (S,R) via eigen-decomposition compared with "
             "grain.eps_grain/eps_sample(+_matrix), finite_strain.DeformationGradientTensor (array and grain-object inputs, "
             "VRS and U), e6<->matrix round trips, tensor_map vectorised strains (per-voxel reference cells), the standalone "
             "tensor rotation kernels, and TensorMap.eps_sample/eps_crystal in both access orders on multi-phase maps; "
             "objectivity/symmetry/zero-strain/first-order laws")
LEVEL_TEXT = ("Exploration: triclinic..cubic reference cells (given as cell parameters or as another grain, drawn independently of the "
              "stretch magnitude), random rotations, stretches up to 10% (grains and maps), m in {-1,-0.5,0,0.5,1,1.5,2}; every tensor "
              "is compared with the closed form to 1e-10, rotated-grain runs check objectivity, identical cells must give exactly zero, "
              "map strains (every voxel with its own reference cell; TensorMaps with two phases and unphased voxels) are compared per "
              "voxel with the closed form and with the per-grain values, and the rotate-from-cache path with its documented law "
              "U.E.U^T and with a derived second-order bound against the per-grain value.")
LEVEL_NOTE = ("Trusts numpy eigh/svd/qr in float64; the cached-rotation path of TensorMap is held to eps_sample = U.eps_crystal.U^T "
              "with the map's own U (differs from the polar R at second order in strain) and to the per-grain value within "
              "2.|R^T.U_qr - I|.|E| + 1e-10, U_qr being the harness's own QR orientation of the voxel; voxels without a reference "
              "phase are generated and counted but their (undefined) strain is not judged.")

RULE = ("a case = (reference kind: cell|grain, cell kind, stretch magnitude, rotation kind) evaluated for all seven m; "
        "non-trivial = non-zero stretch with a non-identity rotation; distinct = (ref kind, cell kind, magnitude, rounded cell)")

MS = (-1.0, -0.5, 0.0, 0.5, 1.0, 1.5, 2.0)


def seth_hill(S, m):
    w, v = np.linalg.eigh(S)
    if m == 0:
        f = np.log(w)
    else:
        f = (w ** (2 * m) - 1) / (2 * m)
    return (v * f) @ v.T


def sym6(E):
    return np.array([E[0, 0], E[0, 1], E[0, 2], E[1, 1], E[1, 2], E[2, 2]])


def gen_stretch(r, mag):
    if mag == 0:
        return np.eye(3)
    Q = xtal.random_rotation(r)
    lam = 1 + r.uniform(-mag, mag, 3)
    return (Q * lam) @ Q.T


def aligned_pair(r, mag):
    """a stretch along the cell axes and an exact axis-permuting rotation (entries exactly 0 and +-1): grains sitting on
    the laboratory axes give UBI matrices with exact zeros, which only sentinel tests on matrix elements would notice"""
    S = np.diag(1 + r.uniform(-mag, mag, 3)) if mag else np.eye(3)
    P = np.eye(3)[r.permutation(3)]
    sg = r.choice([-1.0, 1.0], 3)
    R = P * sg
    if np.linalg.det(R) < 0:
        R[:, 0] *= -1
    return S, R


def qr_orientation(UB):
    """Harness-side Busing-Levy U of a UB matrix: UB = U.B with B upper triangular and a positive diagonal is exactly
    the QR factorisation with the sign convention fixed (independent of ImageD11's cell-parameter route)."""
    Q, Rr = np.linalg.qr(UB)
    sg = np.sign(np.diag(Rr))
    sg[sg == 0] = 1.0
    return Q * sg


def one_case(run, seed, idx, mods):
    grain, finite_strain, unitcell = mods
    r = rng(seed, "C10", "g", idx)
    # 7 x 6 x 5 = 210 is the full (cell kind, magnitude, rotation kind) product (coprime moduli); the reference kind
    # is drawn from the case's rng so that it is not tied to the magnitude
    kind = xtal.KINDS[idx % 7]
    cell0 = xtal.random_cell(r, kind)
    mag = float([0.0, 1e-6, 1e-4, 1e-3, 1e-2, 0.1][idx % 6])
    rk = ["haar", "identity", "haar", "pi", "near-identity"][idx % 5]
    R = xtal.random_rotation(r, rk)
    S = gen_stretch(r, mag)
    refkind = "grain" if r.random() < 0.4 else "cell"
    reuse = bool(rng(seed, "C10", "scratch", idx).random() < 0.3)     # own stream: independent of kind/mag/rotation
    # cells that are almost, but not exactly, right-angled (the fitted cell of a nearly cubic grain used as reference):
    # own stream, all cell kinds
    rn = rng(seed, "C10", "near90", idx)
    if rn.random() < 0.15:
        dev = [float(rn.choice([-1, 1]) * 10 ** rn.uniform(-5.5, -3.05)) for _ in range(3)]
        if rn.random() < 0.3:
            dev[int(rn.integers(3))] = 0.0
        cell0 = [float(c) for c in cell0[:3]] + [90.0 + d for d in dev]
        kind = "triclinic-near-90"
        run.count("reference_cells_within_1e-3_degree_of_right_angles")
    # the reference lattice is built by the harness from the cell parameters (Cholesky factor of the reciprocal metric =
    # Busing-Levy B), not taken from the library: "reference given as a cell" means THAT cell
    B0 = xtal.Bmat(cell0)
    if refkind == "grain":
        U0 = xtal.random_rotation(r)
        ubi0 = np.linalg.inv(U0 @ B0)
        if reuse:
            # the caller's scratch array is refilled after the grain was made (see below)
            scratch0 = ubi0.copy()
            g0 = grain.grain(scratch0)
            scratch0[:] = np.linalg.inv(xtal.random_rotation(r) @ B0) * 1.01
        else:
            g0 = grain.grain(ubi0)
        ref = g0
    else:
        ubi0 = np.linalg.inv(B0)
        ref = cell0
    ubi = ubi0 @ S @ R.T                     # rows a_i = R S a0_i
    if reuse:
        # history: grains are made one after another from ONE (3,3) work array (a row of a ubi stack, a voxel of a map)
        # which the caller then refills for the next grain; the grain is the one that was made, whatever happens to
        # the array afterwards
        scratch = ubi.copy()
        g = grain.grain(scratch)
        scratch[:] = ubi0 * 1.02
        run.count("scratch_array_reused_histories")
    else:
        g = grain.grain(ubi)
    desc = dict(index=idx, kind=kind, ref=refkind, mag=mag, rot=rk, cell=cell0, scratch_reused=reuse)
    run.case((refkind, kind, mag, tuple(round(c, 2) for c in cell0)), nontrivial=(mag > 0 and rk != "identity"),
             sample=desc)
    if refkind == "grain":
        run.count("ref_is_grain_cases")
        if mag >= 1e-2:
            run.count("ref_is_grain_large_stretch_cases")

    def V(key, what, **kw):
        run.violation(key, what, dict(desc, **kw))

    tol = 1e-10
    Es = {}
    ub0 = ref.UB if refkind == "grain" else B0
    D = finite_strain.DeformationGradientTensor(ubi, ub0)
    # the documented object inputs: a grain for ubi, a grain for the reference
    Dobj = finite_strain.DeformationGradientTensor(g, ref if refkind == "grain" else B0)
    run.count("dgt_object_inputs")
    if not np.array_equal(Dobj.F, D.F):
        V("DGT:object-input", "DeformationGradientTensor(grain[, grain]) gives a different F than the array inputs "
          "(max diff %.3g)" % np.abs(Dobj.F - D.F).max())
    if np.abs(D.F - R @ S).max() > 1e-11:
        V("F", "deformation gradient != R.S (err %.3g)" % np.abs(D.F - R @ S).max())
    for m in MS:
        want_g = seth_hill(S, m)
        want_s = R @ want_g @ R.T
        Eg = g.eps_grain_matrix(ref, m)
        Esm = g.eps_sample_matrix(ref, m)
        run.count("tensors_checked", 2)
        Es[m] = Eg
        if np.abs(Eg - want_g).max() > tol:
            V("eps_grain:value:m=%g" % m, "eps_grain_matrix(m=%g) differs from (S^2m-I)/2m by %.3g"
              % (m, np.abs(Eg - want_g).max()), m=m)
        if np.abs(Esm - want_s).max() > tol:
            V("eps_sample:value:m=%g" % m, "eps_sample_matrix(m=%g) differs from R.E.R^T by %.3g"
              % (m, np.abs(Esm - want_s).max()), m=m)
        if np.abs(Eg - Eg.T).max() > 1e-13 or np.abs(Esm - Esm.T).max() > 1e-13:
            V("symmetry:m=%g" % m, "strain tensor not symmetric", m=m)
        e6g, e6s = g.eps_grain(ref, m), g.eps_sample(ref, m)
        if not np.allclose(e6g, sym6(Eg), rtol=0, atol=0) or \
                not np.allclose(e6s, sym6(Esm), rtol=0, atol=0):
            V("e6:m=%g" % m, "6-vector form differs from the matrix form", m=m)
        # e6 ordering, other direction: the matrix rebuilt from the 6-vector is the upper triangle mirrored (exact)
        for modname, mod in (("grain", grain), ("finite_strain", finite_strain)):
            run.count("e6_round_trips")
            back = mod.e6_to_symm(e6g)
            if not (np.array_equal(np.triu(back), np.triu(Eg)) and np.array_equal(back, back.T)
                    and np.array_equal(mod.symm_to_e6(back), e6g)):
                V("e6:round-trip:%s" % modname, "%s.e6_to_symm(eps_grain) is not the mirrored upper triangle of "
                  "eps_grain_matrix" % modname, m=m)
        if mag == 0 and (np.abs(Eg).max() > 1e-12 or np.abs(Esm).max() > 1e-12):
            V("zero-strain:m=%g" % m, "identical cells give non-zero strain %.3g" % max(np.abs(Eg).max(), np.abs(Esm).max()), m=m)
        # DeformationGradientTensor directly
        if np.abs(D.finite_strain_ref(m) - want_g).max() > tol or np.abs(D.finite_strain_lab(m) - want_s).max() > tol:
            V("DGT:m=%g" % m, "DeformationGradientTensor.finite_strain_ref/lab wrong", m=m)
    Vp, Rp, Sp = D.VRS
    if mag > 0 and (np.abs(Rp - R).max() > 1e-10 or np.abs(Sp - S).max() > 1e-10 or np.abs(Vp - R @ S @ R.T).max() > 1e-10):
        V("polar", "polar decomposition does not return the known R, S, V")
    # D.U is documented as the rotation relating ubi to ub0: the polar factor R (unique also for S = I)
    if np.abs(Dobj.U - R).max() > 1e-10:
        V("DGT:U", "DeformationGradientTensor.U differs from the known rotation by %.3g" % np.abs(Dobj.U - R).max())
    # objectivity: rotate the grain
    Q = xtal.random_rotation(r)
    g2 = grain.grain(ubi @ Q.T)
    for m in MS:
        run.count("objectivity_checks")
        if np.abs(g2.eps_grain_matrix(ref, m) - Es[m]).max() > tol:
            V("objectivity:grain:m=%g" % m, "grain-frame strain changed by %.3g when the grain was rotated"
              % np.abs(g2.eps_grain_matrix(ref, m) - Es[m]).max(), m=m)
        if np.abs(g2.eps_sample_matrix(ref, m) - Q @ g.eps_sample_matrix(ref, m) @ Q.T).max() > tol:
            V("objectivity:sample:m=%g" % m, "sample-frame strain is not rotated with the grain", m=m)
    # first order agreement between different m
    e2 = float(np.linalg.norm(S - np.eye(3), 2))
    for m in MS:
        for mm in MS:
            if np.linalg.norm(Es[m] - Es[mm], 2) > 3.0 * e2 ** 2 + 6.0 * e2 ** 3 + 1e-12:
                V("first-order", "E(m=%g) and E(m=%g) differ by %.3g > 3|e|^2 (|e|=%.3g)"
                  % (m, mm, np.linalg.norm(Es[m] - Es[mm], 2), e2), m=m, m2=mm)
                break


MAP_SHAPES = [(1, 1, 1), (1, 3, 4), (2, 5, 3), (1, 7, 1)]
MAP_MAGS = [0.0, 1e-4, 2e-3, 1e-2, 0.05, 0.1]


def one_map(run, seed, idx, mods, tmap):
    grain, finite_strain, unitcell = mods
    r = rng(seed, "C10", "m", idx)
    # the shape is drawn from the case's rng (shape and magnitude used to be tied through idx % 4)
    shp = MAP_SHAPES[int(r.integers(len(MAP_SHAPES)))]
    mag = float(MAP_MAGS[idx % 6])              # 6 and 7 (cell kind) are coprime; the shape is drawn independently
    n = int(np.prod(shp))
    kind = xtal.KINDS[idx % 7]
    # two phases with their own reference cells, plus voxels that belong to no phase (-1)
    cells = [xtal.random_cell(r, kind), xtal.random_cell(r, xtal.KINDS[int(r.integers(7))])]
    ucs = [unitcell.unitcell(c) for c in cells]
    phase = r.integers(0, 2, n)
    nophase = (r.random(n) < 0.15) if n > 1 else np.zeros(n, bool)
    mask = (r.random(n) < 0.2) if n > 1 else np.zeros(n, bool)          # voxels without a UBI
    desc = dict(index=idx, shape=shp, kind=kind, mag=mag, cells=cells, n_nan=int(mask.sum()), n_nophase=int(nophase.sum()))
    run.case(("map", shp, kind, mag), nontrivial=mag > 0, sample=desc)
    run.count("map_mag_%g" % mag)

    def V(key, what, **kw):
        run.violation(key, what, dict(desc, **kw))

    # ---- (1) vectorised kernels with a different reference cell in every voxel
    vcells = np.array([xtal.random_cell(r, xtal.KINDS[int(r.integers(7))]) for _ in range(n)])
    ubisA = np.empty((n, 3, 3))
    closed_s, closed_c = np.empty((n, 3, 3)), np.empty((n, 3, 3))
    for i in range(n):
        S, Rr = (gen_stretch(r, mag), xtal.random_rotation(r)) if r.random() > 0.2 else aligned_pair(r, mag)
        run.count("map_voxels_generated")
        if Rr[0, 0] == 0 or Rr[0, 0] == 1 or Rr[0, 0] == -1:
            run.count("map_voxels_axis_aligned")
        if (Rr == np.round(Rr)).all():
            # exact zeros in the UBI: an orthogonal reference cell, rows = (stretched) cell axes laid along the lab axes
            vcells[i] = xtal.random_cell(r, ["cubic", "tetragonal", "orthorhombic"][int(r.integers(3))])
            ubisA[i] = (np.diag(np.array(vcells[i][:3]) * np.diag(S)) @ Rr.T) + 0.0
            run.count("map_voxels_with_exact_zero_ubi_element", int((ubisA[i] == 0).any()))
        else:
            ubisA[i] = np.linalg.inv(unitcell.unitcell(vcells[i]).B) @ S @ Rr.T
        closed_c[i] = S - np.eye(3)                 # Biot strain (m = 0.5) of the known stretch
        closed_s[i] = Rr @ closed_c[i] @ Rr.T
    ubimapA = ubisA.reshape(shp + (3, 3)).copy()
    ubimapA.reshape(n, 3, 3)[mask] = np.nan
    cellmapA = vcells.reshape(shp + (6,)).copy()
    es = tmap.ubi_and_unitcell_to_eps_sample(ubimapA, cellmapA).reshape(n, 3, 3)
    ec = tmap.ubi_and_unitcell_to_eps_crystal(ubimapA, cellmapA).reshape(n, 3, 3)
    ok = ~mask
    run.count("map_voxels_checked", n)
    run.count("map_voxels_own_reference_cell", int(ok.sum()))
    wants, wantc = np.full((n, 3, 3), np.nan), np.full((n, 3, 3), np.nan)
    for i in np.nonzero(ok)[0]:
        g = grain.grain(ubisA[i])
        wants[i] = g.eps_sample_matrix(vcells[i], 0.5)
        wantc[i] = g.eps_grain_matrix(vcells[i], 0.5)
    for nm, got, want, closed in (("eps_sample", es, wants, closed_s), ("eps_crystal", ec, wantc, closed_c)):
        if not np.isfinite(got[ok]).all():
            # comparisons with NaN are all False: a voxel that holds a grain must come back with numbers
            V("map:%s:nan-for-a-grain" % nm, "ubi_and_unitcell_to_%s returns NaN for %d voxels that hold a grain (first UBI %r)"
              % (nm, int((~np.isfinite(got[ok]).all(axis=(1, 2))).sum()),
                 ubisA[ok][~np.isfinite(got[ok]).all(axis=(1, 2))][0].tolist()))
            continue
        if np.abs(got[ok] - want[ok]).max(initial=0) > 1e-10 or not np.isnan(got[mask]).all():
            V("map:%s" % nm, "ubi_and_unitcell_to_%s differs from the per-grain matrix (m=0.5) by %.3g"
              % (nm, np.abs(got[ok] - want[ok]).max(initial=0)))
        if np.abs(got[ok] - closed[ok]).max(initial=0) > 1e-10:
            V("map:%s:closed-form" % nm, "ubi_and_unitcell_to_%s differs from the Biot strain of the known stretch by %.3g"
              % (nm, np.abs(got[ok] - closed[ok]).max(initial=0)))

    # ---- (2) the standalone rotation kernels: U.T.U^T and back, on arbitrary symmetric tensors
    T = r.normal(size=(n, 3, 3))
    T = T + np.transpose(T, (0, 2, 1))
    Us = np.array([xtal.random_rotation(r) for _ in range(n)])
    want_rot = np.einsum("nij,njk,nlk->nil", Us, T, Us)
    got_rot = tmap.tensor_crystal_to_sample(T.reshape(shp + (3, 3)), Us.reshape(shp + (3, 3))).reshape(n, 3, 3)
    back = tmap.tensor_sample_to_crystal(got_rot.reshape(shp + (3, 3)), Us.reshape(shp + (3, 3))).reshape(n, 3, 3)
    run.count("rotation_kernel_voxels", n)
    # 9 products of O(|T|) numbers per entry: 1e-13 relative is ~50 eps
    if np.abs(got_rot - want_rot).max() > 1e-13 * (1 + np.abs(T).max()):
        V("tensor_crystal_to_sample", "tensor_crystal_to_sample != U.T.U^T (err %.3g)" % np.abs(got_rot - want_rot).max())
    if np.abs(back - T).max() > 1e-13 * (1 + np.abs(T).max()):
        V("tensor_sample_to_crystal", "tensor_sample_to_crystal(tensor_crystal_to_sample(T)) != T (err %.3g)"
          % np.abs(back - T).max())

    # ---- (3) TensorMap with two phases and unphased voxels, both access orders
    ubisB = np.empty((n, 3, 3))
    Ecl_c, Ecl_s = np.empty((n, 3, 3)), np.empty((n, 3, 3))
    bound = np.empty(n)
    for i in range(n):
        S, Rr = (gen_stretch(r, mag), xtal.random_rotation(r)) if r.random() > 0.2 else aligned_pair(r, mag)
        run.count("map_voxels_generated")
        if Rr[0, 0] == 0 or Rr[0, 0] == 1 or Rr[0, 0] == -1:
            run.count("map_voxels_axis_aligned")
        ubisB[i] = np.linalg.inv(ucs[phase[i]].B) @ S @ Rr.T
        Ecl_c[i] = S - np.eye(3)
        Ecl_s[i] = Rr @ Ecl_c[i] @ Rr.T
        # Derived tolerance for "rotated from the cache" against the per-grain value.  The cache path returns
        # U.E.U^T (or U^T.e.U) with the Busing-Levy U of the voxel, the per-grain value is R.E.R^T with the polar
        # rotation R of F (the one generated here).  With Q = R^T.U:  |Q.E.Q^T - E|_2 <= 2.|Q - I|_2.|E|_2, and the
        # max-abs entry is bounded by the 2-norm.  Q is evaluated with the harness's own QR orientation, so no
        # quantity of the code under test enters the bound; |Q - I| is O(strain), i.e. the bound is O(strain^2).
        Uqr = qr_orientation(np.linalg.inv(ubisB[i]))
        bound[i] = 2.0 * np.linalg.norm(Rr.T @ Uqr - np.eye(3), 2) * np.linalg.norm(Ecl_c[i], 2) * 1.01 + 1e-10
    ubimapB = ubisB.reshape(shp + (3, 3)).copy()
    ubimapB.reshape(n, 3, 3)[mask] = np.nan
    # phase ids are dictionary KEYS: any integers, registered in any order (ids 0,1 in order; the same registered the
    # other way round; ids that are not 0..n-1)
    lay = int(rng(seed, "C10", "phase-keys", idx).integers(4))
    pkeys = [(0, 1), (0, 1), (2, 5), (1, 0)][lay]
    phases_dict = {pkeys[1]: ucs[1], pkeys[0]: ucs[0]} if lay in (1, 2) else {pkeys[0]: ucs[0], pkeys[1]: ucs[1]}
    run.count("tensormap_phase_key_layout:%s" % ["0,1", "0,1-registered-in-reverse", "2,5-registered-in-reverse", "1,0"][lay])
    phase_ids = np.where(nophase, -1, np.asarray(pkeys)[phase]).reshape(shp)
    okB = ok & ~nophase
    with_labels = bool(rng(seed, "C10", "labels-map", idx).random() < 0.5)
    run.count("tensormaps_with_a_labels_map", int(with_labels))
    run.count("tensormap_voxels_phase0", int((okB & (phase == 0)).sum()))
    run.count("tensormap_voxels_phase1", int((okB & (phase == 1)).sum()))
    run.count("tensormap_voxels_nophase", int(nophase.sum()))
    wantsB, wantcB = np.full((n, 3, 3), np.nan), np.full((n, 3, 3), np.nan)
    for i in np.nonzero(okB)[0]:
        g = grain.grain(ubisB[i])
        wantsB[i] = g.eps_sample_matrix(cells[phase[i]], 0.5)
        wantcB[i] = g.eps_grain_matrix(cells[phase[i]], 0.5)
    for order in ("sample-first", "crystal-first"):
        mapsB = {"UBI": ubimapB.copy(), "phase_ids": phase_ids.copy()}
        if with_labels:
            # a grain-label map as TensorMap.from_stack / a locally refined map carries it: label values repeat (they
            # restart in every layer) while every voxel has its own UBI
            mapsB["labels"] = (np.arange(n) % 3).reshape(shp) - (np.arange(n) % 7 == 0).reshape(shp)
        tm = tmap.TensorMap(maps=mapsB, phases=dict(phases_dict))
        with contextlib.redirect_stdout(io.StringIO()):
            if order == "sample-first":
                a = tm.eps_sample
                b = tm.eps_crystal
            else:
                b = tm.eps_crystal
                a = tm.eps_sample
            U = tm.U
        run.count("tensormap_orders")
        a, b, U = a.reshape(n, 3, 3), b.reshape(n, 3, 3), U.reshape(n, 3, 3)
        if not (np.isfinite(a[okB]).all() and np.isfinite(b[okB]).all()):
            V("TensorMap:%s:nan-for-a-grain" % order, "the strain maps hold NaN in %d voxels that have a grain and a phase"
              % int((~(np.isfinite(a[okB]).all(axis=(1, 2)) & np.isfinite(b[okB]).all(axis=(1, 2)))).sum()))
            continue
        first, second = (a, b) if order == "sample-first" else (b, a)
        wfirst = wantsB if order == "sample-first" else wantcB
        cfirst = Ecl_s if order == "sample-first" else Ecl_c
        if np.abs(first[okB] - wfirst[okB]).max(initial=0) > 1e-10:
            V("TensorMap:%s:direct" % order, "directly computed strain map differs from the per-grain value")
        if np.abs(first[okB] - cfirst[okB]).max(initial=0) > 1e-10:
            V("TensorMap:%s:direct:closed-form" % order, "directly computed strain map differs from the Biot strain of the "
              "known stretch of the voxel's own phase by %.3g" % np.abs(first[okB] - cfirst[okB]).max(initial=0))
        # the other accessors that derive from the cached strain must not disturb it: hydrostatic + deviatoric parts, read
        # in either order, then the strain maps again (same object, a history of property reads)
        snap_a, snap_b = np.array(a, copy=True), np.array(b, copy=True)
        with contextlib.redirect_stdout(io.StringIO()):
            if idx % 2:
                dv_, hy_ = tm.eps_devia, tm.eps_hydro
            else:
                hy_, dv_ = tm.eps_hydro, tm.eps_devia
            a2, b2 = tm.eps_sample.reshape(n, 3, 3), tm.eps_crystal.reshape(n, 3, 3)
        hy_, dv_ = np.asarray(hy_).reshape(n, 3, 3), np.asarray(dv_).reshape(n, 3, 3)
        run.count("tensormap_accessor_histories")
        if not (np.array_equal(a2[okB], snap_a[okB]) and np.array_equal(b2[okB], snap_b[okB])):
            V("TensorMap:%s:strain-changed-by-reading-devia" % order, "eps_sample / eps_crystal changed (by %.3g) after eps_hydro "
              "and eps_devia were read" % max(np.abs(a2[okB] - snap_a[okB]).max(initial=0), np.abs(b2[okB] - snap_b[okB]).max(initial=0)))
        tr = np.trace(snap_a[okB], axis1=1, axis2=2)
        if okB.any() and (np.abs(hy_[okB] - (tr / 3)[:, None, None] * np.eye(3)).max() > 1e-12 or
                          np.abs(dv_[okB] + hy_[okB] - snap_a[okB]).max() > 1e-12 or
                          np.abs(np.trace(dv_[okB], axis1=1, axis2=2)).max() > 1e-12):
            V("TensorMap:%s:hydro-devia" % order, "eps_hydro is not tr(E)/3.I of eps_sample, or eps_devia is not the traceless rest")
        # the second one is rotated from the cache with the map's own U: law E_s = U E_c U^T
        for i in np.nonzero(okB)[0]:
            law = np.abs(a[i] - U[i] @ b[i] @ U[i].T).max()
            if law > 1e-10:
                V("TensorMap:%s:rotation-law" % order,
                  "eps_sample != U.eps_crystal.U^T for the cached-rotation path (err %.3g, strain %.3g)" % (law, mag),
                  voxel=int(i))
                break
        # and it must agree with the per-grain value within the derived second-order bound (see above)
        wsecond = wantcB if order == "sample-first" else wantsB
        for i in np.nonzero(okB)[0]:
            run.count("rotated_vs_grain_voxels")
            dv = np.abs(second[i] - wsecond[i]).max()
            run.setmax("rotated_vs_grain_worst_fraction_of_bound", round(float(dv / bound[i]), 4))
            if not dv <= bound[i]:
                V("TensorMap:%s:rotated-vs-grain" % order,
                  "rotated strain map differs from the per-grain value by %.3g > 2|R^T.U-I||E| = %.3g (strain %.3g)"
                  % (dv, bound[i], mag), voxel=int(i))
                break


class _FakeDS(object):
    ystep = 1.0


class _FakeGrainSino(object):
    """what TensorMap.from_grainsinos reads of a grain sinogram: .grain, .recons[method], .ds.ystep"""
    def __init__(self, g, recon):
        self.grain = g
        self.recons = {"iradon": recon}
        self.ds = _FakeDS()


def grainsino_map(run, seed, idx, mods, tmap):
    """a two-phase map assembled by TensorMap.from_grainsinos from grains that each carry their reference cell
    (grain.ref_unitcell): the map strain of every grain's voxels is that grain's Biot strain against ITS OWN phase.  The
    two phases are named both ways round in two builds (the phase numbering inside comes from a set of objects)."""
    import contextlib, io
    grain, finite_strain, unitcell = mods
    r = rng(seed, "C10", "grainsinos", idx)
    npx = 12
    cells = [xtal.random_cell(r, xtal.KINDS[int(r.integers(7))]) for _ in range(2)]
    spec = []
    for k in range(4):
        S = gen_stretch(r, float(r.choice([1e-3, 1e-2, 0.05])))
        spec.append((k % 2, S, xtal.random_rotation(r)))
    blobs = [(0, 5, 0, 5), (0, 5, 7, 12), (7, 12, 0, 5), (7, 12, 7, 12)]
    desc = dict(index=idx, kind="from_grainsinos", cells=cells)
    run.case(("from_grainsinos", idx), nontrivial=True, sample=desc if idx < 2 else None)
    for swap in (False, True):
        ucs = [unitcell.unitcell(cells[0], "P"), unitcell.unitcell(cells[1], "P")]
        ucs[0].name, ucs[1].name = ("zeta", "alpha") if swap else ("alpha", "zeta")
        sinos, want = [], []
        for gid, ((ph, S, Rr), (i0, i1, j0, j1)) in enumerate(zip(spec, blobs)):
            g = grain.grain(np.linalg.inv(ucs[ph].B) @ S @ Rr.T)
            g.ref_unitcell = ucs[ph]
            g.gid = gid
            rec = np.zeros((npx, npx))
            rec[i0:i1, j0:j1] = 1.0
            sinos.append(_FakeGrainSino(g, rec))
            want.append((S - np.eye(3), Rr @ (S - np.eye(3)) @ Rr.T))
        try:
            with contextlib.redirect_stdout(io.StringIO()):
                tm = tmap.TensorMap.from_grainsinos(sinos, method="iradon", cutoff_level=0.1, steps=(1.0, 1.0, 1.0))
                es, ec, lab, Um = np.asarray(tm.eps_sample), np.asarray(tm.eps_crystal), np.asarray(tm.labels), np.asarray(tm.U)
        except Exception as e:
            run.count("from_grainsinos_raised")
            run.extra.setdefault("from_grainsinos_raised", "%s: %s" % (type(e).__name__, str(e)[:200]))
            return
        run.count("from_grainsinos_maps")
        for gid in range(4):
            m = lab == gid
            if not m.any():
                run.violation("from_grainsinos:grain-missing", "grain %d has no voxel in the map" % gid, desc)
                return
            # eps_crystal is eps_sample turned into the voxel's own Busing-Levy frame (which differs from the polar rotation
            # at second order in the strain): judged through that law, eps_sample against the closed form
            dc = np.abs(es[m] - np.einsum("nij,njk,nlk->nil", Um[m], ec[m], Um[m])).max()
            dsn = np.abs(es[m] - want[gid][1]).max()
            if not (dc <= 1e-9 and dsn <= 1e-9):
                run.violation("from_grainsinos:strain-against-own-phase", "map built by from_grainsinos (phases named %s): the voxels "
                              "of grain %d (phase %d) carry eps_crystal / eps_sample that differ from the Biot strain of its known "
                              "stretch against its own reference cell by %.3g / %.3g"
                              % ("zeta, alpha" if swap else "alpha, zeta", gid, spec[gid][0], dc, dsn), dict(desc, swap=swap))
                return


def check(run, replay=None):
    from ImageD11 import grain, finite_strain, unitcell
    from ImageD11.sinograms import tensor_map as tmap
    mods = (grain, finite_strain, unitcell)
    if replay is not None:
        cs = replay["case"]
        if cs.get("kind") == "from_grainsinos":
            grainsino_map(run, replay["seed"], cs["index"], mods, tmap)
        elif "shape" in cs:
            one_map(run, replay["seed"], cs["index"], mods, tmap)
        else:
            one_case(run, replay["seed"], cs["index"], mods)
        run.nontrivial.update(["replay", "replay2"])
        return
    ng, nm = (210, 84) if run.tier == "quick" else (10000, 2100)
    for i in range(ng):
        one_case(run, run.seed, i, mods)
    for i in range(nm):
        one_map(run, run.seed, i, mods, tmap)
    for i in range(10 if run.tier == "quick" else 200):
        grainsino_map(run, run.seed, i, mods, tmap)
    run.require_counter("from_grainsinos_maps", 10)
    run.require_counter("tensors_checked", 1000)
    run.require_counter("map_voxels_checked", 50)
    run.require_counter("tensormap_orders", 10)
    run.require_counter("ref_is_grain_large_stretch_cases", 5)
    run.require_counter("dgt_object_inputs", 100)
    run.require_counter("e6_round_trips", 1000)
    run.require_counter("map_voxels_own_reference_cell", 50)
    run.require_counter("map_voxels_with_exact_zero_ubi_element", 20)
    run.require_counter("tensormap_voxels_phase0", 10)
    run.require_counter("tensormap_voxels_phase1", 10)
    run.require_counter("tensormap_voxels_nophase", 3)
    run.require_counter("rotated_vs_grain_voxels", 50)
    run.require_counter("rotation_kernel_voxels", 50)
    run.require_counter("map_mag_0.1", 1)


# workloads added in seeding rounds 7-10 (DESIGN.md sections 13.9-13.12)
LEVEL_TEXT = LEVEL_TEXT + ' Later additions: scratch-array histories, reference lattice built by the harness from the cell parameters, reference cells within 1e-3 degree of right angles, phase ids as arbitrary dictionary keys, labels maps with repeating values.'
LEVEL_TEXT = LEVEL_TEXT + ' Round 11: two-phase maps assembled by TensorMap.from_grainsinos from stand-in grain sinograms.'
