"""C06 - scoring and least-squares refinement kernels match their definition.

Oracle: numpy longdouble reference (h = UBI.g, nearest integer, drlv2) with
margin counting around the tolerance; refined UB = (sum g h^T)(sum h h^T)^-1
over exactly the selected peaks; singular selections must leave the input
bit-identical.  Definedness: auto-var-init differential (zero vs pattern
builds) and stack painting on every refinement call.
"""
import ctypes
import numpy as np
from .. import xtal, klib
from ..common import rng

TECHNIQUE = ("runtime reference-model monitor (longdouble re-computation with margin counting, normal-equation solve) "
             "on cImageD11.score/score_and_refine/refine_assigned and indexing.refine/calc_drlv2; definedness "
             "differential: -ftrivial-auto-var-init=zero vs =pattern builds and stack painting")
LEVEL_TEXT = ("Exploration: generated (UBI, g-vector list, tolerance[, labels]) cases - good to random UBIs, 0..1e5 peaks, "
              "|h| up to 1e3, noise 0..0.3, peaks engineered at the tolerance boundary, empty/single/coplanar selections - are run "
              "through the f2py module and the directly built kernel libraries; counts must lie in the margin interval, refined "
              "matrices equal the normal-equation solution when no peak is in the margin, singular cases return the input bit-identical, "
              "and outputs must not depend on stack/auto-variable garbage.")
LEVEL_NOTE = ("Trusts numpy longdouble; margin band |drlv2-tol^2| <= 1e-9 tol^2 + 1e-11 (1+|h|max) tol; refined-matrix tolerance "
              "1e-9 + 1e-10 cond(H) cond(UB), skipped beyond 1e6; auto-var-init and stack painting only expose reads of uninitialised automatic storage that the "
              "compiler keeps in memory.")

RULE = ("a case = (UBI class, peak generator, n, tol, hmax, noise); non-trivial = at least one peak inside and one outside the "
        "tolerance (or a singular selection); distinct = (ubi class, n, tol, hmax, noise class, selection class)")

LD = np.longdouble


def ref_drlv2(ubi, gv):
    h = np.asarray(gv, LD) @ np.asarray(ubi, LD).T
    ih = np.rint(h)
    d = h - ih
    return (d * d).sum(axis=1), ih, h


def band(tol, hmax):
    return 1e-9 * tol * tol + 1e-11 * (1.0 + hmax) * tol


def solve_ref(gv, ih, sel):
    g = np.asarray(gv, LD)[sel]
    h = ih[sel]
    Rm = g.T @ h           # sum g h^T   (3x3)
    H = h.T @ h            # sum h h^T
    Hd = H.astype(float)
    # exact integer determinant
    Hi = [[int(x) for x in row] for row in Hd]
    det = (Hi[0][0] * (Hi[1][1] * Hi[2][2] - Hi[1][2] * Hi[2][1])
           - Hi[0][1] * (Hi[1][0] * Hi[2][2] - Hi[1][2] * Hi[2][0])
           + Hi[0][2] * (Hi[1][0] * Hi[2][1] - Hi[1][1] * Hi[2][0]))
    exact_ok = max(abs(x) for row in Hi for x in row) < 2 ** 17 if len(h) else True
    if det == 0:
        return None, det, exact_ok, np.inf
    cond = float(np.linalg.cond(Hd))
    UB = Rm.astype(float) @ np.linalg.inv(Hd)
    # one refinement step in longdouble
    X = np.linalg.inv(Hd).astype(LD)
    X = X @ (2 * np.eye(3, dtype=LD) - H @ X)
    UB = (Rm @ X)
    return UB, det, exact_ok, cond


def gen_case(r, idx, tier):
    kind = ["good", "good", "perturbed", "perturbed", "random", "strained"][idx % 6]
    cell = xtal.random_cell(r, xtal.KINDS[idx % 7], 3.0, 12.0)
    B = xtal.Bmat(cell)
    R = xtal.random_rotation(r, "haar")
    UB = R @ B
    ubi = np.linalg.inv(UB)
    if kind == "perturbed":
        ubi = ubi @ xtal.rot_axis_angle(r.normal(size=3), 10 ** r.uniform(-4, -1.3))
    elif kind == "strained":
        ubi = ubi @ xtal.random_sym_stretch(r, 5e-3)
    elif kind == "random":
        ubi = r.uniform(-8, 8, (3, 3))
    sizes = [0, 1, 2, 3, 5, 10, 100, 1000, 4096]
    n = int(sizes[idx % len(sizes)])
    if idx % 53 == 7:
        n = 100000 if tier == "thorough" else 20000
    hmax = int(r.choice([2, 3, 10, 100, 1000]))
    tol = float(r.choice([1e-3, 0.01, 0.05, 0.1, 0.25, 0.5]))
    noise = float(r.choice([0.0, 1e-4, 0.01, 0.05, 0.3]))
    sel = ["normal", "normal", "normal", "coplanar", "collinear", "puregarbage", "coplanar-g"][int(r.integers(7))]
    h = r.integers(-hmax, hmax + 1, (n, 3)).astype(float)
    if sel == "coplanar":
        h[:, 2] = 0
    elif sel == "collinear" and n:
        h = np.outer(r.integers(-hmax, hmax + 1, n), [1, 2, -1]).astype(float)
    dh = r.normal(0, 1, (n, 3)) * noise
    gv = (h + dh) @ UB.T
    if sel == "puregarbage":
        gv = r.uniform(-1, 1, (n, 3))
    if sel == "coplanar-g":
        # observed g-vectors exactly in a plane (one component exactly 0) but a UBI that maps them to
        # non-coplanar hkl: sum h h^T is invertible, UB = R H^-1 has an exactly zero row and no inverse
        gv = r.uniform(-1, 1, (n, 3))
        gv[:, int(r.integers(3))] = 0.0
        tol = 0.5
    # engineered boundary peaks: drlv exactly tol*(1+-1e-6 / 1e-12) (exercise the margin logic)
    nb = min(n // 4, 6)
    for k in range(nb):
        f = [1 - 1e-6, 1 + 1e-6, 1 - 1e-12, 1 + 1e-12, 1.0, 1 - 1e-3][k]
        dirn = r.normal(size=3)
        dirn /= np.sqrt(dirn @ dirn)
        gv[k] = (h[k] + dirn * tol * f) @ UB.T
    gv = np.ascontiguousarray(gv)
    if sel == "coplanar-g":
        gv[:, np.argmin(np.abs(gv).sum(axis=0))] = 0.0     # keep it exactly planar after the boundary peaks
    return dict(kind=kind, cell=cell, n=n, hmax=hmax, tol=tol, noise=noise, sel=sel), ubi, gv


def one_case(run, seed, idx, mods, libs):
    cImageD11, indexing = mods
    r = rng(seed, "C06", idx)
    d, ubi, gv = gen_case(r, idx, run.tier)
    desc = dict(d, index=idx)
    n, tol, hmax = d["n"], d["tol"], d["hmax"]
    drlv2, ih, h = ref_drlv2(ubi, gv)
    hm = float(np.abs(h).max()) if n else 0.0
    bw = band(tol, hm)
    t2 = LD(tol) * LD(tol)
    inside = drlv2 < t2 - bw
    unsure = (~inside) & (drlv2 < t2 + bw)
    n_lo, n_hi = int(inside.sum()), int(inside.sum() + unsure.sum())
    run.case((d["kind"], n, tol, d["hmax"], d["noise"], d["sel"]),
             nontrivial=(0 < n_lo < n) or d["sel"] in ("coplanar", "collinear") or n <= 2,
             sample=dict(desc, n_lo=n_lo, n_hi=n_hi))
    run.count("margin_peaks", int(unsure.sum()))

    def V(key, what):
        run.violation(key, what, dict(desc, n_lo=n_lo, n_hi=n_hi))

    # ---- score
    ns = int(cImageD11.score(ubi, gv, tol))
    run.count("score_calls")
    if not (n_lo <= ns <= n_hi):
        V("score:count", "cImageD11.score=%d outside reference interval [%d,%d]" % (ns, n_lo, n_hi))
    # python reference function
    pd = indexing.calc_drlv2(ubi, gv) if n else np.zeros(0)
    if n and np.abs(pd - drlv2.astype(float)).max() > 1e-9 * (1 + hm) * max(1.0, float(np.sqrt(drlv2.max()))):
        V("calc_drlv2", "indexing.calc_drlv2 differs from reference")
    npy = int((pd < tol * tol).sum()) if n else 0
    if not (n_lo <= npy <= n_hi):
        V("calc_drlv2:count", "python count %d outside [%d,%d]" % (npy, n_lo, n_hi))

    # ---- score_and_refine  (f2py module; in-place on ubi)
    u1 = np.ascontiguousarray(ubi.copy())
    nr, mean = cImageD11.score_and_refine(u1, gv, tol)
    run.count("refine_calls")
    if not (n_lo <= nr <= n_hi):
        V("score_and_refine:count", "n=%d outside [%d,%d]" % (nr, n_lo, n_hi))
    check_refined(run, V, "score_and_refine", ubi, u1, gv, ih, drlv2, inside, unsure, nr, mean)
    # kernel library, with two stack paintings: results must be identical
    outs = []
    for pat in (0x00, 0xAA, 0x55):
        u = np.ascontiguousarray(ubi.copy())
        nn = ctypes.c_int(-12345)
        mm = ctypes.c_double(-1.5)
        libs["plain"].v_score_and_refine_painted(pat, klib.ptr(u), klib.ptr(gv), tol,
                                                 ctypes.byref(nn), ctypes.byref(mm), n)
        outs.append((u.tobytes(), nn.value, mm.value))
    if len(set(outs)) != 1:
        V("score_and_refine:stack-dependent", "result depends on stack content before the call")
    if outs[0][0] != u1.tobytes() or outs[0][1] != nr:
        V("score_and_refine:f2py-vs-lib", "f2py module and directly built kernel disagree")

    # ---- refine_assigned
    nlab = int(r.integers(1, 4))
    labels = r.integers(-1, nlab, n).astype(np.int32)
    if d["sel"] == "normal" and n:
        # label by true fit so the selection is sensible
        labels = np.where(np.asarray(inside), 0, -1).astype(np.int32)
        if n > 3:
            labels[r.integers(0, n, max(1, n // 10))] = 1
    lab = 0
    sel = labels == lab
    u2 = np.ascontiguousarray(ubi.copy())
    if n == 0:
        # the f2py wrapper refuses zero-length label arrays (ValueError); the kernel itself is
        # driven through the library for this size
        run.count("refine_assigned_empty_via_library")
        nn0, mm0 = ctypes.c_int(-1), ctypes.c_double(-1.0)
        libs["plain"].refine_assigned(klib.ptr(u2), klib.ptr(gv), klib.ptr(labels), lab,
                                      ctypes.byref(nn0), ctypes.byref(mm0), 0)
        npk, md = nn0.value, mm0.value
    else:
        npk, md = cImageD11.refine_assigned(u2, gv, labels, lab)
    run.count("refine_assigned_calls")
    if npk != int(sel.sum()):
        V("refine_assigned:count", "npk=%d != #labels==label %d" % (npk, int(sel.sum())))
    check_refined(run, V, "refine_assigned", ubi, u2, gv, ih, drlv2, sel, np.zeros(n, bool), npk, md)
    outs = []
    for var, pat in (("plain", 0x00), ("plain", 0xAA), ("plain", 0x55), ("avi0", 0x00), ("aviP", 0x00)):
        u = np.ascontiguousarray(ubi.copy())
        nn = ctypes.c_int(-12345)
        mm = ctypes.c_double(-1.5)
        if var == "plain":
            libs[var].v_refine_assigned_painted(pat, klib.ptr(u), klib.ptr(gv), klib.ptr(labels), lab,
                                                ctypes.byref(nn), ctypes.byref(mm), n)
        else:
            libs[var].refine_assigned(klib.ptr(u), klib.ptr(gv), klib.ptr(labels), lab,
                                      ctypes.byref(nn), ctypes.byref(mm), n)
        outs.append((var, pat, u.copy(), nn.value, mm.value))
        run.count("definedness_runs")
    base = outs[0]
    for o in outs[1:]:
        same = (o[2].tobytes() == base[2].tobytes()) or (np.isnan(o[2]).all() and np.isnan(base[2]).all())
        if not same or o[3] != base[3] or o[4] != base[4]:
            V("refine_assigned:uninitialised",
              "refine_assigned output depends on prior stack / automatic-variable content: "
              "%s/0x%02x gives ubi[0,0]=%r, %s/0x%02x gives %r"
              % (base[0], base[1], base[2][0, 0], o[0], o[1], o[2][0, 0]))
            break
    # avi differential for score_and_refine too
    res = []
    for var in ("avi0", "aviP"):
        u = np.ascontiguousarray(ubi.copy())
        nn = ctypes.c_int(0)
        mm = ctypes.c_double(0)
        libs[var].score_and_refine(klib.ptr(u), klib.ptr(gv), tol, ctypes.byref(nn), ctypes.byref(mm), n)
        res.append((u.tobytes(), nn.value, mm.value))
    if res[0] != res[1]:
        V("score_and_refine:uninitialised", "zero-init and pattern-init builds disagree")

    # ---- python indexing.refine as a second opinion (needs >=1 selected peak)
    if n_lo == n_hi and n_lo > 0 and idx % 3 == 0:
        UBr, det, exact_ok, cond = solve_ref(gv, ih, np.asarray(inside))
        if UBr is not None and cond * float(np.linalg.cond(UBr.astype(float))) < 1e6:
            up = indexing.refine(ubi.copy(), gv, tol)
            # refine() returns the input unchanged when the refined matrix indexes nothing
            want = np.linalg.inv(UBr.astype(float))
            run.count("python_refine_calls")
            if not (np.abs(up - want).max() <= (1e-9 + 1e-13 * cond * float(np.linalg.cond(want))) * np.abs(want).max() or
                    np.array_equal(up, ubi)):
                V("indexing.refine", "python refine differs from the normal-equation solution")


def check_refined(run, V, name, ubi0, u, gv, ih, drlv2, inside, unsure, n_rep, mean_rep):
    if unsure.any():
        run.count("refined_skipped_margin")
        return
    sel = np.asarray(inside)
    ns = int(sel.sum())
    if n_rep != ns:
        return  # already reported by the count check
    mean_ref = float(drlv2[sel].sum() / ns) if ns else 0.0
    if abs(mean_rep - mean_ref) > 1e-9 * max(mean_ref, 1e-30) + 1e-13 * (1 + float(np.abs(ih).max() if len(ih) else 0)) ** 2 * 1e-3:
        V(name + ":mean-drlv2", "reported mean drlv2 %r != reference %r (n=%d)" % (mean_rep, mean_ref, ns))
    UBr, det, exact_ok, cond = solve_ref(gv, ih, sel)
    gsel = np.asarray(gv)[sel]
    if det != 0 and ns and (gsel == 0).all(axis=0).any():
        # every selected g-vector has an exactly zero component: sum g h^T has a zero row, so UB = R H^-1 has a
        # zero row, its determinant is exactly 0 in floating point too and no UBI exists: input must come back
        run.count("singular_cases")
        run.count("singular_UB_cases")
        if u.tobytes() != np.ascontiguousarray(ubi0).tobytes():
            V(name + ":singular-UB-modified", "selected g-vectors are coplanar (UB = R H^-1 has no inverse, %d peaks) but the "
              "matrix was modified: %r" % (ns, u.tolist()))
        return
    if det == 0:
        if exact_ok:
            run.count("singular_cases")
            if u.tobytes() != np.ascontiguousarray(ubi0).tobytes():
                V(name + ":singular-modified", "normal equations singular (det H = 0, %d peaks) but the matrix was modified" % ns)
        return
    UBd = UBr.astype(float)
    if abs(np.linalg.det(UBd)) < 1e-12 * np.abs(UBd).max() ** 3:
        run.count("refined_skipped_illconditioned")
        return
    # error model: cofactor inverse of H (eps.cond(H)), product, cofactor inverse of UB
    # (amplifies by cond(UB)); observed on correct code: ~6e-12.kk for large-integer H (products
    # beyond 2^53); cases beyond kk=1e6 are skipped and counted
    kk = cond * float(np.linalg.cond(UBd))
    if kk > 1e6:
        run.count("refined_skipped_illconditioned")
        return
    want = np.linalg.inv(UBd)
    run.count("refined_matrices_checked")
    err = np.abs(u - want).max()
    if not err <= (1e-9 + 1e-10 * kk) * np.abs(want).max():
        V(name + ":solution", "refined UBI differs from (sum g h^T)(sum h h^T)^-1 solution: err %.3g rel %.3g "
          "cond(H).cond(UB) %.3g" % (err, err / np.abs(want).max(), kk))


def check(run, replay=None):
    from ImageD11 import cImageD11, indexing
    mods = (cImageD11, indexing)
    libs = {v: klib.load(v) for v in ("plain", "avi0", "aviP")}
    if replay is not None:
        one_case(run, replay["seed"], replay["case"]["index"], mods, libs)
        run.nontrivial.update(["replay", "replay2"])
        return
    # rounding primitive on the rebuilt module
    r = rng(run.seed, "C06", "round")
    ns = [0, 1, 2, 3, 2 ** 10, 2 ** 20, 2 ** 29, 2 ** 30, 2 ** 30 - 1, 2 ** 30 + 1] + \
        [int(x) for x in r.integers(0, 2 ** 30, 200)]
    for nn in ns:
        bad = cImageD11.verify_rounding(nn)
        run.count("verify_rounding_calls")
        if bad != 0:
            run.violation("verify_rounding", "fast rounding differs from floor(x+0.5) near n=%d (%d cases)" % (nn, bad),
                          dict(n=nn))
    ncase = 1500 if run.tier == "quick" else 40000
    for idx in range(ncase):
        one_case(run, run.seed, idx, mods, libs)
    # long peak lists, many repetitions, many threads: counts must never depend on the schedule
    r = rng(run.seed, "C06", "stress")
    for k in range(6 if run.tier == "quick" else 40):
        n = int([4097, 8192, 20000, 65536][k % 4])
        ubi = np.ascontiguousarray(np.linalg.inv(xtal.random_rotation(r) @ xtal.Bmat(xtal.random_cell(r, "cubic", 3, 6))))
        gv = np.ascontiguousarray(r.uniform(-1.5, 1.5, (n, 3)))
        d2, _, _ = ref_drlv2(ubi, gv)
        tol = 0.3
        bw = band(tol, 10.0)
        lo = int((d2 < tol * tol - bw).sum())
        hi = int((d2 < tol * tol + bw).sum())
        for nt in (2, 4, 16, 64):
            cImageD11.cimaged11_omp_set_num_threads(nt)
            for rep in range(150 if run.tier == "quick" else 600):
                c = int(cImageD11.score(ubi, gv, tol))
                run.count("score_stress_calls")
                if not lo <= c <= hi:
                    run.violation("score:schedule-dependent", "cImageD11.score returned %d for %d peaks on repetition %d with %d "
                                  "threads, reference interval [%d,%d]" % (c, n, rep, nt, lo, hi), dict(index=-1, n=n, threads=nt))
                    break
    cImageD11.cimaged11_omp_set_num_threads(4)
    import os
    if not os.environ.get("VERIF_ASAN_RERUN"):
        from .. import sched_kernels
        sched_kernels.attach(run, ["score", "score_and_refine", "refine_assigned"], 24 if run.tier == "quick" else 240,
                             [[1, 0], [2, 4], [4, 4], [8, 1]], "closest")
        run.require_counter("sched_determinism_comparisons", 20)
    run.require_counter("refined_matrices_checked", 100)
    run.require_counter("singular_cases", 10)
    run.require_counter("singular_UB_cases", 5)
    run.require_counter("definedness_runs", 100)
