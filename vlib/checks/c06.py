"""C06 - scoring and least-squares refinement kernels match their definition.

Oracle: numpy longdouble reference (h = UBI.g, nearest integer, drlv2) with
margin counting around the tolerance; refined UB = (sum g h^T)(sum h h^T)^-1
over exactly the selected peaks (when a few peaks sit inside the rounding band
of the tolerance every admissible selection of the reported size is tried);
singular selections must leave the input bit-identical.  Exactly representable
cases (power-of-two UBIs, dyadic offsets) decide the strict '<' at
drlv2 == tol^2 without any band.  Definedness: auto-var-init differential
(zero vs pattern builds) and stack painting on every refinement call.
"""
import contextlib
import ctypes
import io
import itertools
import os
from fractions import Fraction
import numpy as np
from .. import xtal, klib
from ..common import rng

TECHNIQUE = ("runtime reference-model monitor (longdouble re-computation with margin counting and enumeration of the admissible "
             "selections, exact rational model for dyadic cases, normal-equation solve) on cImageD11.score/score_and_refine/"
             "refine_assigned, indexing.refine/calc_drlv2, indexer.refine and refinegrains.refine; definedness "
             "differential: -ftrivial-auto-var-init=zero vs =pattern builds and stack painting; input-layout differential "
             "(Fortran-ordered g-vectors, int64 labels)")
LEVEL_TEXT = ("Exploration: generated (UBI, g-vector list, tolerance[, labels, label]) cases - good to random UBIs, 0..1e5 peaks, "
              "|h| up to 1e3, noise 0..0.3, a third of the cases with peaks engineered at the tolerance boundary, "
              "empty/single/coplanar/collinear selections in axis-aligned and general lattice planes, all dimensions drawn "
              "independently from the case's own generator - are run "
              "through the f2py module and the directly built kernel libraries; counts must lie in the margin interval, refined "
              "matrices and mean errors must equal the normal-equation solution over an admissible selection of the reported size, "
              "singular cases return the input bit-identical, exactly representable cases must reproduce the strict '<' bit for bit, "
              "outputs must not depend on stack/auto-variable garbage nor on the memory layout of the inputs; the Python "
              "references (module function, indexer method with its ring filter, refinegrains.refine double pass) are decided "
              "against the same model.")
LEVEL_NOTE = ("Trusts numpy longdouble and Python fractions; margin band |drlv2-tol^2| <= 1e-9 tol^2 + 1e-11 (1+|h|max) tol; at most 8 "
              "peaks in the band are enumerated, more are skipped and counted (the run is inconclusive if that exceeds 10% of the "
              "refinement calls); refined-matrix tolerance 1e-9 + 1e-10 cond(H) cond(UB), skipped beyond 1e6; singular selections with "
              "|H| >= 2^17 are decided only when H has a zero row (the others are counted as undecided); auto-var-init and stack painting "
              "only expose reads of uninitialised automatic storage that the compiler keeps in memory.")

RULE = ("a case = (UBI class, peak generator, n, tol, hmax, noise); non-trivial = at least one peak inside and one outside the "
        "tolerance (or a singular selection); distinct = (ubi class, n, tol, hmax, noise class, selection class)")

LD = np.longdouble
MAX_ENUM = 8


def ref_drlv2(ubi, gv):
    h = np.asarray(gv, LD) @ np.asarray(ubi, LD).T
    ih = np.rint(h)
    d = h - ih
    return (d * d).sum(axis=1), ih, h


def band(tol, hmax):
    return 1e-9 * tol * tol + 1e-11 * (1.0 + hmax) * tol


def lsq_sums(gv, ih, sel):
    """sum g h^T, sum h h^T (longdouble) over the selected peaks"""
    g = np.asarray(gv, LD)[sel]
    h = ih[sel]
    return g.T @ h, h.T @ h


def solve_sums(Rm, H, npk):
    """(UB or None, exact det, exact_ok, cond, zero_row) from the normal-equation sums"""
    Hd = H.astype(float)
    # exact integer determinant
    Hi = [[int(x) for x in row] for row in Hd]
    det = (Hi[0][0] * (Hi[1][1] * Hi[2][2] - Hi[1][2] * Hi[2][1])
           - Hi[0][1] * (Hi[1][0] * Hi[2][2] - Hi[1][2] * Hi[2][0])
           + Hi[0][2] * (Hi[1][0] * Hi[2][1] - Hi[1][1] * Hi[2][0]))
    # all products of the cofactor expansion are exact in double when every entry is below 2^17
    exact_ok = max(abs(x) for row in Hi for x in row) < 2 ** 17 if npk else True
    # a zero row (= zero column, H is symmetric) makes every term of any determinant formula exactly zero,
    # whatever the size of the other entries and whatever the evaluation order / contraction
    zero_row = any(all(x == 0 for x in row) for row in Hi)
    if det == 0:
        return None, det, exact_ok, np.inf, zero_row
    cond = float(np.linalg.cond(Hd))
    # one refinement step in longdouble
    X = np.linalg.inv(Hd).astype(LD)
    X = X @ (2 * np.eye(3, dtype=LD) - H @ X)
    UB = (Rm @ X)
    return UB, det, exact_ok, cond, zero_row


def solve_ref(gv, ih, sel):
    Rm, H = lsq_sums(gv, ih, sel)
    UB, det, exact_ok, cond, _ = solve_sums(Rm, H, int(np.sum(sel)))
    return UB, det, exact_ok, cond


KINDS6 = ["good", "good", "perturbed", "perturbed", "random", "strained"]
SIZES = [0, 1, 2, 3, 5, 10, 100, 1000, 4096]
SELS = ["normal", "normal", "normal", "normal", "coplanar", "collinear", "puregarbage", "coplanar-g",
        "coplanar-generic", "collinear-generic"]


def gen_case(r, idx, tier):
    # every dimension is drawn from the case's own generator (they used to be aliased through idx % 6, idx % 9, idx % 3)
    kind = KINDS6[int(r.integers(len(KINDS6)))]
    cell = xtal.random_cell(r, xtal.KINDS[int(r.integers(7))], 3.0, 12.0)
    B = xtal.Bmat(cell)
    R = xtal.random_rotation(r, "haar")
    UB = R @ B
    ubi = np.linalg.inv(UB)
    if kind == "perturbed":
        ubi = ubi @ xtal.rot_axis_angle(r.normal(size=3), 10 ** r.uniform(-4, -1.3))
    elif kind == "strained":
        ubi = ubi @ xtal.random_sym_stretch(r, 5e-3)
    elif kind == "random":
        ubi = r.uniform(-8, 8, (3, 3))
    n = int(SIZES[int(r.integers(len(SIZES)))])
    if idx % 53 == 7:
        n = 100000 if tier == "thorough" else 20000
    hmax = int(r.choice([2, 3, 10, 100, 1000]))
    tol = float(r.choice([1e-3, 0.01, 0.05, 0.1, 0.25, 0.5]))
    noise = float(r.choice([0.0, 1e-4, 0.01, 0.05, 0.3]))
    sel = SELS[int(r.integers(len(SELS)))]
    boundary = bool(r.random() < 0.35)
    if idx % 106 == 7:
        # many peaks AND large indices on a well-fitting orientation: every entry of sum h h^T is far above 2^31, all
        # peaks selected - the accumulators of every implementation (C and Python) must hold that
        kind, hmax, noise, sel, boundary, tol = "good", 1000, 1e-4, "normal", False, 0.05
        ubi = np.linalg.inv(UB)
    h = r.integers(-hmax, hmax + 1, (n, 3)).astype(float)
    if sel == "coplanar":
        h[:, int(r.integers(3))] = 0
    elif sel == "collinear" and n:
        h = np.outer(r.integers(-hmax, hmax + 1, n), [1, 2, -1]).astype(float)
    elif sel == "coplanar-generic" and n:
        # a general lattice plane: h = a.v1 + b.v2 - sum h h^T is singular without having a zero row
        while True:
            v1, v2 = r.integers(-3, 4, 3), r.integers(-3, 4, 3)
            if np.abs(np.cross(v1, v2)).sum():
                break
        ab = r.integers(-hmax, hmax + 1, (n, 2))
        h = (ab[:, :1] * v1 + ab[:, 1:] * v2).astype(float)
    elif sel == "collinear-generic" and n:
        while True:
            v = r.integers(-3, 4, 3)
            if np.abs(v).sum():
                break
        h = np.outer(r.integers(-hmax, hmax + 1, n), v).astype(float)
    dh = r.normal(0, 1, (n, 3)) * noise
    gv = (h + dh) @ UB.T
    if sel == "puregarbage":
        gv = r.uniform(-1, 1, (n, 3))
    if sel == "coplanar-g":
        # observed g-vectors exactly in a plane (one component exactly 0) but a UBI that maps them to
        # non-coplanar hkl: sum h h^T is invertible, UB = R H^-1 has an exactly zero row and no inverse
        gv = r.uniform(-1, 1, (n, 3))
        gv[:, int(r.integers(3))] = 0.0
        tol = 0.5
    # engineered boundary peaks: drlv exactly tol*(1+-1e-6 / 1e-12) (exercise the margin logic); only in a third of the
    # cases, so that the refined matrix of the typical case is decided on a selection without margin peaks
    nb = min(n // 4, 6) if boundary else 0
    for k in range(nb):
        f = [1 - 1e-6, 1 + 1e-6, 1 - 1e-12, 1 + 1e-12, 1.0, 1 - 1e-3][k]
        dirn = r.normal(size=3)
        dirn /= np.sqrt(dirn @ dirn)
        gv[k] = (h[k] + dirn * tol * f) @ UB.T
    gv = np.ascontiguousarray(gv)
    if sel == "coplanar-g":
        gv[:, np.argmin(np.abs(gv).sum(axis=0))] = 0.0     # keep it exactly planar after the boundary peaks
    return dict(kind=kind, cell=cell, n=n, hmax=hmax, tol=tol, noise=noise, sel=sel, boundary=boundary), ubi, gv


def pending(key):
    return bool(os.environ.get("VERIF_PENDING_" + key))


def one_case(run, seed, idx, mods, libs):
    cImageD11, indexing = mods[:2]
    r = rng(seed, "C06", idx)
    d, ubi, gv = gen_case(r, idx, run.tier)
    desc = dict(d, index=idx)
    n, tol, hmax = d["n"], d["tol"], d["hmax"]
    drlv2, ih, h = ref_drlv2(ubi, gv)
    hm = float(np.abs(h).max()) if n else 0.0
    bw = band(tol, hm)
    t2 = LD(tol) * LD(tol)
    inside = drlv2 < t2 - bw
    unsure = (~inside) & (drlv2 < t2 + bw)
    n_lo, n_hi = int(inside.sum()), int(inside.sum() + unsure.sum())
    run.case((d["kind"], n, tol, d["hmax"], d["noise"], d["sel"]),
             nontrivial=(0 < n_lo < n) or d["sel"] in ("coplanar", "collinear", "coplanar-generic", "collinear-generic") or n <= 2,
             sample=dict(desc, n_lo=n_lo, n_hi=n_hi))
    run.count("margin_peaks", int(unsure.sum()))
    run.count("class_%s_n%d" % (d["kind"], n) if n in SIZES else "class_big")

    def V(key, what):
        run.violation(key, what, dict(desc, n_lo=n_lo, n_hi=n_hi))

    # ---- score
    ns = int(cImageD11.score(ubi, gv, tol))
    run.count("score_calls")
    if not (n_lo <= ns <= n_hi):
        V("score:count", "cImageD11.score=%d outside reference interval [%d,%d]" % (ns, n_lo, n_hi))
    # python reference function
    pd = indexing.calc_drlv2(ubi, gv) if n else np.zeros(0)
    if n and np.abs(pd - drlv2.astype(float)).max() > 1e-9 * (1 + hm) * max(1.0, float(np.sqrt(drlv2.max()))):
        V("calc_drlv2", "indexing.calc_drlv2 differs from reference")
    npy = int((pd < tol * tol).sum()) if n else 0
    if not (n_lo <= npy <= n_hi):
        V("calc_drlv2:count", "python count %d outside [%d,%d]" % (npy, n_lo, n_hi))

    # ---- score_and_refine  (f2py module; in-place on ubi)
    u1 = np.ascontiguousarray(ubi.copy())
    nr, mean = cImageD11.score_and_refine(u1, gv, tol)
    run.count("refine_calls")
    if not (n_lo <= nr <= n_hi):
        V("score_and_refine:count", "n=%d outside [%d,%d]" % (nr, n_lo, n_hi))
    check_refined(run, V, "score_and_refine", ubi, u1, gv, ih, drlv2, inside, unsure, nr, mean)
    # kernel library, with two stack paintings: results must be identical
    outs = []
    for pat in (0x00, 0xAA, 0x55):
        u = np.ascontiguousarray(ubi.copy())
        nn = ctypes.c_int(-12345)
        mm = ctypes.c_double(-1.5)
        libs["plain"].v_score_and_refine_painted(pat, klib.ptr(u), klib.ptr(gv), tol,
                                                 ctypes.byref(nn), ctypes.byref(mm), n)
        outs.append((u.tobytes(), nn.value, mm.value))
    if len(set(outs)) != 1:
        V("score_and_refine:stack-dependent", "result depends on stack content before the call")
    # The f2py module and the directly built library are two compilations of the same source: they need not agree bit for
    # bit (contraction / -march may differ between the builds), so the library's result is held to the reference on its own
    # and a bit difference is only counted
    if outs[0][0] != u1.tobytes() or outs[0][1] != nr:
        run.count("f2py_vs_library_bit_differences")
        ul = np.frombuffer(outs[0][0], float).reshape(3, 3).copy()
        if not (n_lo <= outs[0][1] <= n_hi):
            V("score_and_refine:library:count", "n=%d outside [%d,%d]" % (outs[0][1], n_lo, n_hi))
        check_refined(run, V, "score_and_refine:library", ubi, ul, gv, ih, drlv2, inside, unsure, outs[0][1], outs[0][2],
                      counters=False)

    # ---- refine_assigned: the label value is part of the case (0, the "unassigned" value -1, large, negative)
    lab = int([0, 0, 0, -1, 1, 2, 2 ** 31 - 1, -5, 1000003][int(r.integers(9))])
    others = [x for x in (-1, 0, 1, 7, lab + 1 if lab < 2 ** 31 - 1 else 5) if x != lab]
    pool = np.array([lab] + others[:int(r.integers(1, 4))], np.int32)
    labels = pool[r.integers(0, len(pool), n)].astype(np.int32)
    if d["sel"] == "normal" and n:
        # label by true fit so the selection is sensible
        labels = np.where(np.asarray(inside), lab, others[0]).astype(np.int32)
        if n > 3:
            labels[r.integers(0, n, max(1, n // 10))] = others[-1]
    sel = labels == lab
    run.count("refine_assigned_label_%s" % ("0" if lab == 0 else "-1" if lab == -1 else "other"))
    u2 = np.ascontiguousarray(ubi.copy())
    if n == 0:
        # the f2py wrapper refuses zero-length label arrays (ValueError); the kernel itself is
        # driven through the library for this size
        run.count("refine_assigned_empty_via_library")
        nn0, mm0 = ctypes.c_int(-1), ctypes.c_double(-1.0)
        libs["plain"].refine_assigned(klib.ptr(u2), klib.ptr(gv), klib.ptr(labels), lab,
                                      ctypes.byref(nn0), ctypes.byref(mm0), 0)
        npk, md = nn0.value, mm0.value
    else:
        npk, md = cImageD11.refine_assigned(u2, gv, labels, lab)
    run.count("refine_assigned_calls")
    if npk != int(sel.sum()):
        V("refine_assigned:count", "npk=%d != #labels==label %d (label %d)" % (npk, int(sel.sum()), lab))
    check_refined(run, V, "refine_assigned", ubi, u2, gv, ih, drlv2, sel, np.zeros(n, bool), npk, md)
    outs = []
    for var, pat in (("plain", 0x00), ("plain", 0xAA), ("plain", 0x55), ("avi0", 0x00), ("aviP", 0x00)):
        u = np.ascontiguousarray(ubi.copy())
        nn = ctypes.c_int(-12345)
        mm = ctypes.c_double(-1.5)
        if var == "plain":
            libs[var].v_refine_assigned_painted(pat, klib.ptr(u), klib.ptr(gv), klib.ptr(labels), lab,
                                                ctypes.byref(nn), ctypes.byref(mm), n)
        else:
            libs[var].refine_assigned(klib.ptr(u), klib.ptr(gv), klib.ptr(labels), lab,
                                      ctypes.byref(nn), ctypes.byref(mm), n)
        outs.append((var, pat, u.copy(), nn.value, mm.value))
        run.count("definedness_runs")
    base = outs[0]
    for o in outs[1:]:
        same = (o[2].tobytes() == base[2].tobytes()) or (np.isnan(o[2]).all() and np.isnan(base[2]).all())
        if not same or o[3] != base[3] or o[4] != base[4]:
            V("refine_assigned:uninitialised",
              "refine_assigned output depends on prior stack / automatic-variable content: "
              "%s/0x%02x gives ubi[0,0]=%r, %s/0x%02x gives %r"
              % (base[0], base[1], base[2][0, 0], o[0], o[1], o[2][0, 0]))
            break
    # avi differential for score_and_refine too
    res = []
    for var in ("avi0", "aviP"):
        u = np.ascontiguousarray(ubi.copy())
        nn = ctypes.c_int(0)
        mm = ctypes.c_double(0)
        libs[var].score_and_refine(klib.ptr(u), klib.ptr(gv), tol, ctypes.byref(nn), ctypes.byref(mm), n)
        res.append((u.tobytes(), nn.value, mm.value))
    if res[0] != res[1]:
        V("score_and_refine:uninitialised", "zero-init and pattern-init builds disagree")

    # ---- input layout: real callers build gv as np.array((gx, gy, gz)).T (Fortran order) and may hold int64 labels; the
    # wrapper has to copy/convert them.  Same module, same values => the results must be identical to the C-ordered call
    if n and r.random() < 0.3:
        gvF = np.array((gv[:, 0], gv[:, 1], gv[:, 2])).T
        assert not gvF.flags["C_CONTIGUOUS"] or n == 1
        run.count("layout_variant_cases")
        nsF = int(cImageD11.score(ubi, gvF, tol))
        uF = np.ascontiguousarray(ubi.copy())
        nrF, meanF = cImageD11.score_and_refine(uF, gvF, tol)
        uA = np.ascontiguousarray(ubi.copy())
        npkF, mdF = cImageD11.refine_assigned(uA, gvF, labels.astype(np.int64), lab)
        if nsF != ns or nrF != nr or meanF != mean or uF.tobytes() != u1.tobytes():
            V("layout:gv-fortran-order", "score/score_and_refine give different results for a Fortran-ordered copy of the "
              "same g-vectors (score %d vs %d, n %d vs %d)" % (nsF, ns, nrF, nr))
        if npkF != npk or mdF != md or uA.tobytes() != u2.tobytes():
            V("layout:labels-int64", "refine_assigned gives different results for Fortran-ordered g-vectors / int64 labels "
              "(npk %d vs %d)" % (npkF, npk))

    # ---- the ubi argument is refined IN PLACE: callers hold it as a slice of a (ngrains,3,3) stack, a transposed UB, a
    # float32 map ...  The wrapper may refuse such an array; accepting it and refining a private copy (the caller keeps
    # the unrefined matrix together with the n / drlv2 of the refined one) is not allowed.
    if n and nr > 0 and u1.tobytes() != ubi.tobytes() and r.random() < 0.3:
        for variant in ("fortran", "strided", "float32"):
            if variant == "fortran":
                uv = np.asfortranarray(ubi.copy())
            elif variant == "strided":
                uv = np.zeros((3, 6))[:, ::2]
                uv[:] = ubi
            else:
                uv = ubi.astype(np.float32)
            before = uv.copy()
            try:
                nrv, meanv = cImageD11.score_and_refine(uv, gv, tol)
            except Exception:
                run.count("ubi_argument_variants_refused")
                continue
            run.count("ubi_argument_variants_accepted")
            if np.array_equal(uv, before):
                V("layout:ubi-not-refined-in-place:" + variant, "score_and_refine accepted a %s ubi array, reported n=%d, and "
                  "left the caller's matrix unrefined (the contiguous float64 call refines it in place)" % (variant, nrv))

    # ---- python indexing.refine as a second opinion (needs >=1 selected peak, else it raises by design)
    if n_lo == n_hi and n_lo > 0 and (n <= 100 or r.random() < 0.4 or idx % 106 == 7):
        python_refine(run, V, indexing, d, ubi, gv, ih, np.asarray(inside), tol, hm)


def count_indexed(ubi, gv, tol, hm):
    d2, _, _ = ref_drlv2(ubi, gv)
    t2 = LD(tol) * LD(tol)
    bw = band(tol, hm)
    return int((d2 < t2 - bw).sum()), int((d2 < t2 + bw).sum())


def python_refine(run, V, indexing, d, ubi, gv, ih, inside, tol, hm):
    """indexing.refine (the Python reference): least-squares solution over the indexed peaks; the input when the normal
    equations are singular (statement) or when the refined matrix indexes nothing (documented in the function)"""
    Rm, H = lsq_sums(gv, ih, inside)
    UBr, det, exact_ok, cond, zero_row = solve_sums(Rm, H, int(inside.sum()))
    gsel = np.asarray(gv)[inside]
    singular_ub = det != 0 and (gsel == 0).all(axis=0).any()
    with contextlib.redirect_stdout(io.StringIO()):      # ImageD11.indexing logs through print()
        up = indexing.refine(ubi.copy(), gv, tol)
    run.count("python_refine_calls")
    run.count("python_refine_kind_%s" % d["kind"])
    if det == 0 or singular_ub:
        # exact determinant of the integer matrix sum h h^T is zero (or sum g h^T has a zero row): statement says the input
        # matrix is returned unchanged
        run.count("python_refine_singular_cases")
        if zero_row or singular_ub:
            run.count("python_refine_singular_zero_row_cases")
        if not np.array_equal(up, ubi):
            run.count("python_refine_singular_modified_observed")
            if True:
                # for singular H without a zero row numpy's LU leaves a rounding-size pivot and no LinAlgError is raised:
                # the pinned indexing.refine returned a garbage matrix there (repaired in /repo by a rank test, see
                # known_findings.json); every singular class is judged.
                V("indexing.refine:singular-modified", "normal equations are singular (exact det sum h h^T = 0, %d peaks) but "
                  "indexing.refine returned a different matrix (max change %.3g)" % (int(inside.sum()), np.abs(up - ubi).max()))
        return
    UBd = UBr.astype(float)
    if abs(np.linalg.det(UBd)) < 1e-12 * np.abs(UBd).max() ** 3:
        return
    want = np.linalg.inv(UBd)
    kk = cond * float(np.linalg.cond(want))
    if kk > 1e6:
        run.count("python_refine_skipped_illconditioned")
        return
    # refine() returns its input when the refined matrix indexes nothing: decide that with the reference, with margin
    a_lo, a_hi = count_indexed(want, gv, tol, hm)
    ok_want = np.abs(up - want).max() <= (1e-9 + 1e-13 * kk) * np.abs(want).max()
    ok_same = np.array_equal(up, ubi)
    run.count("python_refine_decided")
    if a_lo > 0:
        good = ok_want
    elif a_hi == 0:
        good = ok_same
        run.count("python_refine_refined_indexes_nothing")
    else:
        good = ok_want or ok_same
    if not good:
        V("indexing.refine", "python refine differs from the normal-equation solution (max diff %.3g; the reference solution "
          "indexes between %d and %d peaks; returned the input: %s)" % (np.abs(up - want).max(), a_lo, a_hi, ok_same))


def judge_selection(name, ubi0, u, gv, ih, drlv2, sel, n_rep, mean_rep, Rm, H):
    """Compare (u, n_rep, mean_rep) with the model for one admissible selection.
    Returns (failures [(key, what)], counters [names])."""
    fails, cnt = [], []
    ns = int(sel.sum())
    mean_ref = float(drlv2[sel].sum() / ns) if ns else 0.0
    if abs(mean_rep - mean_ref) > 1e-9 * max(mean_ref, 1e-30) + 1e-13 * (1 + float(np.abs(ih).max() if len(ih) else 0)) ** 2 * 1e-3:
        fails.append((name + ":mean-drlv2", "reported mean drlv2 %r != reference %r (n=%d)" % (mean_rep, mean_ref, ns)))
    UBr, det, exact_ok, cond, zero_row = solve_sums(Rm, H, ns)
    gsel = np.asarray(gv)[sel]
    unchanged = u.tobytes() == np.ascontiguousarray(ubi0).tobytes()
    if det != 0 and ns and (gsel == 0).all(axis=0).any():
        # every selected g-vector has an exactly zero component: sum g h^T has a zero row, so UB = R H^-1 has a
        # zero row, its determinant is exactly 0 in floating point too and no UBI exists: input must come back
        cnt += ["singular_cases", "singular_UB_cases"]
        if not unchanged:
            fails.append((name + ":singular-UB-modified", "selected g-vectors are coplanar (UB = R H^-1 has no inverse, %d peaks) "
                          "but the matrix was modified: %r" % (ns, u.tolist())))
        return fails, cnt
    if det == 0:
        if exact_ok or zero_row:
            # exact_ok: every product of the kernel's cofactor expansion is exact in double, so its determinant is exactly 0;
            # zero_row: every term has an exactly zero factor whatever the size of the other entries
            cnt.append("singular_cases")
            if not exact_ok:
                cnt.append("singular_cases_large_H_zero_row")
            if zero_row:
                cnt.append("singular_cases_zero_row")
            else:
                cnt.append("singular_cases_general_plane")
            if not unchanged:
                fails.append((name + ":singular-modified", "normal equations singular (det H = 0, %d peaks) but the matrix was "
                              "modified" % ns))
        else:
            cnt.append("singular_large_H_undecided")
        return fails, cnt
    UBd = UBr.astype(float)
    if abs(np.linalg.det(UBd)) < 1e-12 * np.abs(UBd).max() ** 3:
        cnt.append("refined_skipped_illconditioned")
        return fails, cnt
    # error model: cofactor inverse of H (eps.cond(H)), product, cofactor inverse of UB
    # (amplifies by cond(UB)); observed on correct code: ~6e-12.kk for large-integer H (products
    # beyond 2^53); cases beyond kk=1e6 are skipped and counted
    kk = cond * float(np.linalg.cond(UBd))
    if kk > 1e6:
        cnt.append("refined_skipped_illconditioned")
        return fails, cnt
    want = np.linalg.inv(UBd)
    cnt.append("refined_matrices_checked")
    err = np.abs(u - want).max()
    if not err <= (1e-9 + 1e-10 * kk) * np.abs(want).max():
        fails.append((name + ":solution", "refined UBI differs from (sum g h^T)(sum h h^T)^-1 solution: err %.3g rel %.3g "
                      "cond(H).cond(UB) %.3g" % (err, err / np.abs(want).max(), kk)))
    return fails, cnt


def check_refined(run, V, name, ubi0, u, gv, ih, drlv2, inside, unsure, n_rep, mean_rep, counters=True):
    inside = np.asarray(inside)
    unsure = np.asarray(unsure)
    n_lo = int(inside.sum())
    ku = int(unsure.sum())
    extra = n_rep - n_lo
    if not 0 <= extra <= ku:
        return  # already reported by the count check
    if ku > MAX_ENUM:
        if counters:
            run.count("refined_skipped_margin")
        return
    Rm0, H0 = lsq_sums(gv, ih, inside)
    if ku == 0:
        cands = [()]
    else:
        # peaks inside the rounding band of the tolerance may legitimately be on either side: the result must be the model
        # for SOME selection inside + (subset of the band peaks) that has the reported size
        if counters:
            run.count("refined_margin_enumerated")
        cands = list(itertools.combinations(np.nonzero(unsure)[0].tolist(), extra))
    best = None
    gL = np.asarray(gv, LD)
    for c in cands:
        sel = inside.copy()
        Rm, H = Rm0.copy(), H0.copy()
        for k in c:
            sel[k] = True
            Rm += np.outer(gL[k], ih[k])
            H += np.outer(ih[k], ih[k])
        fails, cnt = judge_selection(name, ubi0, u, gv, ih, drlv2, sel, n_rep, mean_rep, Rm, H)
        if best is None or len(fails) < len(best[0]):
            best = (fails, cnt)
        if not fails:
            break
    fails, cnt = best
    if counters:
        for c in cnt:
            run.count(c)
    for key, what in fails:
        V(key, what + (" [no admissible selection of the %d band peaks fits]" % ku if ku else ""))


# ---------------------------------------------------------------------------------------------------------------------
# exactly representable cases: the strict '<' at drlv2 == tol^2
# ---------------------------------------------------------------------------------------------------------------------
EXACT_PATTERNS = {
    # tol: offsets (in hkl units, dyadic) whose squared length is exactly tol^2
    0.5: [(0.5, 0, 0)],
    0.25: [(0.25, 0, 0)],
    0.125: [(0.125, 0, 0)],
    0.0625: [(0.0625, 0, 0)],
    0.375: [(0.25, 0.25, 0.125), (0.375, 0, 0)],          # 1/16 + 1/16 + 1/64 = 9/64
    0.1875: [(0.125, 0.125, 0.0625)],                     # the same, halved
}


def exact_case(run, seed, k, mods, libs):
    """UBI = signed permutation of diag(2^a): h = UBI.g, rint, t = h - rint(h), t.t and tol*tol are all exact in double, so the
    kernel, the Python reference and a rational model must agree on every peak, including those with drlv2 == tol^2 exactly
    (not indexed: the definition is the strict '<' of the Python reference)."""
    cImageD11, indexing = mods[:2]
    r = rng(seed, "C06", "exact", k)
    tol = float(list(EXACT_PATTERNS)[int(r.integers(len(EXACT_PATTERNS)))])
    pats = EXACT_PATTERNS[tol]
    perm = r.permutation(3)
    sg = r.choice([-1.0, 1.0], 3)
    a = r.integers(0, 5, 3)
    ubi = np.zeros((3, 3))
    for i in range(3):
        ubi[i, perm[i]] = sg[i] * 2.0 ** a[i]
    ub = np.linalg.inv(ubi)                      # exact: entries +-2^-a
    n = int(r.choice([6, 12, 40, 200]))
    hmax = int(r.choice([3, 50, 1000]))
    hint = r.integers(-hmax, hmax + 1, (n, 3)).astype(float)
    eps = 2.0 ** -20
    off = np.zeros((n, 3))
    cls = r.integers(0, 4, n)                    # 0 exactly at tol, 1 just inside, 2 just outside, 3 well inside
    for i in range(n):
        p = np.array(pats[int(r.integers(len(pats)))])[r.permutation(3)] * r.choice([-1.0, 1.0], 3)
        j = int(np.argmax(np.abs(p)))
        if cls[i] == 1:
            p[j] -= np.sign(p[j]) * eps
        elif cls[i] == 2:
            p[j] += np.sign(p[j]) * eps
        elif cls[i] == 3:
            p = p * 0.5
        off[i] = p
    hk = hint + off                              # exact (|h| <= 1000, offsets multiples of 2^-20)
    gv = np.ascontiguousarray(hk @ ub.T)         # exact: one non-zero product per component
    # rational model
    t2 = Fraction(tol) * Fraction(tol)
    inside = np.zeros(n, bool)
    at_tol = 0
    for i in range(n):
        s = Fraction(0)
        for j in range(3):
            x = Fraction(float(hk[i, j]))
            t = x - round(x)                     # nearest integer; at an exact half both neighbours give t*t = 1/4
            s += t * t
        inside[i] = s < t2
        at_tol += int(s == t2)
    desc = dict(index=k, route="exact", tol=tol, n=n, hmax=hmax, at_tol=at_tol, ubi=ubi.tolist())
    run.case(("exact", tol, n, hmax, tuple(a.tolist())), nontrivial=at_tol > 0 and 0 < inside.sum() < n, sample=desc)
    run.count("exact_cases")
    run.count("exact_peaks_at_tolerance", at_tol)

    def V(key, what):
        run.violation(key, what, desc)

    want = int(inside.sum())
    ns = int(cImageD11.score(ubi, gv, tol))
    if ns != want:
        V("exact:score", "cImageD11.score=%d but exactly %d peaks have drlv2 < tol^2 (%d peaks have drlv2 == tol^2 exactly)"
          % (ns, want, at_tol))
    pd = indexing.calc_drlv2(ubi, gv)
    if int((pd < tol * tol).sum()) != want or not np.array_equal(pd < tol * tol, inside):
        V("exact:calc_drlv2", "Python reference count %d != rational model %d" % (int((pd < tol * tol).sum()), want))
    u1 = np.ascontiguousarray(ubi.copy())
    nr, mean = cImageD11.score_and_refine(u1, gv, tol)
    if nr != want:
        V("exact:score_and_refine", "score_and_refine n=%d but exactly %d peaks have drlv2 < tol^2 (%d at equality)"
          % (nr, want, at_tol))
    else:
        d2, ih, _ = ref_drlv2(ubi, gv)
        check_refined(run, V, "exact:score_and_refine", ubi, u1, gv, ih, d2, inside, np.zeros(n, bool), nr, mean)
    nn, mm = ctypes.c_int(-1), ctypes.c_double(-1.0)
    u = np.ascontiguousarray(ubi.copy())
    libs["plain"].score_and_refine(klib.ptr(u), klib.ptr(gv), tol, ctypes.byref(nn), ctypes.byref(mm), n)
    if nn.value != want:
        V("exact:score_and_refine:library", "library score_and_refine n=%d != %d" % (nn.value, want))


# ---------------------------------------------------------------------------------------------------------------------
# anchored Python callers: indexer.refine (ring filter) and refinegrains.refine (double pass)
# ---------------------------------------------------------------------------------------------------------------------
def method_case(run, seed, k, mods):
    cImageD11, indexing, refinegrains, unitcell = mods
    r = rng(seed, "C06", "method", k)
    kind = ["cubic", "tetragonal", "orthorhombic", "hexagonal"][int(r.integers(4))]
    cell = xtal.random_cell(r, kind, 3.5, 6.0)
    sym = ["P", "F", "I"][int(r.integers(3))] if kind == "cubic" else "P"
    uc = unitcell.unitcell(cell, sym)
    UB = xtal.random_rotation(r) @ np.asarray(uc.B)
    tol = float(r.choice([0.02, 0.05, 0.1]))
    noise = float(r.choice([0.0, 0.005, 0.02, 0.04]))
    dsmax = float(r.uniform(1.6, 2.4)) / min(cell[:3])
    hmax = int(np.ceil(dsmax * max(cell[:3]))) + 1
    hh = np.array([x for x in itertools.product(range(-hmax, hmax + 1), repeat=3) if any(x)], float)
    hh = hh[np.sqrt(((hh @ np.asarray(uc.B).T) ** 2).sum(axis=1)) < dsmax]
    # all lattice points (allowed or not: forbidden ones are indexed by the UBI but lie on no ring), a random subset
    keep = r.random(len(hh)) < min(1.0, 120.0 / max(len(hh), 1))
    hh = hh[keep]
    n1 = len(hh)
    gv = (hh + r.normal(0, 1, (n1, 3)) * noise) @ UB.T
    junk = r.uniform(-dsmax, dsmax, (max(3, n1 // 5), 3))
    gv = np.ascontiguousarray(np.concatenate([gv, junk]))
    n = len(gv)
    ubi = np.linalg.inv(UB) @ xtal.rot_axis_angle(r.normal(size=3), 10 ** r.uniform(-4, -2.3))
    desc = dict(index=k, route="method", kind=kind, sym=sym, cell=cell, tol=tol, noise=noise, n=n)
    drlv2, ih, h = ref_drlv2(ubi, gv)
    hm = float(np.abs(h).max())
    t2 = LD(tol) * LD(tol)
    bw = band(tol, hm)

    def V(key, what):
        run.violation(key, what, desc)

    # ---- indexer.refine: least squares over the peaks that are indexed AND assigned to a ring
    quiet = contextlib.redirect_stdout(io.StringIO())    # ImageD11.indexing logs through print()
    quiet.__enter__()
    try:
        ix = indexing.indexer(unitcell=uc, gv=gv.copy(), hkl_tol=tol, wavelength=0.3)
        try:
            ix.assigntorings()
            ra = np.asarray(ix.ra).copy()       # the ring assignment is an input of the method (decided in C03/C08)
        except IndexError:
            # unitcell.makerings has no reflection below the largest |g| (few peaks, centred lattice): there is no ring
            # assignment to filter by (input class outside this property, see DESIGN.md Corrections for C03)
            run.count("indexer_refine_skipped_no_rings")
            ra = np.full(n, -1)
        onring = ra > -1
        inside = (drlv2 < t2 - bw) & onring
        unsure = (~(drlv2 < t2 - bw)) & (drlv2 < t2 + bw) & onring
        run.case(("indexer.refine", kind, sym, tol, noise), nontrivial=bool((inside.sum() > 3) and (~onring & (drlv2 < t2 - bw)).any()),
                 sample=dict(desc, indexed_on_ring=int(inside.sum()), indexed_off_ring=int((~onring & (drlv2 < t2 - bw)).sum())))
        if unsure.any() or inside.sum() == 0:
            run.count("indexer_refine_skipped_margin_or_empty")
        else:
            try:
                up = ix.refine(ubi.copy())
                err = None
            except Exception as e:      # the method raises when the refined matrix indexes nothing
                up, err = None, e
            run.count("indexer_refine_calls")
            run.count("indexer_refine_offring_indexed_peaks", int((~onring & (drlv2 < t2 - bw)).sum()))
            Rm, H = lsq_sums(gv, ih, inside)
            UBr, det, exact_ok, cond, zero_row = solve_sums(Rm, H, int(inside.sum()))
            if det != 0:
                UBd = UBr.astype(float)
                want = np.linalg.inv(UBd)
                kk = cond * float(np.linalg.cond(want))
                d2a, _, _ = ref_drlv2(want, gv)
                a_in = (d2a < t2 - bw) & onring
                a_un = (~(d2a < t2 - bw)) & (d2a < t2 + bw) & onring
                if kk < 1e6 and a_in.sum() > 0 and not a_un.any():
                    run.count("indexer_refine_decided")
                    if up is None:
                        V("indexer.refine:raised", "indexer.refine raised %r although the least-squares solution indexes %d "
                          "ring-assigned peaks" % (err, int(a_in.sum())))
                    else:
                        if not np.abs(up - want).max() <= (1e-9 + 1e-13 * kk) * np.abs(want).max():
                            V("indexer.refine:solution", "indexer.refine differs from the normal-equation solution over the "
                              "indexed, ring-assigned peaks by %.3g (%d peaks, %d indexed peaks are off-ring)"
                              % (np.abs(up - want).max(), int(inside.sum()), int((~onring & (drlv2 < t2 - bw)).sum())))
                        if int(ix.scorelastrefined) != int(a_in.sum()):
                            V("indexer.refine:scorelastrefined", "scorelastrefined %d != %d ring-assigned peaks indexed by the "
                              "refined matrix" % (ix.scorelastrefined, int(a_in.sum())))
                        fit = float(np.sqrt(d2a[a_in].sum() / a_in.sum()))
                        if abs(ix.fitlastrefined - fit) > 1e-9 * fit + 1e-12 * (1 + hm):
                            V("indexer.refine:fitlastrefined", "fitlastrefined %r != sqrt(mean drlv2) %r" % (ix.fitlastrefined, fit))
    finally:
        quiet.__exit__(None, None, None)

    # ---- refinegrains.refine (default triclinic symmetry): two passes of score_and_refine; the returned matrix is the
    # least-squares solution over the peaks indexed by the first-pass matrix, npks / avg_drlv2 are the count and mean
    # error of that second selection
    with contextlib.redirect_stdout(io.StringIO()):      # the constructor prints its omega slop
        o = refinegrains.refinegrains(tolerance=tol)
    o.gv = gv
    # the start matrix is the caller's (gof() hands in ubisread[name] again and again: "always start refining the read in
    # one"): it is not changed, and a second call with it gives the same answer
    start = np.ascontiguousarray(ubi, dtype=float).copy()
    mat = o.refine(start)
    first = (np.array(mat, copy=True), int(o.npks), float(o.avg_drlv2))
    run.count("refinegrains_refine_calls")
    if not np.array_equal(start, ubi):
        V("refinegrains.refine:start-matrix-changed", "refinegrains.refine changed the matrix it was given (by %.3g)"
          % np.abs(start - ubi).max())
    else:
        mat_again = o.refine(start)
        run.count("refinegrains_refine_repeated_calls")
        if not (np.array_equal(mat_again, first[0]) and int(o.npks) == first[1] and float(o.avg_drlv2) == first[2]):
            V("refinegrains.refine:second-call-differs", "a second refine() with the same start matrix gives npks %d / avg_drlv2 %r, "
              "the first gave %d / %r" % (o.npks, o.avg_drlv2, first[1], first[2]))
    in1 = drlv2 < t2 - bw
    un1 = (~in1) & (drlv2 < t2 + bw)
    if un1.any() or in1.sum() == 0:
        run.count("refinegrains_refine_skipped")
        return
    UB1, det1, _, c1 = solve_ref(gv, ih, in1)
    if det1 == 0:
        run.count("refinegrains_refine_skipped")
        return
    ubi1 = np.linalg.inv(UB1.astype(float))
    d2b, ihb, hb = ref_drlv2(ubi1, gv)
    # the kernel's first-pass matrix differs from ubi1 by the refinement tolerance: widen the band by |dUBI|.|g|.2 tol
    k1 = c1 * float(np.linalg.cond(ubi1))
    slack = 2 * tol * (1e-9 + 1e-10 * k1) * np.abs(ubi1).max() * 3 * float(np.abs(gv).max())
    in2 = d2b < t2 - bw - slack
    un2 = (~in2) & (d2b < t2 + bw + slack)
    if un2.any() or in2.sum() == 0 or k1 > 1e6:
        run.count("refinegrains_refine_skipped")
        return
    UB2, det2, _, c2 = solve_ref(gv, ihb, in2)
    if det2 == 0:
        run.count("refinegrains_refine_skipped")
        return
    want = np.linalg.inv(UB2.astype(float))
    k2 = c2 * float(np.linalg.cond(want))
    if k2 > 1e6:
        run.count("refinegrains_refine_skipped")
        return
    run.count("refinegrains_refine_decided")
    if int(o.npks) != int(in2.sum()):
        V("refinegrains.refine:npks", "npks %d != %d peaks indexed by the first-pass matrix" % (o.npks, int(in2.sum())))
    mean2 = float(d2b[in2].sum() / in2.sum())
    # mean error with the kernel's own first-pass matrix: first-order change 2.sqrt(mean).|dh|
    if abs(o.avg_drlv2 - mean2) > 1e-9 * mean2 + 2 * np.sqrt(mean2) * slack / (2 * tol) + 1e-18:
        V("refinegrains.refine:avg_drlv2", "avg_drlv2 %r != reference %r" % (o.avg_drlv2, mean2))
    if not np.abs(mat - want).max() <= (1e-9 + 1e-10 * (k1 + k2)) * np.abs(want).max():
        V("refinegrains.refine:solution", "refinegrains.refine differs from two successive normal-equation solutions by %.3g"
          % np.abs(mat - want).max())


def check(run, replay=None):
    from ImageD11 import cImageD11, indexing, refinegrains, unitcell
    mods = (cImageD11, indexing)
    mods4 = (cImageD11, indexing, refinegrains, unitcell)
    libs = {v: klib.load(v) for v in ("plain", "avi0", "aviP")}
    if replay is not None:
        cs = replay["case"]
        if cs.get("route") == "exact":
            exact_case(run, replay["seed"], cs["index"], mods, libs)
        elif cs.get("route") == "method":
            method_case(run, replay["seed"], cs["index"], mods4)
        else:
            one_case(run, replay["seed"], cs["index"], mods, libs)
        run.nontrivial.update(["replay", "replay2"])
        return
    # rounding primitive on the rebuilt module
    r = rng(run.seed, "C06", "round")
    ns = [0, 1, 2, 3, 2 ** 10, 2 ** 20, 2 ** 29, 2 ** 30, 2 ** 30 - 1, 2 ** 30 + 1] + \
        [int(x) for x in r.integers(0, 2 ** 30, 200)]
    for nn in ns:
        bad = cImageD11.verify_rounding(nn)
        run.count("verify_rounding_calls")
        if bad != 0:
            run.violation("verify_rounding", "fast rounding differs from floor(x+0.5) near n=%d (%d cases)" % (nn, bad),
                          dict(n=nn))
    quick = run.tier == "quick"
    for k in range(300 if quick else 6000):
        exact_case(run, run.seed, k, mods, libs)
    for k in range(60 if quick else 1500):
        method_case(run, run.seed, k, mods4)
    ncase = 1500 if quick else 40000
    for idx in range(ncase):
        one_case(run, run.seed, idx, mods, libs)
    # long peak lists, many repetitions, many threads: counts must never depend on the schedule
    r = rng(run.seed, "C06", "stress")
    for k in range(6 if quick else 40):
        n = int([4097, 8192, 20000, 65536][k % 4])
        ubi = np.ascontiguousarray(np.linalg.inv(xtal.random_rotation(r) @ xtal.Bmat(xtal.random_cell(r, "cubic", 3, 6))))
        gv = np.ascontiguousarray(r.uniform(-1.5, 1.5, (n, 3)))
        d2, _, _ = ref_drlv2(ubi, gv)
        tol = 0.3
        bw = band(tol, 10.0)
        lo = int((d2 < tol * tol - bw).sum())
        hi = int((d2 < tol * tol + bw).sum())
        for nt in (2, 4, 16, 64):
            cImageD11.cimaged11_omp_set_num_threads(nt)
            for rep in range(150 if quick else 600):
                c = int(cImageD11.score(ubi, gv, tol))
                run.count("score_stress_calls")
                if not lo <= c <= hi:
                    run.violation("score:schedule-dependent", "cImageD11.score returned %d for %d peaks on repetition %d with %d "
                                  "threads, reference interval [%d,%d]" % (c, n, rep, nt, lo, hi), dict(index=-1, n=n, threads=nt))
                    break
    cImageD11.cimaged11_omp_set_num_threads(4)
    if not os.environ.get("VERIF_ASAN_RERUN"):
        from .. import sched_kernels
        sched_kernels.attach(run, ["score", "score_and_refine", "refine_assigned"], 24 if quick else 240,
                             [[1, 0], [2, 4], [4, 4], [8, 1]], "closest")
        run.require_counter("sched_determinism_comparisons", 20)
    run.require_counter("refined_matrices_checked", 300)
    run.require_counter("refined_margin_enumerated", 20)
    run.require_counter("singular_cases", 10)
    run.require_counter("singular_UB_cases", 5)
    run.require_counter("singular_cases_general_plane", 10)
    run.require_counter("singular_cases_large_H_zero_row", 3)
    run.require_counter("definedness_runs", 100)
    run.require_counter("exact_peaks_at_tolerance", 300)
    run.require_counter("python_refine_decided", 50)
    run.require_counter("python_refine_singular_zero_row_cases", 5)
    for kind in ("good", "perturbed", "random", "strained"):
        run.require_counter("python_refine_kind_%s" % kind, 5)
    run.require_counter("indexer_refine_decided", 10)
    run.require_counter("indexer_refine_offring_indexed_peaks", 10)
    run.require_counter("refinegrains_refine_decided", 10)
    run.require_counter("layout_variant_cases", 50)
    run.require_counter("refine_assigned_label_-1", 20)
    run.require_counter("refine_assigned_label_other", 20)
    # the margin skip must stay the exception
    sk = run.counters.get("refined_skipped_margin", 0)
    calls = run.counters.get("refine_calls", 0) + run.counters.get("refine_assigned_calls", 0)
    if calls and sk > 0.1 * calls:
        run.inconc("refined-matrix check skipped for %d of %d refinement calls (more than %d band peaks)" % (sk, calls, MAX_ENUM))
    # keep the evidence readable: fold the per-class counters into one coverage entry
    cls = {k: v for k, v in run.counters.items() if k.startswith("class_")}
    for k in cls:
        del run.counters[k]
    run.extra["ubi_class_x_n_cases"] = cls
    want_cls = ["class_%s_n%d" % (kd, nn) for kd in ("good", "perturbed", "random", "strained") for nn in SIZES]
    missing = [c for c in want_cls if c not in cls]
    if missing:
        run.inconc("UBI class x peak count combinations never generated: %s" % ",".join(missing))


# workloads added in seeding rounds 7-10 (DESIGN.md sections 13.9-13.12)
LEVEL_TEXT = LEVEL_TEXT + ' Later additions: ubi arguments as Fortran-ordered / strided / float32 arrays (refused or refined in place); refinegrains.refine leaves its start matrix alone and repeats.'
