"""C01 - pixel -> g-vector geometry agrees across Python, C and numba.

Oracle: independent longdouble forward model (vlib/geom.py) + differential over
  Ctransform.sf2xyz/xyz2gv/sf2gv/xyz2geometry (C),
  transform.compute_xyz_lab/compute_tth_eta/compute_g_vectors (Python),
  columnfile.updateGeometry(fast=True|False) (+ translation= argument),
  point_by_point.compute_xyz_lab/compute_tth_eta/compute_gve (numba),
  cImageD11.compute_gv / compute_geometry at OpenMP thread counts 1..64,
  float32 / strided inputs through the f2py copy path.
"""
import itertools
import numpy as np
from .. import geom
from ..common import rng

TECHNIQUE = 'runtime differential monitor: independent longdouble forward model vs C/Python/numba routes; OpenMP thread-count differential'
LEVEL_TEXT = 'Exploration: every route that computes lab coordinates/angles/g-vectors is executed on generated parameter classes (8 flips x 2^11 on/off switches; pairwise+random in quick, all 16384 classes in thorough) and compared value-by-value with an independent reference model; OpenMP loops re-run at 1..64 threads for bit-equality; f2py copy paths (float32/strided/Fortran-ordered) included; further entry points and input classes per case: integer-typed sc/fc/omega (columns and arrays), columnfile.updateGV fast/slow with xc/yc names and pars=, point_by_point.get_local_gv, Ctransform out= buffers and reset() after a parameter change, empty inputs (refusal recorded only), transform.PixelLUT tables. Holds on the executions listed in the evidence, not for all inputs.'
LEVEL_NOTE = 'Trusts the harness model in vlib/geom.py, numpy longdouble arithmetic, and tolerances derived from conditioning (stated in evidence.assumptions).'

RULE = ("parameter classes = 8 detector flips x 11 on/off switches (tilt_x, tilt_y, tilt_z, "
        "wedge, chi, omegasign<0, t_x, t_y, t_z, y_size<0, z_size<0); a case is one parameter "
        "set with random magnitudes + a peak list (uniform, corners, centre pixel, omega "
        "multiples of 90); non-trivial = at least two switches on; distinct = distinct "
        "(flip, switch-bits) class")

SW = ("tilt_x", "tilt_y", "tilt_z", "wedge", "chi", "omegasign_neg", "t_x", "t_y",
      "t_z", "ysize_neg", "zsize_neg")
COLS = ("xl", "yl", "zl", "tth", "eta", "ds", "gx", "gy", "gz")


def gen_pars(r, flip, bits):
    on = {n: bool(bits >> i & 1) for i, n in enumerate(SW)}
    o11, o12, o21, o22 = geom.FLIPS[flip]
    big = r.random() < 0.15
    p = dict(
        y_center=float(r.uniform(0, 2048)), z_center=float(r.uniform(0, 2048)),
        y_size=float(r.uniform(10, 200)) * (-1 if on["ysize_neg"] else 1),
        z_size=float(r.uniform(10, 200)) * (-1 if on["zsize_neg"] else 1),
        distance=float(10 ** r.uniform(np.log10(5e4), 6)),
        wavelength=float(r.uniform(0.1, 1.5)),
        omegasign=-1.0 if on["omegasign_neg"] else 1.0,
        tilt_x=float(r.uniform(-0.5, 0.5) if big else r.uniform(-0.05, 0.05)) if on["tilt_x"] else 0.0,
        tilt_y=float(r.uniform(-0.5, 0.5) if big else r.uniform(-0.05, 0.05)) if on["tilt_y"] else 0.0,
        tilt_z=float(r.uniform(-0.5, 0.5) if big else r.uniform(-0.05, 0.05)) if on["tilt_z"] else 0.0,
        o11=float(o11), o12=float(o12), o21=float(o21), o22=float(o22),
        wedge=float(r.uniform(-15, 15)) if on["wedge"] else 0.0,
        chi=float(r.uniform(-15, 15)) if on["chi"] else 0.0,
        t_x=float(r.uniform(-1500, 1500)) if on["t_x"] else 0.0,
        t_y=float(r.uniform(-1500, 1500)) if on["t_y"] else 0.0,
        t_z=float(r.uniform(-1500, 1500)) if on["t_z"] else 0.0,
    )
    return p


def gen_peaks(r, p, n):
    sc = r.uniform(0, 2048, n)
    fc = r.uniform(0, 2048, n)
    om = r.uniform(-720, 720, n)
    # special positions
    k = min(n, 8)
    spec = [(0, 0), (0, 2048), (2048, 0), (2048, 2048),
            (p["z_center"], p["y_center"]), (p["z_center"] + 1, p["y_center"]),
            (p["z_center"], p["y_center"] - 1), (1024.5, 1024.5)]
    for i in range(k):
        if r.random() < 0.5:
            sc[i], fc[i] = spec[i]
    m = r.random(n) < 0.1
    om[m] = r.choice([-720, -450, -360, -270, -180, -90, 0, 90, 180, 270, 360], m.sum())
    return sc, fc, om


HISTORY = {}


def python_threads(run, seed, mods, nthreads, iters):
    """several Python threads, each updating the geometry of its own columnfile with its own parameters; every
    result must equal what the same call gives when run alone"""
    import sys, threading
    transform, columnfile, parameters, cImageD11, pbp = mods
    jobs = []
    for k in range(nthreads):
        r = rng(seed, "C01", "pythr", k)
        p = gen_pars(r, int(r.integers(8)), int(r.integers(1 << len(SW))))
        sc, fc, om = gen_peaks(r, p, 400)
        cf = columnfile.colfile_from_dict({"sc": sc, "fc": fc, "omega": om})
        cf.parameters = parameters.parameters(**p)
        cf.updateGeometry(fast=True)
        want = {c: np.array(cf.getcolumn(c)) for c in COLS}
        jobs.append((p, sc, fc, om, want))
    bad = []
    old = sys.getswitchinterval()
    sys.setswitchinterval(1e-5)

    def work(k):
        p, sc, fc, om, want = jobs[k]
        for it in range(iters):
            cf = columnfile.colfile_from_dict({"sc": sc.copy(), "fc": fc.copy(), "omega": om.copy()})
            cf.parameters = parameters.parameters(**p)
            cf.updateGeometry(fast=True)
            for c in COLS:
                if not np.array_equal(cf.getcolumn(c), want[c]):
                    bad.append((k, it, c))
                    return
    try:
        ths = [threading.Thread(target=work, args=(k,)) for k in range(nthreads)]
        [t.start() for t in ths]
        [t.join() for t in ths]
    finally:
        sys.setswitchinterval(old)
    run.count("python_thread_updates", nthreads * iters)
    if bad:
        k, it, c = bad[0]
        run.violation("columnfile.updateGeometry:python-threads",
                      "column %s computed in thread %d (iteration %d) differs from the same call run alone "
                      "(%d threads, each with its own columnfile and parameters)" % (c, k, it, nthreads),
                      dict(threads=nthreads, index=-1, flip=0, bits=0, n=400))


class Cmp(object):
    def __init__(self, run, p, desc):
        self.run, self.p, self.desc = run, p, desc

    def chk(self, route, name, got, ref, tol, mask=None, angle=False):
        got = np.asarray(got, dtype=geom.F)
        ref = np.asarray(ref, dtype=geom.F)
        if got.shape != ref.shape:
            self.run.violation("%s:%s:shape" % (route, name),
                               "%s %s shape %s != %s" % (route, name, got.shape, ref.shape),
                               dict(self.desc, pars=self.p))
            return
        d = np.abs(geom.angdiff(got, ref)) if angle else np.abs(got - ref)
        bad = ~(d <= tol)    # also catches NaN
        if mask is not None:
            bad &= mask
        self.run.count("values_compared", int(got.size if mask is None else mask.sum()))
        self.run.count("cmp:" + route)
        if bad.any():
            i = int(np.argmax(np.where(bad, np.nan_to_num(d, nan=1e300), 0)))
            tl = np.broadcast_to(np.asarray(tol, dtype=geom.F), d.shape)
            self.run.violation(
                "%s:%s" % (route, name),
                "%s %s differs from reference: got %r want %r (|diff| %.3g > tol %.3g) at peak %d"
                % (route, name, float(got.flat[i]), float(ref.flat[i]), float(d.flat[i]),
                   float(tl.flat[i]), i),
                dict(self.desc, pars=self.p, peak=i))


def one_case(run, seed, idx, flip, bits, n, mods):
    transform, columnfile, parameters, cImageD11, pbp = mods
    r = rng(seed, "C01", idx)
    p = gen_pars(r, flip, bits)
    sc, fc, om = gen_peaks(r, p, n)
    desc = dict(index=idx, flip=flip, bits=bits, n=n)
    nsw = bin(bits).count("1")
    run.case((flip, bits), nontrivial=nsw >= 2,
             sample=dict(desc, pars=p, first_peak=[float(sc[0]), float(fc[0]), float(om[0])]))
    t = (p["t_x"], p["t_y"], p["t_z"])
    ref = geom.forward(p, sc, fc, om, t)
    lam = p["wavelength"]
    scale = abs(p["distance"]) + 2048 * (abs(p["y_size"]) + abs(p["z_size"]))
    xyz_tol = 1e-10 * scale
    d = ref["d"]
    rperp = np.sqrt(np.asarray(d[:, 1] ** 2 + d[:, 2] ** 2, float))
    eta_ok = rperp > 1e-3
    eta_tol = 1e-9 + 1e-6 / np.maximum(rperp, 1e-3)
    tth_tol = 1e-9 + 1e-6 / np.sqrt(np.asarray((d * d).sum(axis=1), float))
    g_tol = 1e-12 / lam
    c = Cmp(run, p, desc)
    refcols = dict(xl=ref["xyz"][:, 0], yl=ref["xyz"][:, 1], zl=ref["xyz"][:, 2],
                   tth=ref["tth"], eta=ref["eta"], ds=ref["ds"],
                   gx=ref["g"][:, 0], gy=ref["g"][:, 1], gz=ref["g"][:, 2])
    tols = dict(xl=xyz_tol, yl=xyz_tol, zl=xyz_tol, tth=tth_tol, eta=eta_tol,
                ds=g_tol, gx=g_tol, gy=g_tol, gz=g_tol)

    def cmpcols(route, get):
        for name in COLS:
            v = get(name)
            if v is None:
                continue
            c.chk(route, name, v, refcols[name], tols[name],
                  mask=eta_ok if name == "eta" else None, angle=(name == "eta"))

    # --- 1. C fast path through Ctransform
    ct = transform.Ctransform(p)
    # history: the computer object of the PREVIOUS case is still alive; building another one must not change what it
    # computes (objects for different parameter sets coexist in refinement loops)
    prev = HISTORY.get("prev")
    if prev is not None:
        pct, psc, pfc, pom, pt, pxyz, pgeo = prev
        xyz2 = pct.sf2xyz(psc, pfc)
        geo2 = pct.xyz2geometry(xyz2, pom, *pt)
        run.count("interleaved_instance_checks")
        if not (np.array_equal(xyz2, pxyz) and np.array_equal(geo2, pgeo)):
            run.violation("Ctransform:instances-interfere",
                          "a Ctransform object gives different results after another one (other parameters) was constructed",
                          dict(desc, pars=p))
    xyzC = ct.sf2xyz(sc, fc)
    geoC = ct.xyz2geometry(xyzC, om, *t)
    colsC = dict(xl=xyzC[:, 0], yl=xyzC[:, 1], zl=xyzC[:, 2], tth=geoC[:, 0], eta=geoC[:, 1],
                 ds=geoC[:, 2], gx=geoC[:, 3], gy=geoC[:, 4], gz=geoC[:, 5])
    cmpcols("Ctransform.sf2xyz+xyz2geometry", colsC.get)
    HISTORY["prev"] = (ct, sc.copy(), fc.copy(), om.copy(), t, xyzC.copy(), geoC.copy())
    gvC = ct.xyz2gv(xyzC, om, *t)
    for j, nm in enumerate(("gx", "gy", "gz")):
        c.chk("Ctransform.xyz2gv", nm, gvC[:, j], refcols[nm], g_tol)
    gvC2 = ct.sf2gv(sc, fc, om, *t)
    for j, nm in enumerate(("gx", "gy", "gz")):
        c.chk("Ctransform.sf2gv", nm, gvC2[:, j], refcols[nm], g_tol)

    # --- 2. documented python formulas
    xyzP = transform.compute_xyz_lab(np.array((sc, fc)), **p)
    oms = om * p["omegasign"]
    tthP, etaP = transform.compute_tth_eta(np.array((sc, fc)), omega=oms, **p)
    gP = transform.compute_g_vectors(tthP, etaP, oms, lam, wedge=p["wedge"], chi=p["chi"])
    colsP = dict(xl=xyzP[0], yl=xyzP[1], zl=xyzP[2], tth=tthP, eta=etaP,
                 ds=np.sqrt((gP * gP).sum(axis=0)), gx=gP[0], gy=gP[1], gz=gP[2])
    cmpcols("transform(python)", colsP.get)

    # --- 3. columnfile fast / slow, with parameters or with translation=
    pars = parameters.parameters(**p)
    for fast in (True, False):
        for use_tr in (False, True):
            cf = columnfile.colfile_from_dict({"sc": sc.copy(), "fc": fc.copy(),
                                               "omega": om.copy()})
            if use_tr:
                pp = dict(p, t_x=0.0, t_y=0.0, t_z=0.0) if (idx % 2) else dict(p)
                cf.parameters = parameters.parameters(**pp)
                cf.updateGeometry(translation=t, fast=fast)
            else:
                cf.parameters = pars
                cf.updateGeometry(fast=fast)
            cmpcols("columnfile.updateGeometry(fast=%s,translation=%s)" % (fast, use_tr),
                    lambda nm: cf.getcolumn(nm))
            if len(set(len(cf.getcolumn(nm)) for nm in COLS)) != 1 or cf.nrows != n:
                run.violation("columnfile.updateGeometry:rows", "column lengths differ",
                              dict(desc, pars=p))

    # --- 4. numba copy (omegasign folded into omega as its callers do)
    xyzN = pbp.compute_xyz_lab(sc, fc, y_center=p["y_center"], y_size=p["y_size"],
                               tilt_y=p["tilt_y"], z_center=p["z_center"], z_size=p["z_size"],
                               tilt_z=p["tilt_z"], tilt_x=p["tilt_x"], distance=p["distance"],
                               o11=p["o11"], o12=p["o12"], o21=p["o21"], o22=p["o22"])
    geo_args = (p["y_center"], p["y_size"], p["tilt_y"], p["z_center"], p["z_size"],
                p["tilt_z"], p["tilt_x"])
    tthN, etaN = pbp.compute_tth_eta(sc, fc, oms, *geo_args[:0],
                                     y_center=p["y_center"], y_size=p["y_size"], tilt_y=p["tilt_y"],
                                     z_center=p["z_center"], z_size=p["z_size"], tilt_z=p["tilt_z"],
                                     tilt_x=p["tilt_x"], distance=p["distance"],
                                     o11=p["o11"], o12=p["o12"], o21=p["o21"], o22=p["o22"],
                                     t_x=p["t_x"], t_y=p["t_y"], t_z=p["t_z"],
                                     wedge=p["wedge"], chi=p["chi"])
    xpos = float(r.uniform(-500, 500)) if idx % 3 == 0 else 0.0
    gN = pbp.compute_gve(sc, fc, oms, xpos, p["distance"] + xpos, p["y_center"], p["y_size"],
                         p["tilt_y"], p["z_center"], p["z_size"], p["tilt_z"], p["tilt_x"],
                         p["o11"], p["o12"], p["o21"], p["o22"],
                         p["t_x"], p["t_y"], p["t_z"], p["wedge"], p["chi"], lam)
    colsN = dict(xl=xyzN[0], yl=xyzN[1], zl=xyzN[2], tth=tthN, eta=etaN,
                 gx=gN[0], gy=gN[1], gz=gN[2])
    cmpcols("point_by_point(numba)", colsN.get)

    # --- 5. thread counts: bit-identical to 1 thread
    if idx % 4 == 0:
        tv = np.array(t, float)
        outs = {}
        for nt in (1, 2, 3, 7, 16, 64):
            cImageD11.cimaged11_omp_set_num_threads(nt)
            gv = np.full((n, 3), np.nan)
            cImageD11.compute_gv(xyzC, om, p["omegasign"], lam, p["wedge"], p["chi"], tv, gv)
            ge = np.full((n, 6), np.nan)
            cImageD11.compute_geometry(xyzC, om, p["omegasign"], lam, p["wedge"], p["chi"], tv, ge)
            outs[nt] = (gv, ge)
            run.count("thread_runs")
        cImageD11.cimaged11_omp_set_num_threads(4)
        for nt in outs:
            if not (np.array_equal(outs[nt][0], outs[1][0]) and
                    np.array_equal(outs[nt][1], outs[1][1])):
                run.violation("threads:compute_gv/geometry",
                              "output with %d threads differs from 1 thread" % nt,
                              dict(desc, pars=p, threads=nt))
        if not np.array_equal(outs[1][0], gvC):
            run.violation("threads:compute_gv", "1-thread result differs from default", dict(desc, pars=p))

    # --- 6. f2py copy path: float32 / strided inputs == same values as float64
    if idx % 5 == 0:
        sc32 = sc.astype(np.float32)
        fc32 = fc.astype(np.float32)
        a = ct.sf2xyz(sc32.astype(float), fc32.astype(float))
        b = ct.sf2xyz(sc32, fc32)
        big = np.zeros((n, 2))
        big[:, 0] = sc
        s_str = big[:, 0]
        cc = ct.sf2xyz(s_str, fc)
        omstr = np.zeros((n, 3))
        omstr[:, 1] = om
        gstr = ct.xyz2gv(xyzC[:, ::1], omstr[:, 1], *t)
        run.count("copy_path_runs")
        if not np.array_equal(a, b):
            run.violation("f2py-copy:float32", "float32 input != float64 copy of same values",
                          dict(desc, pars=p))
        if not np.array_equal(cc, xyzC) or not np.array_equal(gstr, gvC):
            run.violation("f2py-copy:strided", "strided input gives different result", dict(desc, pars=p))


def extras(run, seed, idx, flip, bits, n, mods):
    """input classes and entry points the main case does not reach (added after the coverage audit): integer-typed pixel
    positions (PixelLUT feeds np.mgrid indices), columnfile.updateGV, xc/yc column names and the pars= argument, the
    point-by-point get_local_gv helper, Ctransform out= buffers and reset() after a parameter change, empty inputs,
    Fortran-ordered / strided xyz."""
    transform, columnfile, parameters, cImageD11, pbp = mods
    r = rng(seed, "C01", "x", idx)
    p = gen_pars(r, flip, bits)
    sc, fc, om = gen_peaks(r, p, n)
    desc = dict(index=idx, flip=flip, bits=bits, n=n, extras=True)
    run.case(("extras", flip, bits), nontrivial=bin(bits).count("1") >= 2, sample=None)
    t = (p["t_x"], p["t_y"], p["t_z"])
    lam = p["wavelength"]
    scale = abs(p["distance"]) + 2048 * (abs(p["y_size"]) + abs(p["z_size"]))
    xyz_tol = 1e-10 * scale
    g_tol = 1e-12 / lam
    c = Cmp(run, p, desc)

    # ---- a. integer pixel positions and integer omega: every route must treat them as the same numbers
    sci = np.round(sc).astype([np.int64, np.int32, np.uint16][idx % 3])
    fci = np.round(fc).astype([np.int32, np.int64, np.int64][idx % 3])
    omi = np.round(om).astype(np.int64 if idx % 2 else np.float64)
    refi = geom.forward(p, sci.astype(float), fci.astype(float), omi.astype(float), t)
    xyzP = transform.compute_xyz_lab((sci, fci), **p)
    xyzC = transform.Ctransform(p).sf2xyz(sci, fci)
    for j, nm in enumerate(("xl", "yl", "zl")):
        c.chk("transform.compute_xyz_lab(int pixels)", nm, xyzP[j], refi["xyz"][:, j], xyz_tol)
        c.chk("Ctransform.sf2xyz(int pixels)", nm, xyzC[:, j], refi["xyz"][:, j], xyz_tol)
    for fast in (True, False):
        cf = columnfile.colfile_from_dict({"sc": sci.copy(), "fc": fci.copy(), "omega": omi.copy()})
        cf.parameters = parameters.parameters(**p)
        cf.updateGeometry(fast=fast)
        for j, nm in enumerate(("xl", "yl", "zl")):
            c.chk("columnfile.updateGeometry(fast=%s, int columns)" % fast, nm, cf.getcolumn(nm), refi["xyz"][:, j], xyz_tol)
        for j, nm in enumerate(("gx", "gy", "gz")):
            c.chk("columnfile.updateGeometry(fast=%s, int columns)" % fast, nm, cf.getcolumn(nm), refi["g"][:, j], g_tol)
    run.count("integer_input_cases")

    # ---- b. updateGV (fast: only g; slow: delegates), xc/yc names, pars= argument
    ref = geom.forward(p, sc, fc, om, t)
    for fast in (True, False):
        for use_tr in (False, True):
            names = ("xc", "yc") if (idx + fast + use_tr) % 2 else ("sc", "fc")
            cf = columnfile.colfile_from_dict({names[0]: sc.copy(), names[1]: fc.copy(), "omega": om.copy()})
            pp = dict(p, t_x=0.0, t_y=0.0, t_z=0.0) if use_tr else dict(p)
            if idx % 2:
                cf.updateGV(pars=parameters.parameters(**pp), translation=t if use_tr else None, fast=fast)
            else:
                cf.parameters = parameters.parameters(**pp)
                cf.updateGV(translation=t if use_tr else None, fast=fast)
            for j, nm in enumerate(("gx", "gy", "gz")):
                c.chk("columnfile.updateGV(fast=%s,translation=%s,%s)" % (fast, use_tr, names[0]), nm, cf.getcolumn(nm),
                      ref["g"][:, j], g_tol)
            run.count("updateGV_calls")

    # ---- c. get_local_gv: g-vectors for a voxel (si, sj) of the sample grid, diffraction origin moved along x
    old = pbp.parglobal
    try:
        pbp.parglobal = parameters.parameters(**p)
        si, sj = int(r.integers(-20, 21)), int(r.integers(-20, 21))
        ystep = float(r.choice([1.0, 2.5, 10.0]))
        oms = np.radians(om * p["omegasign"])
        xyz = np.asarray(ref["xyz"], float)
        gv, gx, gy, gz = pbp.get_local_gv(si, sj, ystep, om, np.sin(oms), np.cos(oms),
                                          xyz[:, 0].copy(), xyz[:, 1].copy(), xyz[:, 2].copy())
        sx, sy = si * ystep, -sj * ystep
        shifted = np.array(ref["xyz"], np.longdouble).copy()
        shifted[:, 0] -= sx * np.cos(oms) - sy * np.sin(oms)
        want = geom.lab_to_geometry(p, shifted, om, (0.0, 0.0, 0.0))["g"]
        for j, (nm, col) in enumerate((("gx", gx), ("gy", gy), ("gz", gz))):
            c.chk("point_by_point.get_local_gv", nm, col, want[:, j], g_tol * 10)
        run.count("get_local_gv_calls")
    finally:
        pbp.parglobal = old

    # ---- d. Ctransform: out= buffers are filled and returned; reset() after changing pars gives the new geometry
    ct = transform.Ctransform(p)
    out3 = np.full((n, 3), np.nan)
    got = ct.sf2xyz(sc, fc, out=out3)
    if got is not out3 or not np.array_equal(out3, ct.sf2xyz(sc, fc)):
        run.violation("Ctransform:out-argument", "sf2xyz(out=) did not fill / return the supplied buffer", dict(desc, pars=p))
    og = np.full((n, 3), np.nan)
    ct.xyz2gv(out3, om, *t, out=og)
    o6 = np.full((n, 6), np.nan)
    ct.xyz2geometry(out3, om, *t, out=o6)
    o2 = np.full((n, 3), np.nan)
    ct.sf2gv(sc, fc, om, *t, out=o2)
    if not (np.array_equal(og, ct.xyz2gv(out3, om, *t)) and np.array_equal(o6, ct.xyz2geometry(out3, om, *t))
            and np.array_equal(o2, og)):
        run.violation("Ctransform:out-argument", "xyz2gv/xyz2geometry/sf2gv(out=) differ from the returned arrays",
                      dict(desc, pars=p))
    # out= buffers the way callers may hold them: the transposed view of a (3,n) array (the layout the Python route
    # returns), three columns of a wider table, float32.  The wrapper may refuse them; a silent copy that leaves the
    # caller's array unfilled is not allowed.
    ref_g = ct.xyz2gv(out3, om, *t)
    ref_x = ct.sf2xyz(sc, fc)
    for variant in ("transposed", "columns", "float32"):
        def mk(ncol):
            if variant == "transposed":
                return np.full((ncol, n), np.nan).T
            if variant == "columns":
                return np.full((n, ncol + 3), np.nan)[:, 1:1 + ncol]
            return np.full((n, ncol), np.nan, np.float32)
        for what, call, want in (("xyz2gv", lambda o_: ct.xyz2gv(out3, om, *t, out=o_), ref_g),
                                 ("sf2gv", lambda o_: ct.sf2gv(sc, fc, om, *t, out=o_), ref_g),
                                 ("sf2xyz", lambda o_: ct.sf2xyz(sc, fc, out=o_), ref_x),
                                 ("xyz2geometry", lambda o_: ct.xyz2geometry(out3, om, *t, out=o_), None)):
            buf = mk(6 if what == "xyz2geometry" else 3)
            try:
                call(buf)
            except Exception:
                run.count("out_buffer_variants_refused")
                continue
            run.count("out_buffer_variants_accepted")
            want_ = ct.xyz2geometry(out3, om, *t) if want is None else want
            tolv = 0 if variant != "float32" else 1e-6 * max(1.0, float(np.abs(want_).max()))
            if not (np.abs(np.asarray(buf, float) - want_) <= tolv).all():
                run.violation("Ctransform:out-argument:" + variant, "%s(out=<%s array>) was accepted but the caller's array does "
                              "not hold the result" % (what, variant), dict(desc, pars=p))
    p2 = gen_pars(rng(seed, "C01", "x2", idx), (flip + 3) % 8, bits ^ 0x2b5)
    for k in ct.pnames:
        ct.pars[k] = p2[k]
    ct.reset()
    t2 = (p2["t_x"], p2["t_y"], p2["t_z"])
    ref2 = geom.forward(p2, sc, fc, om, t2)
    xyz2 = ct.sf2xyz(sc, fc)
    g2 = ct.xyz2gv(xyz2, om, *t2)
    sc2 = abs(p2["distance"]) + 2048 * (abs(p2["y_size"]) + abs(p2["z_size"]))
    for j, nm in enumerate(("xl", "yl", "zl")):
        c.chk("Ctransform after pars change + reset()", nm, xyz2[:, j], ref2["xyz"][:, j], 1e-10 * sc2)
    for j, nm in enumerate(("gx", "gy", "gz")):
        c.chk("Ctransform after pars change + reset()", nm, g2[:, j], ref2["g"][:, j], 1e-12 / p2["wavelength"])
    run.count("reset_histories")

    # ---- d2. one columnfile living through parameter changes: every update must use the parameters and the pixel
    # positions the object holds NOW, whatever was computed before (calibration loops change them in place)
    for fast in (True, False):
        cf = columnfile.colfile_from_dict({"sc": sc.copy(), "fc": fc.copy(), "omega": om.copy()})
        cf.parameters = parameters.parameters(**p)
        cf.updateGeometry(fast=fast)
        cur, csc, cfc = dict(p), sc, fc
        for step in range(3):
            how = ["set", "setparameters", "assign", "update-dict", "move-pixels"][int(r.integers(0, 5))]
            q = gen_pars(rng(seed, "C01", "hist", idx, step, int(fast)), int(r.integers(8)), int(r.integers(1 << len(SW))))
            if how == "set":
                for k in ("distance", "y_center", "tilt_x", "o11", "o12", "o21", "o22", "wedge", "t_x"):
                    cf.parameters.set(k, q[k])
                    cur[k] = q[k]
            elif how == "setparameters":
                cf.setparameters(parameters.parameters(**q))
                cur = dict(q)
            elif how == "assign":
                cf.parameters = parameters.parameters(**q)
                cur = dict(q)
            elif how == "update-dict":
                cf.parameters.parameters.update({k: q[k] for k in ("z_center", "y_size", "z_size", "tilt_y", "tilt_z", "chi")})
                cur.update({k: q[k] for k in ("z_center", "y_size", "z_size", "tilt_y", "tilt_z", "chi")})
            else:
                csc = csc + float(r.uniform(-3, 3))
                cfc = cfc[::-1].copy()
                cf.sc[:] = csc
                cf.addcolumn(cfc.copy(), "fc")
            if r.random() < 0.5:
                cf.updateGeometry(fast=fast)
            else:
                cf.updateGV(fast=fast)          # slow route delegates to updateGeometry; fast only refreshes gx,gy,gz
            tcur = (cur["t_x"], cur["t_y"], cur["t_z"])
            refh = geom.forward(cur, csc, cfc, om, tcur)
            for j, nm in enumerate(("gx", "gy", "gz")):
                c.chk("columnfile history (fast=%s) after %s" % (fast, how), nm, cf.getcolumn(nm), refh["g"][:, j],
                      1e-12 / cur["wavelength"])
            run.count("parameter_change_history_steps")

    # ---- d3. the peak-to-grain assignment route: refinegrains.assignlabels recomputes g-vectors with the compiled code for
    # each grain's own position; the g-vectors it leaves behind are those of the last grain presented
    if idx % 2 == 0:
        from ImageD11 import refinegrains, grain as grainmod
        o = refinegrains.refinegrains(tolerance=0.05, OmFloat=False)
        o.parameterobj = parameters.parameters(**p)
        cfa = columnfile.colfile_from_dict({"sc": sc.copy(), "fc": fc.copy(), "omega": om.copy(),
                                            "labels": np.zeros(n) - 2, "drlv2": np.ones(n)})
        o.scannames = ["scan"]
        o.scandata["scan"] = cfa
        tg = [np.array(t, float), np.array([t[1], -t[2], t[0]], float) * 0.5]
        o.grainnames = [0, 1]
        for k_, tk in enumerate(tg):
            o.grains[(k_, "scan")] = grainmod.grain(np.eye(3) * (4.0 + k_), translation=tk.copy())
        o.assignlabels(quiet=True)
        refa = geom.forward(p, sc, fc, om, tuple(tg[-1]))
        for j, nm in enumerate(("gx", "gy", "gz")):
            c.chk("refinegrains.assignlabels (compiled route)", nm, o.gv[:, j], refa["g"][:, j], g_tol)
        run.count("assignlabels_route_cases")

    # ---- e. empty inputs: every route returns empty results of the right shape
    if idx % 4 == 0:
        e = np.zeros(0)
        try:
            ct0 = transform.Ctransform(p)
            x0 = ct0.sf2xyz(e, e)
            g0 = ct0.xyz2gv(x0, e, *t)
            q0 = ct0.xyz2geometry(x0, e, *t)
            xp = transform.compute_xyz_lab(np.zeros((2, 0)), **p)
            ok = x0.shape == (0, 3) and g0.shape == (0, 3) and q0.shape == (0, 6) and xp.shape == (3, 0)
            if not ok:
                run.violation("empty-input:shape", "empty peak list gives shapes %r %r %r %r"
                              % (x0.shape, g0.shape, q0.shape, xp.shape), dict(desc, pars=p))
        except Exception as ex:
            # the statement quantifies over peaks: refusing an empty list (f2py rejects zero-length arrays) is not a wrong
            # value; it is recorded as an observation only
            run.count("empty_input_refused")
            run.extra["empty_input_refusal"] = "%s: %s" % (type(ex).__name__, ex)
        run.count("empty_input_cases")

    # ---- f. Fortran-ordered and strided xyz (refinegrains passes transposed copies)
    ct = transform.Ctransform(p)
    xyzc = ct.sf2xyz(sc, fc)
    gref = ct.xyz2gv(xyzc, om, *t)
    qref = ct.xyz2geometry(xyzc, om, *t)
    xf = np.asfortranarray(xyzc)
    wide = np.zeros((n, 6))
    wide[:, ::2] = xyzc
    xs = wide[:, ::2]
    for nm, arr in (("fortran", xf), ("strided", xs)):
        if not (np.array_equal(ct.xyz2gv(arr, om, *t), gref) and np.array_equal(ct.xyz2geometry(arr, om, *t), qref)):
            run.violation("f2py-copy:xyz-" + nm, "%s-ordered xyz gives a different result from the contiguous copy" % nm,
                          dict(desc, pars=p))
    run.count("xyz_layout_cases")


def pixel_lut_case(run, seed, idx, mods):
    transform = mods[0]
    r = rng(seed, "C01", "lut", idx)
    p = gen_pars(r, int(r.integers(8)), int(r.integers(1 << len(SW))))
    shape = (int(r.integers(2, 40)), int(r.integers(2, 40)))
    pars = dict(p, shape=shape)
    run.case(("PixelLUT", shape), nontrivial=True, sample=None)
    desc = dict(index=idx, lut=True, shape=shape)
    lut = transform.PixelLUT(pars)
    s, f = np.mgrid[0:shape[0], 0:shape[1]]
    # the LUT has no omega: angles are those of the pixel seen from the origin (no grain translation)
    ref = geom.forward(p, s.ravel().astype(float), f.ravel().astype(float), np.zeros(s.size), (0.0, 0.0, 0.0))
    c = Cmp(run, p, desc)
    scale = abs(p["distance"]) + 2048 * (abs(p["y_size"]) + abs(p["z_size"]))
    d = ref["d"]
    rperp = np.sqrt(np.asarray(d[:, 1] ** 2 + d[:, 2] ** 2, float))
    for j, nm in enumerate(("xl", "yl", "zl")):
        c.chk("PixelLUT.xyz", nm, lut.xyz[j].ravel(), ref["xyz"][:, j], 1e-10 * scale)
    c.chk("PixelLUT.tth", "tth", lut.tth.ravel(), ref["tth"], 1e-9 + 1e-6 / np.sqrt(np.asarray((d * d).sum(axis=1), float)))
    c.chk("PixelLUT.eta", "eta", lut.eta.ravel(), ref["eta"], 1e-9 + 1e-6 / np.maximum(rperp, 1e-3), mask=rperp > 1e-3,
          angle=True)
    st = np.sin(np.radians(np.asarray(ref["tth"], float)) / 2) ** 2
    c.chk("PixelLUT.sinthsq", "sinthsq", lut.sinthsq.ravel(), st, 1e-12 + 1e-9 * st)
    run.count("pixel_lut_cases")


def check(run, replay=None):
    from ImageD11 import transform, columnfile, parameters, cImageD11
    from ImageD11.sinograms import point_by_point as pbp
    mods = (transform, columnfile, parameters, cImageD11, pbp)
    run.assumptions += [
        "reference = harness longdouble model of the documented conventions (vlib/geom.py)",
        "tolerances: xl,yl,zl 1e-10*(distance+detector extent); tth 1e-9deg+1e-6/|d|; "
        "eta 1e-9deg+1e-6/r_perp (skipped when r_perp<1e-3um); ds,g 1e-12/lambda",
    ]
    seed = run.seed
    if replay is not None:
        cs = replay["case"]
        if cs.get("lut"):
            pixel_lut_case(run, replay["seed"], cs["index"], mods)
        elif cs.get("extras"):
            extras(run, replay["seed"], cs["index"], cs["flip"], cs["bits"], cs["n"], mods)
        else:
            one_case(run, replay["seed"], cs["index"], cs["flip"], cs["bits"], cs["n"], mods)
        run.nontrivial.update(["replay", "replay2"])
        return
    r = rng(seed, "C01", "plan")
    plan = []
    nb = len(SW)
    if run.tier == "quick":
        # all-off and all-on for each flip, every single switch, random pairs, random
        for f in range(8):
            plan.append((f, 0))
            plan.append((f, (1 << nb) - 1))
        for i in range(nb):
            plan.append((int(r.integers(8)), 1 << i))
        for i, j in itertools.combinations(range(nb), 2):
            plan.append((int(r.integers(8)), (1 << i) | (1 << j)))
        for _ in range(220):
            plan.append((int(r.integers(8)), int(r.integers(1 << nb))))
    else:
        for f in range(8):
            for b in range(1 << nb):
                plan.append((f, b))
    sizes = [1, 2, 7, 33, 64, 300]
    for idx, (f, b) in enumerate(plan):
        n = sizes[idx % len(sizes)]
        if idx % 97 == 0:
            n = 5000
        one_case(run, seed, idx, f, b, n, mods)
        if run.tier != "quick" or idx % 3 == 0:
            extras(run, seed, idx, f, b, n, mods)
    for i in range(20 if run.tier == "quick" else 600):
        pixel_lut_case(run, seed, i, mods)
    for cn, k in (("integer_input_cases", 50), ("updateGV_calls", 200), ("get_local_gv_calls", 50), ("reset_histories", 50),
                  ("empty_input_cases", 10), ("xyz_layout_cases", 50), ("pixel_lut_cases", 10),
                  ("parameter_change_history_steps", 300), ("assignlabels_route_cases", 30)):
        run.require_counter(cn, k)
    run.extra["classes_planned"] = len(set(plan))
    for nthr in (2, 4, 8):
        python_threads(run, seed + nthr, mods, nthr, 40 if run.tier == "quick" else 400)
    run.require_counter("interleaved_instance_checks", 100)
    from .. import sched_kernels
    sched_kernels.attach(run, ["compute_gv", "compute_geometry", "compute_xlylzl"], 8 if run.tier == "quick" else 120,
                         [[1, 0], [2, 4], [4, 1], [4, 4], [64, 1]], "cdiffraction")
    run.require_counter("values_compared", 1000)
    run.require_counter("thread_runs", 10)
    run.require_counter("sched_determinism_comparisons", 20)


# workloads added in seeding rounds 7-10 (DESIGN.md sections 13.9-13.12)
LEVEL_TEXT = LEVEL_TEXT + ' Later additions: out= buffers held as transposed views / table columns / float32 (refused or filled).'
