"""C03 - reflection lists complete, sound and grouped into rings.

Oracle: brute-force enumeration over the provably sufficient box
|h| <= floor(dsmax*a)+1 (|h| = |a.g| <= |a||g|), d* from the harness' own
reciprocal metric, centring rules from International Tables; ring partition
checker.
"""
import itertools
import os
import numpy as np
from ..common import rng

TECHNIQUE = 'runtime reference-model monitor: brute-force lattice enumeration over a provably sufficient box + ring partition checker'
LEVEL_TEXT = ('Exploration: for generated cells (all seven lattice systems, all seven centrings, random limits/tolerances; objects built by '
              'the constructor, unitcell.from_pars / unitcell_from_parameters and cellfromstring) the real gethkls/makerings outputs and the '
              'ring table left by indexer.assigntorings are compared with an exhaustive enumeration of the bounding box, ascending order and '
              'the ring partition rules; includes call histories on the same object with repeated limits (the cached-list path) and '
              'gethkls(L) followed by makerings(L - tol, tol).')
LEVEL_NOTE = 'Trusts the harness reciprocal metric (longdouble) and the centring rules written from International Tables; reflections within 1e-9 of the limit accepted either way.'

RULE = ("a case = (cell, centring, d* limit, ring tol, construction route); cells: random triclinic a,b,c in [2,30], "
        "angles in [55,125] with positive volume, plus the seven lattice systems; all seven "
        "centrings; limits chosen to give ~10..5000 reflections; non-trivial = >= 10 allowed "
        "reflections and at least one absent one (or P); distinct = (lattice system, centring, "
        "rounded cell, limit)")

CENTRING_OK = {
    "P": lambda h, k, l: np.ones(h.shape, bool),
    "A": lambda h, k, l: (k + l) % 2 == 0,
    "B": lambda h, k, l: (h + l) % 2 == 0,
    "C": lambda h, k, l: (h + k) % 2 == 0,
    "I": lambda h, k, l: (h + k + l) % 2 == 0,
    "F": lambda h, k, l: ((h + k) % 2 == 0) & ((h + l) % 2 == 0) & ((k + l) % 2 == 0),
    "R": lambda h, k, l: (-h + k + l) % 3 == 0,
}


def metric(cell):
    a, b, c, al, be, ga = [np.longdouble(x) for x in cell]
    ca, cb, cg = [np.cos(np.radians(x)) for x in (al, be, ga)]
    G = np.array([[a * a, a * b * cg, a * c * cb],
                  [a * b * cg, b * b, b * c * ca],
                  [a * c * cb, b * c * ca, c * c]], dtype=np.longdouble)
    return G


def rmetric(cell):
    G = metric(cell).astype(float)
    Gi = np.linalg.inv(G)
    # one Newton step in longdouble for accuracy
    Gl = metric(cell)
    X = Gi.astype(np.longdouble)
    X = X @ (2 * np.eye(3, dtype=np.longdouble) - Gl @ X)
    return X


def volume_ok(cell):
    al, be, ga = np.radians(cell[3:])
    v2 = 1 - np.cos(al) ** 2 - np.cos(be) ** 2 - np.cos(ga) ** 2 + \
        2 * np.cos(al) * np.cos(be) * np.cos(ga)
    return v2 > 0.05


def brute(cell, sym, dsmax):
    """dict hkl->ds of allowed reflections with ds<dsmax*(1+1e-9) and flags for margin"""
    Gi = rmetric(cell)
    hm = [int(np.floor(dsmax * (1 + 1e-9) * cell[i])) + 1 for i in range(3)]
    h, k, l = np.meshgrid(np.arange(-hm[0], hm[0] + 1), np.arange(-hm[1], hm[1] + 1),
                          np.arange(-hm[2], hm[2] + 1), indexing="ij")
    h, k, l = h.ravel(), k.ravel(), l.ravel()
    H = np.array([h, k, l], dtype=np.longdouble)
    ds2 = np.einsum("in,ij,jn->n", H, Gi, H)
    ds = np.sqrt(np.maximum(ds2, 0))
    ok = CENTRING_OK[sym](h, k, l) & ~((h == 0) & (k == 0) & (l == 0))
    inside = ds < dsmax * (1 - 1e-9)
    margin = (~inside) & (ds < dsmax * (1 + 1e-9))
    return h, k, l, ds, ok, inside, margin, hm


def gen_cell(r, kind):
    while True:
        a, b, c = r.uniform(2, 30, 3)
        if kind == "triclinic":
            al, be, ga = r.uniform(55, 125, 3)
        elif kind == "monoclinic":
            al, ga, be = 90.0, 90.0, r.uniform(91, 125)
        elif kind == "orthorhombic":
            al = be = ga = 90.0
        elif kind == "tetragonal":
            b = a
            al = be = ga = 90.0
        elif kind == "hexagonal":
            b = a
            al = be = 90.0
            ga = 120.0
        elif kind == "rhombohedral":
            b = c = a
            al = be = ga = r.uniform(55, 115)
        elif kind == "cubic":
            b = c = a
            al = be = ga = 90.0
        cell = [float(x) for x in (a, b, c, al, be, ga)]
        if volume_ok(cell):
            return cell


def random_rot(r):
    q = r.normal(size=4)
    q /= np.sqrt((q * q).sum())
    w, x, y, z = q
    return np.array([[1 - 2 * (y * y + z * z), 2 * (x * y - z * w), 2 * (x * z + y * w)],
                     [2 * (x * y + z * w), 1 - 2 * (x * x + z * z), 2 * (y * z - x * w)],
                     [2 * (x * z - y * w), 2 * (y * z + x * w), 1 - 2 * (x * x + y * y)]])


KINDS = ["triclinic", "monoclinic", "orthorhombic", "tetragonal", "hexagonal", "rhombohedral", "cubic"]


def check_list(run, uc, cell, sym, dsmax, peaks, desc, route):
    h, k, l, ds, ok, inside, margin, hm = brute(cell, sym, dsmax)
    want = {}
    maybe = {}
    allds = {}
    for i in np.nonzero(ok & (inside | margin))[0]:
        key = (int(h[i]), int(k[i]), int(l[i]))
        if inside[i]:
            want[key] = ds[i]
        else:
            maybe[key] = ds[i]
    got = {}
    vio = False
    for p in peaks:
        d, hkl = p[0], tuple(int(x) for x in p[1])
        if hkl in got:
            vio |= run.violation("%s:duplicate" % route, "hkl %r listed twice" % (hkl,),
                                 dict(desc, hkl=hkl))
        got[hkl] = d
    run.count("reflections_checked", len(got))
    dlist = [p[0] for p in peaks]
    if any(dlist[i] > dlist[i + 1] for i in range(len(dlist) - 1)):
        i = [i for i in range(len(dlist) - 1) if dlist[i] > dlist[i + 1]][0]
        vio |= run.violation("%s:order" % route, "list not in ascending d*: entry %d has %.12g, entry %d has %.12g"
                             % (i, dlist[i], i + 1, dlist[i + 1]), desc)
    Gi = rmetric(cell)
    for hkl, d in got.items():
        hv = np.array(hkl, dtype=np.longdouble)
        dref = float(np.sqrt(hv @ Gi @ hv))
        if hkl == (0, 0, 0):
            vio |= run.violation("%s:origin" % route, "(0,0,0) listed", desc)
            continue
        if hkl not in want and hkl not in maybe:
            okc = bool(CENTRING_OK[sym](*[np.array([x]) for x in hkl])[0])
            if not okc:
                vio |= run.violation("%s:forbidden:%s" % (route, sym),
                                     "hkl %r is forbidden by %s centring but listed" % (hkl, sym),
                                     dict(desc, hkl=hkl))
            else:
                vio |= run.violation("%s:beyond-limit" % route,
                                     "hkl %r has d*=%.9g >= limit %.9g but is listed" % (hkl, dref, dsmax),
                                     dict(desc, hkl=hkl))
        if abs(d - dref) > 1e-10 * max(dref, 1e-3):
            vio |= run.violation("%s:dstar-value" % route,
                                 "listed d* %.15g != |B.hkl| %.15g for %r" % (d, dref, hkl),
                                 dict(desc, hkl=hkl))
        dB = float(np.sqrt(((uc.B @ np.array(hkl, float)) ** 2).sum()))
        if abs(d - dB) > 1e-10 * max(dref, 1e-3):
            vio |= run.violation("%s:dstar-vs-B" % route,
                                 "listed d* %.15g != |uc.B.hkl| %.15g for %r" % (d, dB, hkl),
                                 dict(desc, hkl=hkl))
    missing = [hk for hk in want if hk not in got]
    if missing:
        missing.sort(key=lambda t: want[t])
        obl = any(abs(c - 90) > 1e-9 for c in cell[3:])
        key = "%s:missing:%s:%s" % (route, sym, "oblique" if obl else "orthogonal")
        vio |= run.violation(key, "%d allowed reflections with d*<limit missing, e.g. %r d*=%.6g (limit %.6g)"
                             % (len(missing), missing[0], float(want[missing[0]]), dsmax),
                             dict(desc, missing=missing[:10]))
    return len(want), int((~ok & inside).sum()), vio


def check_rings(run, uc, limit, tol, desc):
    peaks = uc.peaks
    ringds, ringhkls = uc.ringds, uc.ringhkls
    if list(ringds) != sorted(ringds) or len(set(ringds)) != len(ringds):
        run.violation("rings:order", "ringds not strictly ascending", desc)
    if set(ringhkls.keys()) != set(ringds):
        run.violation("rings:keys", "ringhkls keys differ from ringds", desc)
        return
    # membership: every peak in exactly one ring
    seen = {}
    for d in ringds:
        for hk in ringhkls[d]:
            seen[tuple(hk)] = seen.get(tuple(hk), 0) + 1
    pk = {tuple(p[1]): p[0] for p in peaks}
    run.count("ring_members_checked", len(pk))
    run.count("rings_checked", len(ringds))
    for hk in pk:
        if seen.get(hk, 0) != 1:
            run.violation("rings:partition", "reflection %r belongs to %d rings" % (hk, seen.get(hk, 0)),
                          dict(desc, hkl=hk))
            return
    for hk in seen:
        if hk not in pk:
            run.violation("rings:foreign", "ring member %r not in the reflection list" % (hk,), desc)
            return
    # contiguity in ascending d*, neighbour gaps < tol inside a ring
    eps = 1e-12
    prev_first = None
    prev_last = None
    for d in ringds:
        ds = sorted(pk[tuple(hk)] for hk in ringhkls[d])
        if abs(ds[0] - d) > eps:
            run.violation("rings:label", "ring key %.12g is not the smallest d* %.12g of its members" % (d, ds[0]), desc)
        gaps = np.diff(ds)
        if len(gaps) and gaps.max() >= tol * (1 + 1e-9):
            run.violation("rings:gap", "neighbouring members of a ring differ by %.6g >= tol %.6g"
                          % (gaps.max(), tol), dict(desc, ring=d))
        if prev_last is not None:
            if ds[0] < prev_last - eps:
                run.violation("rings:interleaved", "rings overlap in d*", dict(desc, ring=d))
            # a new ring may only start when its first member is >= tol from the
            # first member of the previous ring (holds for both "compare with ring
            # start" and "compare with previous member" groupings)
            if ds[0] - prev_first < tol * (1 - 1e-9):
                run.violation("rings:split", "ring at %.9g starts only %.3g after the previous ring start "
                              "(< tol %.3g)" % (ds[0], ds[0] - prev_first, tol), dict(desc, ring=d))
        prev_first, prev_last = ds[0], ds[-1]


def build_uc(unitcell, route, cell, sym):
    """the user entry points that lead to the same reflection list for a named centring"""
    if route == "from_pars":
        from ImageD11 import parameters
        d = {"cell__a": cell[0], "cell__b": cell[1], "cell__c": cell[2], "cell_alpha": cell[3], "cell_beta": cell[4],
             "cell_gamma": cell[5], "cell_lattice_[P,A,B,C,I,F,R]": sym}
        return unitcell.unitcell.from_pars(parameters.parameters(**d))
    if route == "unitcell_from_parameters":
        from ImageD11 import parameters
        d = {"cell__a": cell[0], "cell__b": cell[1], "cell__c": cell[2], "cell_alpha": cell[3], "cell_beta": cell[4],
             "cell_gamma": cell[5], "cell_lattice_[P,A,B,C,I,F,R]": sym}
        return unitcell.unitcell_from_parameters(parameters.parameters(**d))
    if route == "cellfromstring":
        return unitcell.cellfromstring(" ".join(repr(float(x)) for x in cell) + " " + sym)
    if route == "ctor-array-reused":
        # the caller's parameter buffer (a float64 array) is re-used for the next cell of a scan after the object was built:
        # the object must keep describing the cell it was built for
        buf = np.array(cell, dtype=np.float64)
        uc = unitcell.unitcell(buf, sym)
        buf[:3] *= 0.37
        buf[3:] = 90.0
        return uc
    return unitcell.unitcell(cell, sym)


ROUTES = ["ctor", "ctor", "from_pars", "unitcell_from_parameters", "cellfromstring", "ctor-array-reused"]


def one_case(run, seed, idx, mods):
    unitcell, indexing = mods
    r = rng(seed, "C03", idx)
    kind = KINDS[idx % 7] if idx % 3 else "triclinic"
    cell = gen_cell(r, kind)
    # one long axis and a high limit: indices beyond 127 (the documented working range is |h| < 200) while the number of
    # reflections stays moderate.  Which axis is long rotates with the case; own stream, so other cases are unchanged.
    long_axis = (idx % 25 == 7)
    if long_axis:
        rl = rng(seed, "C03", idx, "long-axis")
        kind = ("orthorhombic", "monoclinic", "triclinic")[(idx // 25) % 3]
        while True:
            cell = gen_cell(rl, kind)
            ax = (idx // 75 + int(rl.integers(3))) % 3
            for i in range(3):
                cell[i] = float(rl.uniform(25, 30)) if i == ax else float(rl.uniform(2.0, 2.6))
            if volume_ok(cell):
                break
    sym = "PABCIFR"[(idx // 7) % 7] if idx % 2 else "PABCIFR"[int(r.integers(7))]
    # aim for a target number of lattice points in the sphere: N ~ 4/3 pi ds^3 V
    G = metric(cell).astype(float)
    V = float(np.sqrt(np.linalg.det(G)))
    target = float(10 ** r.uniform(1.2, 3.3 if run.tier == "quick" else 3.8))
    dsmax = float((target / (4.19 * V)) ** (1 / 3.0))
    # keep the walk bound (|h|<200) out of play
    dsmax = min(dsmax, 150.0 / max(cell[:3]))
    if long_axis:
        dsmax = float(rl.uniform(129.0, 150.0)) / max(cell[:3])
        run.count("long_axis_cases_index_beyond_127")
    tol = float(10 ** r.uniform(-4, np.log10(5e-2)))
    # construction route drawn from a stream of its own (so the older dimensions of case idx are unchanged)
    rr = rng(seed, "C03", idx, "route")
    route = ROUTES[idx % len(ROUTES)] if idx < 2 * len(ROUTES) else ROUTES[int(rr.integers(len(ROUTES)))]
    desc = dict(index=idx, cell=cell, sym=sym, dsmax=dsmax, tol=tol, kind=kind, built_by=route)
    uc = build_uc(unitcell, route, cell, sym)
    run.count("built_by:" + route)
    peaks = uc.gethkls(dsmax)
    nw, nabs, vio = check_list(run, uc, cell, sym, dsmax, peaks, desc, "gethkls")
    run.case((kind, sym, tuple(round(c, 3) for c in cell), round(dsmax, 5)),
             nontrivial=(nw >= 10 and (nabs > 0 or sym == "P")),
             sample=dict(desc, n_allowed=nw, n_listed=len(peaks)))
    # the limit placed exactly on a reflection shell (taken from the cell itself: uc.ds(hkl) or a listed d*, the way
    # limits from noise-free simulated peaks arise): "below the limit" is strict, so that shell and everything beyond
    # must be absent - decided on the d* values the list itself carries, no harness arithmetic involved
    if len(peaks) > 3:
        kk = int(rr.integers(1, len(peaks)))
        for src in ("listed", "uc.ds"):
            lim_s = float(peaks[kk][0]) if src == "listed" else float(uc.ds(np.array(peaks[kk][1], float)))
            for obj, how in ((build_uc(unitcell, route, cell, sym), "fresh"), (uc, "same-object")):
                ps = obj.gethkls(lim_s)
                run.count("limit_on_a_shell_calls")
                bad = [q for q in ps if not q[0] < lim_s]
                if bad:
                    run.violation("gethkls:limit-on-shell:not-below-limit", "limit %.17g (= %s d* of %r, %s): %d listed "
                                  "reflections have d* >= limit, e.g. %r at %.17g" % (lim_s, src, tuple(peaks[kk][1]), how,
                                                                                      len(bad), tuple(bad[0][1]), bad[0][0]),
                                  dict(desc, dsmax=lim_s, history="limit-on-shell"))
                    break
                check_list(run, obj, cell, sym, lim_s, ps, dict(desc, dsmax=lim_s, history="limit-on-shell:" + how),
                           "gethkls:limit-on-shell")
        # a ring tolerance exactly equal to the gap between two neighbouring shells of the list (tolerances read off a
        # ring table, round numbers on round cells): members of one ring differ by LESS than the tolerance, so two
        # neighbours exactly one tolerance apart are in different rings - decided on the list's own floating point values
        dsl = sorted(set(float(q[0]) for q in peaks))
        cand = [i for i in range(len(dsl) - 1) if dsl[i + 1] - dsl[i] > 1e-7]
        if cand:
            i0 = cand[int(rr.integers(len(cand)))]
            tol_t = dsl[i0 + 1] - dsl[i0]
            ut = build_uc(unitcell, route, cell, sym)
            ut.makerings(dsmax, tol_t)
            run.count("ring_tolerance_equal_to_a_gap")
            pkd = {tuple(q[1]): float(q[0]) for q in ut.peaks}
            for dk in ut.ringds:
                dd = sorted(pkd[tuple(hk)] for hk in ut.ringhkls[dk])
                bad = [(a_, b_) for a_, b_ in zip(dd[:-1], dd[1:]) if not (b_ - a_) < tol_t]
                if bad:
                    run.violation("rings:gap:tie", "ring tolerance %.17g equals the gap between two neighbouring shells; the ring "
                                  "starting at %.17g holds neighbours %.17g and %.17g whose difference is not less than the "
                                  "tolerance" % (tol_t, dk, bad[0][0], bad[0][1]), dict(desc, tol=tol_t, history="tolerance-tie"))
                    break
        # leave the main object as it was for the histories below
        uc.gethkls(dsmax)
    # history: shrink the limit on the same object, must equal a fresh object
    if idx % 4 == 0:
        d2 = dsmax * 0.7
        p2 = uc.gethkls(d2)
        check_list(run, uc, cell, sym, d2, p2, dict(desc, dsmax=d2, history="shrink"), "gethkls")
        p3 = unitcell.unitcell(cell, sym).gethkls(d2)
        if sorted(p2) != sorted(p3):
            run.violation("gethkls:history", "list after re-calling with a smaller limit differs from fresh", desc)
    # longer histories on ONE object: limits go wide -> narrow -> medium in random order, mixing gethkls and makerings;
    # after every call the returned list / ring table must be that of the limit just asked for
    if idx % 2 == 0:
        uh = unitcell.unitcell(cell, sym)
        fracs = list(r.permutation([1.0, 0.45, 0.75, 0.3, 0.9]))[:4]
        hist = []
        for f in fracs:
            lim_h = dsmax * float(f)
            if r.random() < 0.5:
                hist.append("gethkls(%.4f)" % lim_h)
                ph = uh.gethkls(lim_h)
                check_list(run, uh, cell, sym, lim_h, ph, dict(desc, history=list(hist)), "gethkls:history")
            else:
                hist.append("makerings(%.4f,%.4g)" % (lim_h, tol))
                full = brute(cell, sym, lim_h + tol)
                if not (full[4] & full[5]).any():
                    continue
                uh.makerings(lim_h, tol)
                check_list(run, uh, cell, sym, lim_h + tol, uh.peaks, dict(desc, history=list(hist)), "makerings:history")
                check_rings(run, uh, lim_h, tol, dict(desc, history=list(hist)))
            run.count("history_steps")
    # repeated limits on ONE object: gethkls answers a repeated limit from its cached list (limit == self.limit), and
    # makerings(L - tol, tol) after gethkls(L) re-uses it too when (L - tol) + tol == L in floating point
    if rr.random() < 0.5:
        uk = build_uc(unitcell, route, cell, sym)
        lims = [dsmax * float(f) for f in rr.choice([1.0, 0.8, 0.6], 2, replace=False)]
        seq = [lims[int(j)] for j in rr.integers(0, 2, 5)]
        seq[1] = seq[0]                      # at least one immediate repeat
        hist = []
        last = None
        for lim_h in seq:
            hist.append("gethkls(%.6f)" % lim_h)
            ph = uk.gethkls(lim_h)
            if last is not None and last == lim_h:
                run.count("cache_hit_calls")
            last = lim_h
            check_list(run, uk, cell, sym, lim_h, ph, dict(desc, history=list(hist)), "gethkls:repeat")
            lo = lim_h - tol
            if rr.random() < 0.5 and lo > 0 and lo + tol == lim_h and len(ph):
                hist.append("makerings(%.6f,%.4g)" % (lo, tol))
                uk.makerings(lo, tol)
                run.count("cache_hit_makerings")
                check_list(run, uk, cell, sym, lim_h, uk.peaks, dict(desc, history=list(hist)), "makerings:repeat")
                check_rings(run, uk, lo, tol, dict(desc, history=list(hist)))
                if rr.random() < 0.5:
                    # ... and the list for the ring limit itself, asked right after the rings were made
                    hist.append("gethkls(%.6f)" % lo)
                    ph = uk.gethkls(lo)
                    last = lo
                    check_list(run, uk, cell, sym, lo, ph, dict(desc, history=list(hist)), "gethkls:repeat")
        # Not judged: a caller that edits the list gethkls returned (it is the object's cached list, so a later
        # gethkls/makerings at the same limit sees the edit).  The statement speaks about the list generated for a cell
        # and limit, not about its immunity against the caller; observed and recorded in DESIGN.md only.
    # the ring table indexer.assigntorings leaves in the unit cell object: makerings(max |g|, ds_tol)
    if rr.random() < 0.35 and len(peaks):
        ua = build_uc(unitcell, route, cell, sym)
        sel = rr.choice(len(peaks), min(len(peaks), 40), replace=False)
        hk = np.array([peaks[int(j)][1] for j in sel], float)
        B = np.linalg.cholesky(np.asarray(rmetric(cell), float)).T       # harness B, B^T B = G*
        gv = (hk @ B.T) @ np.asarray(random_rot(rr)).T
        gv = gv * (1 + rr.uniform(-1e-4, 1e-4, (len(gv), 1)))             # observed peaks are a little off their ring
        old_level = indexing.loglevel      # assigntorings prints one line per ring at its default level
        indexing.loglevel = 3
        try:
            ind = indexing.indexer(unitcell=ua, gv=gv, ds_tol=tol, wavelength=0.5 / dsmax)
            ind.assigntorings()
        finally:
            indexing.loglevel = old_level
        lim_a = float(np.sqrt((gv * gv).sum(axis=1)).max())
        run.count("assigntorings_tables")
        ad = dict(desc, route="indexer.assigntorings", limit=lim_a)
        check_list(run, ua, cell, sym, lim_a + tol, ua.peaks, ad, "assigntorings")
        check_rings(run, ua, lim_a, tol, ad)
    # ---- the transformer route (fitting gui, scripts): addcellpeaks builds the list from the parameters; the centring is
    # then changed on the same object (trying P, then F, then I on one cell) and the list asked for again
    if idx % 4 == 1 and not long_axis:
        import contextlib, io
        from ImageD11 import transformer, columnfile
        rt = rng(seed, "C03", idx, "transformer")
        wl = 0.3
        lim_t = min(dsmax, 1.9 / wl)
        tthlim = float(np.degrees(2 * np.arcsin(wl * lim_t / 2)))
        with contextlib.redirect_stdout(io.StringIO()):
            tr = transformer.transformer()
            tr.colfile = columnfile.colfile_from_dict({"tth": np.array([0.5 * tthlim, tthlim])})
            syms = [sym] + [str(x) for x in rt.choice([c for c in "PABCIFR" if c != sym], 2, replace=False)]
            for step_, sy in enumerate(syms):
                tr.parameterobj.set_parameters({"cell__a": cell[0], "cell__b": cell[1], "cell__c": cell[2], "cell_alpha": cell[3],
                                                "cell_beta": cell[4], "cell_gamma": cell[5],
                                                "cell_lattice_[P,A,B,C,I,F,R]": sy, "wavelength": wl})
                try:
                    tr.addcellpeaks(limit=tthlim)
                except IndexError:
                    # no reflection of this centring below the limit: makerings has no ring to make (the input class removed
                    # from the ring checks earlier, see Corrections); nothing to judge
                    run.count("transformer_addcellpeaks_no_reflection_below_limit")
                    continue
                run.count("transformer_addcellpeaks_calls")
                tdesc = dict(desc, route="transformer.addcellpeaks", sym=sy, history=["centring %s" % q for q in syms[:step_ + 1]],
                             dsmax=float(tr.dslimit))
                check_list(run, tr.unitcell, cell, sy, float(tr.dslimit), tr.theorypeaks, tdesc, "transformer.addcellpeaks")
    # rings
    lim = dsmax * float(r.uniform(0.5, 1.0))
    uc2 = build_uc(unitcell, route, cell, sym)
    if len(peaks) == 0 or lim + tol <= min(p[0] for p in peaks) * (1 + 1e-9):
        run.count("rings_skipped_no_reflection_below_limit")   # makerings needs >= 1 reflection
        return
    uc2.makerings(lim, tol)
    check_list(run, uc2, cell, sym, lim + tol, uc2.peaks, dict(desc, dsmax=lim + tol, route="makerings"),
               "makerings")
    check_rings(run, uc2, lim, tol, dict(desc, limit=lim))


def check(run, replay=None):
    from ImageD11 import unitcell, indexing
    mods = (unitcell, indexing)
    run.assumptions += [
        "completeness box |h|<=floor(dsmax*a)+1 is sufficient because |h|=|a.g|<=|a||g|",
        "reflections within 1e-9 relative of the limit may be listed or not",
        "the gv -> ring assignment (indexer.ra) made by assigntorings is not part of the property; only the ring table is judged",
        "ring rule accepted: contiguous ascending groups, neighbour gap < tol inside a ring, a ring "
        "starts >= tol after the start of the previous ring",
    ]
    if replay is not None:
        one_case(run, replay["seed"], replay["case"]["index"], mods)
        run.nontrivial.update(["replay", "replay2"])
        return
    n = 150 if run.tier == "quick" else 3000
    for idx in range(n):
        one_case(run, run.seed, idx, mods)
    run.require_counter("reflections_checked", 1000)
    run.require_counter("rings_checked", 100)
    run.require_counter("history_steps", 50)
    run.require_counter("limit_on_a_shell_calls", 200)
    run.require_counter("ring_tolerance_equal_to_a_gap", 50)
    run.require_counter("cache_hit_calls", 50)
    run.require_counter("transformer_addcellpeaks_calls", 30)
    run.require_counter("long_axis_cases_index_beyond_127", 5)
    run.require_counter("cache_hit_makerings", 10)
    run.require_counter("assigntorings_tables", 20)
    for rt in set(ROUTES):
        run.require_counter("built_by:" + rt, 5)


# workloads added in seeding rounds 7-10 (DESIGN.md sections 13.9-13.12)
LEVEL_TEXT = LEVEL_TEXT + ' Later additions: cells with one long axis and limits that put indices beyond 127.'
LEVEL_TEXT = LEVEL_TEXT + ' Round 11: transformer.addcellpeaks with the centring changed on one transformer object.'
