"""C12 - peak properties and frame-to-frame merging conserve pixels and intensity.

Oracle: 3-D connected components (8-connected in a frame, same pixel on adjacent
frames) of the thresholded stack; per-component pixel count, summed intensity,
intensity-weighted centroid, maximum voxel and bounding box in exact arithmetic
(distinct integer intensities).  Invariants checked at a hook after every
peaksearch+mergelast: label partition of the current frame = restriction of the
3-D components of the frames seen so far; ledger written + open = seen.

Generator class is stratified by the case index (every class is guaranteed); shape, number of frames, threshold,
pixel dtype, omega start/step, the labelling route (peaksearch or labelpeaks + measurepeaks(blim=...)) and the use of
output2dpeaks inside the loop are drawn from the case's own rng(seed, "C12", idx), so all combinations can occur.
The low-level kernels blobproperties / bloboverlaps / blob_moments are also driven directly on arbitrary (not
necessarily connected, arbitrarily numbered) label images with an exact integer reference and a harness union-find.
"""
import io
import os
import numpy as np
from scipy import ndimage
from .. import imgs
from ..common import rng

TECHNIQUE = ("runtime history monitor on labelimage.peaksearch/measurepeaks/output2dpeaks/mergelast/finalise: per-frame invariant "
             "hook (label partition vs 3-D components of frames seen so far; conservation ledger written + open = seen) and final "
             "bijection between .flt rows and 3-D connected components with exact moments; the same oracle on the files written by "
             "scripts/peaksearch.py (single-thread and threaded drivers, several thresholds per run); exact reference model "
             "(integer sums, harness union-find) on direct calls of blobproperties / bloboverlaps / blob_moments")
LEVEL_TEXT = ("Exploration: stacks of 1..40 frames, 2x7..128x128, empty frames, ellipsoidal blobs, speckle, blobs that fork and join, "
              "two blobs on one frame linked only through the previous frame, chains over three frames (every class on shapes and "
              "frame counts drawn independently), float32/float64/int32/uint16 pixels, omega starts and steps incl. values float32 "
              "cannot represent (0.1, 0.05, 0.3 near 359 deg) and both signs; each written peak is matched through its unique maximum "
              "voxel to a reference component and count/sum/centroid/max/bounding box compared; totals conserved after every frame; "
              "2-D peaks written by output2dpeaks inside the loop are compared with the 2-D components of the frame.")
LEVEL_NOTE = ("Trusts scipy.ndimage.label with the stated 3-D structure (cross-checked per frame against the C11 oracle) and exact "
              "integer arithmetic of the harness; the text file carries 4 decimals; blobproperties receives omega as a C float, so "
              "omega columns are compared within the float32 rounding of the frame angle plus the print rounding. The written "
              "widths/covariances (sigs..covfo), sum_intensity^2, dety/detz, onfirst/onlast and spot3d_id are not named by the "
              "statement and are not decided. Components whose pixels are all <= 0 (negative threshold) are generated in a "
              "separate class with distinct values (the pinned tree wrote IMax_int 0 at (0,0) for them; repaired in /repo).")

RULE = ("a case = one frame stack (shape, nframes, generator class, threshold, omega step); non-trivial = some 3-D component spans "
        ">= 2 frames and some frame holds >= 2 blobs; distinct = (shape, nframes, class, hash of volume)")

STRUCT3 = np.zeros((3, 3, 3), int)
STRUCT3[1, :, :] = 1
STRUCT3[0, 1, 1] = STRUCT3[2, 1, 1] = 1

F32 = 2.0 ** -24        # relative rounding error of double -> float32 (round to nearest)


class LibraryRaised(Exception):
    pass


def lib(fn, *a, **kw):
    """call into the code under test: an exception on a valid frame history means no peaks are written for it, which is
    reported as a violation (not as a harness problem)"""
    try:
        return fn(*a, **kw)
    except Exception as e:
        raise LibraryRaised("%s raised %s: %s" % (getattr(fn, "__name__", fn), type(e).__name__, e))


def gen_volume(r, nfr, shape, cls):
    ns, nf = shape
    vol = np.zeros((nfr,) + shape, bool)
    if cls in ("ellipsoids", "mixed"):
        for _ in range(int(r.integers(1, 10))):
            c = [r.uniform(0, nfr), r.uniform(0, ns), r.uniform(0, nf)]
            rad = [r.uniform(0.6, max(1.0, nfr / 3.0)), r.uniform(0.7, max(1.5, ns / 4.0)), r.uniform(0.7, max(1.5, nf / 4.0))]
            kk, ii, jj = np.indices(vol.shape)
            vol |= ((kk - c[0]) / rad[0]) ** 2 + ((ii - c[1]) / rad[1]) ** 2 + ((jj - c[2]) / rad[2]) ** 2 <= 1
    if cls in ("speckle", "mixed"):
        vol |= r.random(vol.shape) < float(r.choice([0.03, 0.1, 0.2, 0.3]))
    if cls == "linked-through-previous" and nfr >= 2 and nf >= 5 and ns >= 3:
        # frame k-1: a bar; frame k: its two ends only (two blobs linked only via the previous frame)
        k = int(r.integers(1, nfr))
        i = int(r.integers(0, ns))
        vol[k - 1, i, :] = True
        vol[k, i, 0] = True
        vol[k, i, nf - 1] = True
        if k + 1 < nfr:
            vol[k + 1, i, 0] = True       # carries on: must stay one peak
        vol |= r.random(vol.shape) < 0.02
    if cls == "chain" and nfr >= 3 and nf >= 5:
        # A1 - B - A2 over three frames, then both ends continue separately
        k = int(r.integers(0, nfr - 2))
        i = int(r.integers(0, ns))
        vol[k, i, 0:2] = True
        vol[k + 1, i, 1:nf - 1] = True
        vol[k + 2, i, nf - 2:nf] = True
        vol[k + 2, i, 0] = False
        vol |= r.random(vol.shape) < 0.02
    if cls == "forkjoin" and nfr >= 3:
        k = int(r.integers(0, nfr - 2))
        vol[k, ns // 2, nf // 4: 3 * nf // 4 + 1] = True              # one blob
        vol[k + 1, ns // 2, nf // 4] = True                            # forks into two
        vol[k + 1, ns // 2, 3 * nf // 4] = True
        vol[k + 2, ns // 2, nf // 4: 3 * nf // 4 + 1] = True           # joins again
    if cls == "empty-frames":
        vol |= r.random(vol.shape) < 0.15
        vol[::2] = False
    if cls == "full":
        vol[:] = True
    return vol


CLASSES = ["ellipsoids", "speckle", "mixed", "linked-through-previous", "chain", "forkjoin", "empty-frames", "mixed",
           "ellipsoids", "full"]
SHAPES = [(4, 4), (5, 9), (8, 8), (16, 12), (32, 32), (33, 17), (64, 64), (128, 128), (2, 7), (7, 2), (3, 40), (40, 3)]
NFRAMES = [1, 2, 3, 5, 8, 13, 21, 40]
# minimum (nframes, ns, nf) for the structure of a class to exist (gen_volume guards)
NEEDS = {"linked-through-previous": (2, 3, 5), "chain": (3, 1, 5), "forkjoin": (3, 1, 4)}
OM_STEPS = [0.25, 0.5, 1.0, -0.5, -1.0, 0.1, 0.05, -0.1, 0.3]
OM_STARTS = [0.0, -10.0, 37.5, 359.0, 123.456, -179.95]


def draw_dims(r, cls, shapes=SHAPES, nframes=NFRAMES, cap=200000):
    need = NEEDS.get(cls, (1, 1, 1))
    ok_shapes = [s for s in shapes if s[0] >= need[1] and s[1] >= need[2]]
    ok_nfr = [n for n in nframes if n >= need[0]]
    shape = ok_shapes[int(r.integers(len(ok_shapes)))]
    nfr = int(ok_nfr[int(r.integers(len(ok_nfr)))])
    if shape[0] * shape[1] * nfr > cap:
        nfr = max(need[0], cap // (shape[0] * shape[1]))
    return shape, nfr


def draw_intensities(r, vol, thr, dtype):
    """distinct integer intensities above thr on vol (unique maximum voxel per component, exact sums), values <= thr elsewhere"""
    nvox = vol.size
    top = (65535 - int(thr) - 1) if dtype == "uint16" else (2 ** 20 - 200)
    assert nvox <= top
    vals = r.permutation(top)[:nvox] + int(thr) + 1
    lo = int(thr) - r.integers(0, 3, vol.shape)
    if dtype == "uint16":
        lo = np.maximum(lo, 0)
    inten = np.where(vol, vals.reshape(vol.shape), lo)
    return inten.astype({"float32": np.float32, "float64": np.float64, "int32": np.int32, "uint16": np.uint16}[dtype])


def ref_components(vol, inten, omegas):
    lab, n = ndimage.label(vol, structure=STRUCT3)
    comps = {}
    if n == 0:
        return lab, comps
    kk, ii, jj = np.nonzero(vol)
    ll = lab[kk, ii, jj]
    I = inten[kk, ii, jj].astype(np.int64)
    order = np.argsort(ll, kind="stable")
    kk, ii, jj, ll, I = kk[order], ii[order], jj[order], ll[order], I[order]
    bounds = np.searchsorted(ll, np.arange(1, n + 2))
    for c in range(n):
        a, b = bounds[c], bounds[c + 1]
        k_, i_, j_, w = kk[a:b], ii[a:b], jj[a:b], I[a:b]
        tot = int(w.sum())
        m = int(np.argmax(w))
        om = omegas[k_]
        comps[c + 1] = dict(
            npix=int(b - a), sumI=tot,
            s=float((i_ * w).sum()) / tot, f=float((j_ * w).sum()) / tot, o=float((om * w).sum() / tot),
            maxI=int(w[m]), max_s=int(i_[m]), max_f=int(j_[m]), max_o=float(om[m]),
            bb=(int(i_.min()), int(i_.max()), int(j_.min()), int(j_.max()), float(om.min()), float(om.max())),
            key=(int(k_[m]), int(i_[m]), int(j_[m])))
    return lab, comps


def compare_flt(run, V, text, vol, inten, omegas, comps):
    """.flt text (as written by labelimage) vs the reference 3-D components.

    Tolerances (derived): columns are printed with %.4f -> 0.5e-4 print rounding (0.51e-4 used).  Pixel sums are
    integers < 2^53 and exact.  Omega reaches blobproperties as a C float: every frame angle is perturbed by at most
    2^-24 |omega_k| (round to nearest), so an intensity-weighted mean of frame angles (positive weights) and the
    min / max / max-pixel angle move by at most 2^-24 max|omega|; the double accumulation adds < 1e-9 relative."""
    rows = [l.split() for l in text.splitlines() if l.strip() and not l.startswith("#")]
    titles = text.splitlines()[0].lstrip("#").split()
    col = {t: i for i, t in enumerate(titles)}
    bykey = {c["key"]: (cid, c) for cid, c in comps.items()}
    omegas = np.asarray(omegas, float)
    otol = 0.51e-4 + F32 * float(np.abs(omegas).max()) * 1.01
    used = set()
    run.count("peaks_written", len(rows))
    run.count("components_expected", len(comps))
    if len(rows) != len(comps):
        V("final:count", "%d peaks written, %d connected components" % (len(rows), len(comps)))
    tp, tI = 0, 0.0
    for v in rows:
        g = lambda t: float(v[col[t]])
        tp += int(g("Number_of_pixels"))
        tI += g("sum_intensity")
        # frame of the maximum voxel: nearest frame angle (angles are >= 0.05 apart, otol < 1e-4)
        kf = int(np.argmin(np.abs(omegas - g("IMax_o"))))
        key = (kf if abs(omegas[kf] - g("IMax_o")) <= otol else None, int(g("IMax_s")), int(g("IMax_f")))
        if key not in bykey:
            V("final:unknown-peak", "written peak with max voxel %r (IMax_o %r) matches no component" % (key, g("IMax_o")))
            continue
        cid, c = bykey[key]
        if cid in used:
            V("final:duplicate-peak", "component written twice")
            continue
        used.add(cid)
        run.count("peaks_matched")
        bad = []
        if int(g("Number_of_pixels")) != c["npix"]:
            bad.append("npix %d != %d" % (int(g("Number_of_pixels")), c["npix"]))
        if abs(g("sum_intensity") - c["sumI"]) > 1e-3:
            bad.append("sum_intensity %r != %d" % (g("sum_intensity"), c["sumI"]))
        if abs(g("avg_intensity") - c["sumI"] / c["npix"]) > 1e-4 * 1.01:
            bad.append("avg_intensity")
        for t, w in (("sc", c["s"]), ("fc", c["f"]), ("s_raw", c["s"]), ("f_raw", c["f"])):
            if abs(g(t) - w) > 0.51e-4 + 1e-9 * abs(w):
                bad.append("%s %r != %r" % (t, g(t), w))
        if abs(g("omega") - c["o"]) > otol + 1e-9 * abs(c["o"]):
            bad.append("omega %r != %r" % (g("omega"), c["o"]))
        if g("IMax_int") != c["maxI"]:
            bad.append("IMax_int %r != %d" % (g("IMax_int"), c["maxI"]))
        bb = (g("Min_s"), g("Max_s"), g("Min_f"), g("Max_f"), g("Min_o"), g("Max_o"))
        if any(abs(a - b) > (0.51e-4 if q < 4 else otol) for q, (a, b) in enumerate(zip(bb, c["bb"]))):
            bad.append("bounding box %r != %r" % (bb, c["bb"]))
        if bad:
            V("final:properties", "peak of component with max voxel %r: %s" % (key, "; ".join(bad[:3])))
    if tp != int(vol.sum()) or abs(tI - float(inten[vol].astype(np.int64).sum())) > 1e-3 * max(1, len(rows)):
        V("final:conservation", "total pixels %d / intensity %.4f written, stack has %d / %d"
          % (tp, tI, int(vol.sum()), int(inten[vol].astype(np.int64).sum())))
    missing = [c for cid, c in comps.items() if cid not in used]
    if missing and len(rows) == len(comps):
        V("final:lost-component", "component with max voxel %r never written" % (missing[0]["key"],))
    return rows, tp


def compare_2d(run, V, text, l2, n2, frame, k):
    """records written by output2dpeaks for one frame vs the 2-D components of that frame.
    Format is '%d' + 9 x '%f' (6 decimals): print rounding 0.5e-6 (0.51e-6 used) + 1e-9 relative for the double
    division; pixel count, IMax are integers."""
    rows = [l.split() for l in text.splitlines() if l.strip() and not l.startswith("#")]
    run.count("spt_2d_records", len(rows))
    if len(rows) != n2:
        V("2d:count", "frame %d: output2dpeaks wrote %d records, frame has %d blobs" % (k, len(rows), n2), frame=k)
        return
    I = frame.astype(np.int64)
    lf, If = l2.ravel(), I.ravel()
    ii, jj = np.indices(l2.shape)
    bc = lambda w: np.bincount(lf, weights=w, minlength=n2 + 1)[1:]        # exact: integer sums far below 2^53
    npix, tot, si, fi = bc(None), bc(If.astype(float)), bc((ii.ravel() * If).astype(float)), bc((jj.ravel() * If).astype(float))
    mx = ndimage.maximum(I, l2, index=np.arange(1, n2 + 1)).astype(np.int64)
    bymax = {int(m): b for b, m in enumerate(mx)}
    seen = set()
    for v in rows:
        x = [float(t) for t in v]
        b = bymax.get(int(x[9])) if x[9] == int(x[9]) else None
        if b is None:
            V("2d:unknown-peak", "frame %d: record with IMax_int %r matches no blob maximum" % (k, x[9]), frame=k)
            continue
        if b in seen:
            V("2d:duplicate-peak", "frame %d: blob written twice" % k, frame=k)
            continue
        seen.add(b)
        want = (float(npix[b]), tot[b] / npix[b], si[b] / tot[b], fi[b] / tot[b], si[b] / tot[b], fi[b] / tot[b])
        bad = [q for q in range(6) if abs(x[q] - want[q]) > 0.51e-6 + 1e-9 * abs(want[q])]
        if bad:
            V("2d:properties", "frame %d blob with max %d: columns %r differ: wrote %r, component has npix/avg/s/f/sc/fc %r"
              % (k, int(x[9]), bad, x[:6], want), frame=k)


def one_case(run, seed, idx, mods):
    try:
        _one_case(run, seed, idx, mods)
    except LibraryRaised as e:
        run.violation("library-exception", str(e), dict(index=idx))


def _one_case(run, seed, idx, mods):
    labelimage, columnfile, cImageD11 = mods
    r = rng(seed, "C12", idx)
    cls = CLASSES[idx % len(CLASSES)]
    shape, nfr = draw_dims(r, cls)
    vol = gen_volume(r, nfr, shape, cls)
    thr = float(r.choice([0.0, 5.0, 100.0]))
    dtype = str(r.choice(["float32", "float32", "int32", "uint16", "float64"]))
    if dtype == "uint16" and vol.size > 65000:
        dtype = "int32"
    inten = draw_intensities(r, vol, thr, dtype)
    assert ((inten > thr) == vol).all()
    step = float(OM_STEPS[int(r.integers(len(OM_STEPS)))])
    om0 = float(OM_STARTS[int(r.integers(len(OM_STARTS)))])
    omegas = om0 + step * np.arange(nfr)
    if np.any(omegas != omegas.astype(np.float32)):
        run.count("stacks_with_non_float32_omega")
    route = "measurepeaks(blim)" if r.random() < 0.25 else "peaksearch"
    with2d = bool(r.random() < 0.5)
    desc = dict(index=idx, shape=shape, nframes=nfr, cls=cls, threshold=thr, omega_step=step, omega_start=om0, dtype=dtype,
                route2d=route, output2dpeaks=with2d)
    lab3, comps = ref_components(vol, inten, omegas)
    spans = any(c["bb"][4] != c["bb"][5] for c in comps.values())
    multi = any(ndimage.label(vol[k], structure=imgs.S8)[1] >= 2 for k in range(nfr))
    run.case((shape, nfr, cls, hash(vol.tobytes())), nontrivial=(spans and multi),
             sample=dict(desc, components=len(comps), voxels=int(vol.sum())))
    run.count("stacks_dtype_" + dtype)

    def V(key, what, **kw):
        run.violation(key, what, dict(desc, **kw))

    out = io.StringIO()
    spt = io.StringIO()
    lio = labelimage.labelimage(shape, fileout=out, sptfile=spt)
    written_pix = 0
    written_I = 0.0
    seen_pix = 0
    seen_I = 0
    pos = 0
    for k in range(nfr):
        l2, n2 = ndimage.label(vol[k], structure=imgs.S8)
        if route == "peaksearch":
            lib(lio.peaksearch, inten[k], thr, float(omegas[k]))
            # 2-D labelling of this frame
            if lio.npk != n2 or not np.array_equal(imgs.canon(lio.blim), imgs.canon(l2)):
                V("frame:2d-labels", "frame %d: 2-D labels are not the 8-connected components" % k, frame=k)
        else:
            # the caller supplies the label image (8-connected components, arbitrary numbering)
            perm = np.concatenate([[0], r.permutation(n2) + 1]).astype(np.int32)
            lio.threshold = thr
            lib(lio.measurepeaks, inten[k], float(omegas[k]), blim=perm[l2].astype(np.int32))
            run.count("frames_with_supplied_labels")
        if with2d and lio.npk > 0:          # as peaksearcher.peaksearch does
            p2 = len(spt.getvalue())
            lib(lio.output2dpeaks, spt)
            run.count("output2dpeaks_calls")
            compare_2d(run, V, spt.getvalue()[p2:], l2, n2, inten[k], k)
        lib(lio.mergelast)
        run.count("frames_processed")
        seen_pix += int(vol[k].sum())
        seen_I += int(inten[k][vol[k]].astype(np.int64).sum())
        # ---- hook (i): partition of the current frame (now in lastbl) == restriction of components of frames 0..k
        labk, _ = ndimage.label(vol[:k + 1], structure=STRUCT3)
        if len(np.setdiff1d(np.unique(labk[k]), [0])) < n2:
            run.count("frames_two_blobs_linked_through_previous")
            run.count("linked_through_previous:" + cls)
        if not np.array_equal(imgs.canon(lio.lastbl), imgs.canon(labk[k])):
            V("hook:partition", "after frame %d the labels of the current frame are not the restriction of the 3-D components "
              "of the frames seen so far (%d labels vs %d)" % (k, len(np.unique(lio.lastbl)) - 1, len(np.unique(labk[k])) - 1),
              frame=k)
        # ---- hook (ii): ledger
        text = out.getvalue()
        new = text[pos:]
        pos = len(text)
        for line in new.splitlines():
            if line.startswith("#") or not line.strip():
                continue
            v = line.split()
            written_pix += int(float(v[3]))
            written_I += float(v[13])
        open_pix = 0.0
        open_I = 0.0
        if lio.lastres is not None and lio.lastnp != "FIRST" and lio.lastnp > 0:
            res = np.asarray(lio.lastres)[:lio.lastnp]
            open_pix = float(res[:, cImageD11.s_1].sum())
            open_I = float(res[:, cImageD11.s_I].sum())
        run.count("ledger_checks")
        if written_pix + open_pix != seen_pix or abs(written_I + open_I - seen_I) > 1e-3:
            V("hook:ledger", "after frame %d: written %d + open %g pixels != seen %d (intensity %.4f + %.4f vs %d)"
              % (k, written_pix, open_pix, seen_pix, written_I, open_I, seen_I), frame=k)
            break
    lib(lio.finalise)
    rows, tp = compare_flt(run, V, out.getvalue(), vol, inten, omegas, comps)
    # the text parses back with columnfile to the same numbers
    if rows and idx % 5 == 0:
        import tempfile
        from ..common import WORK
        os.makedirs(os.path.join(WORK, "tmp"), exist_ok=True)
        fd, fn = tempfile.mkstemp(suffix=".flt", dir=os.path.join(WORK, "tmp"))
        try:
            with os.fdopen(fd, "w") as f:
                f.write(out.getvalue())
            cf = columnfile.columnfile(fn)
            run.count("flt_files_parsed")
            if cf.nrows != len(rows) or int(cf.Number_of_pixels.sum()) != tp:
                V("final:file-parse", "columnfile reads %d rows / %d pixels, written %d / %d"
                  % (cf.nrows, int(cf.Number_of_pixels.sum()), len(rows), tp))
        finally:
            os.unlink(fn)


# ------------------------------------------------------------------------------------------------------------------
# direct kernel route: blobproperties / bloboverlaps / blob_moments on arbitrary label images

def random_labels(r, shape, n):
    """label image with labels 0..n: arbitrary numbering, blobs need not be connected, every label 1..n used"""
    if n == 0:
        return np.zeros(shape, np.int32)
    mode = int(r.integers(3))
    if mode == 0:       # pure noise
        lab = r.integers(0, n + 1, shape)
    else:               # connected blobs, then randomly merged / renumbered down to n labels
        l0, n0 = ndimage.label(r.random(shape) < float(r.choice([0.3, 0.5, 0.7])), structure=imgs.S8)
        lab = np.concatenate([[0], r.integers(1, n + 1, n0)])[l0]
    flat = lab.ravel()
    where = r.permutation(flat.size)[:n]      # make sure every label occurs (n <= size)
    flat[where] = np.arange(1, n + 1)
    return flat.reshape(shape).astype(np.int32)


def ref_props(c, data, labels, n, omega):
    """exact reference for blobproperties: dict column -> float64 array (n,).  All products are integers (omega is a
    multiple of 1/4 below 64, so omega products are multiples of 1/16) far below 2^53: double sums are exact."""
    I = data.astype(np.int64).ravel()
    ii, jj = np.indices(data.shape)
    s, f, l = ii.ravel(), jj.ravel(), labels.ravel()
    o4 = int(round(omega * 4))
    assert o4 / 4.0 == omega
    bc = lambda w: np.bincount(l, weights=None if w is None else w.astype(np.float64), minlength=n + 1)[1:n + 1]
    out = {c.s_1: bc(None), c.s_I: bc(I), c.s_I2: bc(I * I), c.s_fI: bc(f * I), c.s_ffI: bc(f * f * I), c.s_sI: bc(s * I),
           c.s_ssI: bc(s * s * I), c.s_sfI: bc(s * f * I), c.s_oI: bc(o4 * I) / 4.0, c.s_ooI: bc(o4 * o4 * I) / 16.0,
           c.s_soI: bc(s * o4 * I) / 4.0, c.s_foI: bc(f * o4 * I) / 4.0}
    ext = np.zeros((n, 10))
    for b in range(1, n + 1):
        m = l == b
        q = int(np.argmax(np.where(m, I, -1)))
        ext[b - 1] = (I[q], f[q], s[q], omega, f[m].min(), f[m].max(), s[m].min(), s[m].max(), omega, omega)
    for q, name in enumerate((c.mx_I, c.mx_I_f, c.mx_I_s, c.mx_I_o, c.bb_mn_f, c.bb_mx_f, c.bb_mn_s, c.bb_mx_s, c.bb_mn_o,
                              c.bb_mx_o)):
        out[name] = ext[:, q]
    return out


SUMS = ("s_1", "s_I", "s_I2", "s_fI", "s_ffI", "s_sI", "s_ssI", "s_sfI", "s_oI", "s_ooI", "s_soI", "s_foI")


def merge_ref(c, rows):
    """reference merge of property rows (list of dict column -> value)"""
    out = {}
    for name in SUMS:
        col = getattr(c, name)
        if col in rows[0]:
            out[col] = sum(rw[col] for rw in rows)
    top = max(rows, key=lambda rw: rw[c.mx_I])
    for col in (c.mx_I, c.mx_I_f, c.mx_I_s, c.mx_I_o):
        out[col] = top[col]
    for col in (c.bb_mn_f, c.bb_mn_s, c.bb_mn_o):
        out[col] = min(rw[col] for rw in rows)
    for col in (c.bb_mx_f, c.bb_mx_s, c.bb_mx_o):
        out[col] = max(rw[col] for rw in rows)
    return out


def kernel_case(run, seed, idx, cImageD11):
    c = cImageD11
    r = rng(seed, "C12", "kernel", idx)
    shape = [(2, 2), (3, 7), (8, 8), (16, 12), (31, 33), (64, 64)][int(r.integers(6))]
    size = shape[0] * shape[1]
    n1 = int(r.integers(0, min(size, 40) + 1)) if r.random() < 0.9 else 0
    n2 = int(r.integers(0, min(size, 40) + 1)) if r.random() < 0.9 else 0
    L1, L2 = random_labels(r, shape, n1), random_labels(r, shape, n2)
    vals = r.permutation(2 ** 20)[:2 * size] + 1                      # distinct over both frames: unique maxima
    d1, d2 = vals[:size].reshape(shape).astype(np.float32), vals[size:].reshape(shape).astype(np.float32)
    o1 = float(r.integers(-200, 200)) / 4.0
    o2 = o1 + float(r.choice([-1.0, -0.25, 0.25, 0.5, 1.0]))
    desc = dict(index=idx, route="kernels", shape=shape, n1=n1, n2=n2)
    run.case(("kernel", shape, n1, n2, hash(L1.tobytes() + L2.tobytes())), nontrivial=(n1 > 1 and n2 > 1),
             sample=desc if idx < 2 else None)

    def V(key, what):
        run.violation("kernel:" + key, what, desc)

    # only the accumulators behind the quantities the statement names are decided: pixel count, summed intensity,
    # first moments (centroid), maximum pixel, bounding box.  Second moments (widths / covariances) are not.
    cols = sorted({c.s_1, c.s_I, c.s_fI, c.s_sI, c.s_oI, c.mx_I, c.mx_I_f, c.mx_I_s, c.mx_I_o, c.bb_mn_f, c.bb_mx_f, c.bb_mn_s,
                   c.bb_mx_s, c.bb_mn_o, c.bb_mx_o})
    res, refs = [], []
    for (d, L, n, o) in ((d1, L1, n1, o1), (d2, L2, n2, o2)):
        if n == 0:
            res.append(np.zeros((1, c.NPROPERTY)))      # placeholder row, npk = 0 is passed to bloboverlaps
            refs.append({})
            continue
        rs = c.blobproperties(d, L, n, omega=o)
        run.count("blobproperties_calls")
        want = ref_props(c, d, L, n, o)
        for col in cols:
            if not np.array_equal(rs[:, col], want[col]):
                b = int(np.nonzero(rs[:, col] != want[col])[0][0])
                V("blobproperties", "column %d of blob %d is %r, exact reference %r" % (col, b + 1, rs[b, col], want[col][b]))
                return
        res.append(rs)
        refs.append(want)
    rows1 = [{col: refs[0][col][b] for col in cols} for b in range(n1)]
    rows2 = [{col: refs[1][col][b] for col in cols} for b in range(n2)]
    if n1 > 0 and n2 > 0:
        # harness union-find over overlapping label pairs (nodes: ("a", label on frame 1), ("b", label on frame 2))
        parent = {}

        def find(x):
            while parent.setdefault(x, x) != x:
                parent[x] = parent[parent[x]]
                x = parent[x]
            return x
        for a, b in set(zip(L1[(L1 > 0) & (L2 > 0)].tolist(), L2[(L1 > 0) & (L2 > 0)].tolist())):
            parent[find(("a", a))] = find(("b", b))
        groups = {}
        for b in range(1, n2 + 1):
            groups.setdefault(find(("b", b)), ([], []))[1].append(b)
        for a in range(1, n1 + 1):
            g = find(("a", a))
            if g in groups:
                groups[g][0].append(a)
        merged_a = set(a for g in groups.values() for a in g[0])
        L2in = L2.copy()
        r1, r2 = res[0].copy(), res[1].copy()
        npk = c.bloboverlaps(L1, n1, r1, L2, n2, r2, 0)
        run.count("bloboverlaps_calls")
        if len(groups) < n2:
            run.count("bloboverlaps_calls_merging_current_blobs")
        if npk != len(groups):
            V("bloboverlaps:count", "returned %d peaks, %d groups of current-frame blobs after linking" % (npk, len(groups)))
            return
        want_part = np.zeros(shape, np.int64)
        for gi, g in enumerate(groups.values()):
            want_part[np.isin(L2in, g[1])] = gi + 1
        u = np.unique(L2[L2in > 0])
        if (L2[L2in == 0] != 0).any() or len(u) != npk or u[0] != 1 or u[-1] != npk or \
                not np.array_equal(imgs.canon(L2), imgs.canon(want_part)):
            V("bloboverlaps:relabel", "current-frame labels after the call are not the linked groups numbered 1..%d" % npk)
            return
        for g in groups.values():
            ii, jj = np.nonzero(L2in == g[1][0])
            row = r2[int(L2[ii[0], jj[0]]) - 1]
            want = merge_ref(c, [rows2[b - 1] for b in g[1]] + [rows1[a - 1] for a in g[0]])
            bad = [col for col in cols if row[col] != want[col]]
            if bad:
                V("bloboverlaps:merge", "group of current blobs %r + previous blobs %r: column %d is %r, reference %r"
                  % (g[1][:5], g[0][:5], bad[0], row[bad[0]], want[bad[0]]))
                return
        for a in range(1, n1 + 1):
            if a in merged_a:
                if r1[a - 1, c.s_1] != 0 or r1[a - 1, c.s_I] != 0:
                    V("bloboverlaps:not-cleared", "previous-frame blob %d was merged forward but its row still holds %g pixels"
                      % (a, r1[a - 1, c.s_1]))
                    return
            elif any(r1[a - 1, col] != rows1[a - 1][col] for col in cols):
                V("bloboverlaps:closed-peak-changed", "previous-frame blob %d overlaps nothing but its row changed" % a)
                return
        tot = r1[:, c.s_1].sum() + r2[:npk, c.s_1].sum(), r1[:, c.s_I].sum() + r2[:npk, c.s_I].sum()
        if tot != (float((L1 > 0).sum() + (L2in > 0).sum()), float(d1[L1 > 0].astype(np.int64).sum() + d2[L2in > 0].astype(np.int64).sum())):
            V("bloboverlaps:conservation", "pixels/intensity after merging %r" % (tot,))
        res = [r1, r2[:npk]]
    # blob_moments: avg and centroids from the sums; the sums themselves must not change
    for rs in res:
        rs = rs[rs[:, c.s_1] > 0]
        if not len(rs):
            continue
        before = rs.copy()
        c.blob_moments(rs)
        run.count("blob_moments_calls")
        if any(not np.array_equal(rs[:, col], before[:, col]) for col in cols):
            V("blob_moments:sums-changed", "blob_moments modified an accumulator column")
            return
        ld = before.astype(np.longdouble)
        # one double division (and one more for avg): relative error <= 2^-53 each; 4e-16 relative + 1e-300 used
        for col, num, den in ((c.avg_i, c.s_I, c.s_1), (c.f_raw, c.s_fI, c.s_I), (c.s_raw, c.s_sI, c.s_I), (c.o_raw, c.s_oI, c.s_I)):
            want = (ld[:, num] / ld[:, den]).astype(np.float64)
            if (np.abs(rs[:, col] - want) > 4e-16 * np.abs(want) + 1e-300).any():
                V("blob_moments:centroid", "column %d differs from sum ratio" % col)
                return


# ------------------------------------------------------------------------------------------------------------------

def script_case(run, seed, idx):
    """the same oracle on the output of scripts/peaksearch.py run on EDF files written by the harness"""
    import shutil, subprocess, tempfile
    import fabio
    from ..common import WORK, REPO, PY
    r = rng(seed, "C12", "script", idx)
    cls = ["mixed", "linked-through-previous", "chain", "forkjoin", "ellipsoids", "empty-frames"][idx % 6]
    shape, nfr = draw_dims(r, cls, shapes=[(16, 12), (32, 32), (40, 25), (7, 64)], nframes=[3, 6, 10])
    vol = gen_volume(r, nfr, shape, cls)
    thr = float(r.choice([5.0, 100.0]))
    dtype = str(r.choice(["float32", "uint16", "int32"]))
    inten = draw_intensities(r, vol, thr, dtype)
    step = float(r.choice([0.25, 1.0, -0.5, 0.1, 0.3]))
    om0 = float(r.choice([0.0, 37.5, 359.0]))
    omegas = om0 + step * np.arange(nfr)
    threaded = bool(idx % 2)                       # default driver (reader + corrector + one worker thread per threshold)
    # a second, much higher threshold in the same run (given unsorted and with a duplicate): cuts away part of every blob
    thr2 = float(int(r.integers(200, 60000 if dtype == "uint16" else 900000))) if (idx // 2) % 2 else None
    # where the frame angle is in the header: the default "Omega" key, or a motor named with --omega_motor (alone, or
    # next to an "Omega" key holding something else); own stream so that it is independent of class / driver / thresholds
    motor = ["Omega", "diffrz-only", "diffrz-and-stale-Omega"][int(rng(seed, "C12", "motor", idx).integers(3))]
    desc = dict(index=idx, route="scripts/peaksearch.py", header_angle=motor, shape=shape, nframes=nfr, cls=cls, threshold=thr, omega_step=step,
                dtype=dtype, threaded=threaded, second_threshold=thr2)
    lab3, comps = ref_components(vol, inten, omegas)
    run.case(("script", shape, nfr, cls, hash(vol.tobytes())), nontrivial=len(comps) >= 2, sample=desc if idx < 2 else None)

    def V(key, what, **kw):
        run.violation("script:" + key, what, dict(desc, **kw))
    os.makedirs(os.path.join(WORK, "tmp"), exist_ok=True)
    d = tempfile.mkdtemp(prefix="c12s_", dir=os.path.join(WORK, "tmp"))
    try:
        for k in range(nfr):
            hd = {"Omega": "%r" % float(omegas[k])}
            if motor == "diffrz-only":
                hd = {"diffrz": "%r" % float(omegas[k])}
            elif motor == "diffrz-and-stale-Omega":
                hd = {"diffrz": "%r" % float(omegas[k]), "Omega": "12.5"}
            im = fabio.edfimage.EdfImage(data=inten[k], header=hd)
            im.write(os.path.join(d, "img%04d.edf" % k))
        from_header = bool(r.random() < 0.5) or motor != "Omega"
        cmd = [PY, os.path.join(REPO, "scripts", "peaksearch.py"), "-n", "img", "-F", ".edf", "-f", "0", "-l", str(nfr - 1),
               "-o", "pk.spt", "-p", "Y"]
        if thr2 is None:
            cmd += ["-t", str(thr)]
        else:
            cmd += ["-t", str(thr2), "-t", str(thr), "-t", str(thr2)]
        if not threaded:
            cmd += ["--singleThread"]
        if motor != "Omega":
            cmd += ["--omega_motor", "diffrz"]
        if not from_header:
            cmd += ["--OmegaOverRide", "-T", repr(om0), "-S", repr(step)]
        try:
            p = subprocess.run(cmd, cwd=d, stdout=subprocess.PIPE, stderr=subprocess.STDOUT, timeout=600)
        except subprocess.TimeoutExpired:
            V("failed", "scripts/peaksearch.py did not finish within 600 s")
            return
        run.count("peaksearch_script_runs")
        run.count("peaksearch_script_header_angle:%s:%s" % (motor, "threaded" if threaded else "single-thread"))
        run.count("peaksearch_script_runs_threaded" if threaded else "peaksearch_script_runs_single_thread")
        for t in [thr] + ([thr2] if thr2 is not None else []):
            flt = os.path.join(d, "pk_t%d.flt" % int(t))
            if p.returncode != 0 or not os.path.exists(flt):
                V("failed", "scripts/peaksearch.py failed rc=%d: %s" % (p.returncode, p.stdout.decode(errors="replace")[-400:]))
                return
            if t == thr:
                compare_flt(run, V, open(flt).read(), vol, inten, omegas, comps)
            else:
                vol2 = inten > t
                run.count("script_second_threshold_files")
                compare_flt(run, V, open(flt).read(), vol2, inten, omegas, ref_components(vol2, inten, omegas)[1])
    finally:
        shutil.rmtree(d, ignore_errors=True)


def negative_max_case(run, labelimage, seed=0, idx=0):
    """blobs whose pixels are all <= 0 (negative threshold, e.g. background-subtracted data): the maximum pixel of every
    component must still be the component's own maximum (the pinned tree wrote IMax_int 0 at (0,0); repaired in /repo)"""
    from scipy import ndimage
    r = rng(seed, "C12", "negmax", idx)
    shape = (int(r.integers(3, 12)), int(r.integers(3, 12)))
    n = shape[0] * shape[1]
    # distinct, exactly representable, all negative
    im = (-(r.permutation(n) + 1) * 0.25).reshape(shape).astype(np.float32)
    thr = float(-(n // int(r.integers(2, 5))) * 0.25 - 0.125)
    out = io.StringIO()
    lio = labelimage.labelimage(shape, fileout=out, sptfile=io.StringIO())
    lio.peaksearch(im, thr, 0.0)
    lio.mergelast()
    lio.finalise()
    lab, nb = ndimage.label(im > thr, structure=np.ones((3, 3)))
    t = [x for x in out.getvalue().splitlines() if x.strip()]
    hdr = t[0].lstrip("#").split()
    rows = [dict(zip(hdr, x.split())) for x in t[1:] if not x.startswith("#")]
    run.count("negative_blob_images")
    desc = dict(route="negmax", index=idx)
    if len(rows) != nb:
        run.violation("final:count", "all-negative image %r threshold %g: %d components, %d peaks written" % (shape, thr, nb, len(rows)), desc)
        return
    seen = set()
    for row in rows:
        s_, f_ = int(row["IMax_s"]), int(row["IMax_f"])
        k = int(lab[s_, f_]) if (0 <= s_ < shape[0] and 0 <= f_ < shape[1]) else 0
        comp = im[lab == k] if k else np.zeros(0)
        run.count("negative_blobs_checked")
        if k == 0 or k in seen or float(row["IMax_int"]) != float(comp.max()) or im[s_, f_] != comp.max():
            run.violation("final:max-pixel-nonpositive", "all-negative image %r threshold %g: a peak is written with IMax_int %s at "
                          "(%d,%d); the component there has maximum %s" % (shape, thr, row["IMax_int"], s_, f_,
                                                                         comp.max() if comp.size else "none (background pixel)"), desc)
            return
        seen.add(k)


def concurrent_drivers(run, seed, idx, labelimage):
    """two labelimage objects driven by two Python threads at the same time, each through its own frame series (the threaded
    peaksearch driver runs one worker per threshold; connectedpixels / blobproperties / bloboverlaps are declared threadsafe in
    the f2py interface, so they run without the GIL).  Each object must write exactly what it writes when it runs alone."""
    import threading
    r = rng(seed, "C12", "concurrent", idx)
    shape = [(96, 80), (128, 128), (200, 150)][idx % 3]
    nfr = 6
    stacks = []
    for k in range(2):
        vol = gen_volume(r, nfr, shape, ["mixed", "chain", "forkjoin"][(idx + k) % 3])
        # many small drifting blobs on top: plenty of overlap pairs per frame
        dots = np.zeros((nfr,) + shape, bool)
        ii, jj = np.meshgrid(np.arange(3, shape[0] - 3, 5), np.arange(3, shape[1] - 3, 5), indexing="ij")
        for f in range(nfr):
            keep = r.random(ii.shape) < 0.8
            dots[f, (ii + f % 2)[keep], (jj + (f // 2) % 2)[keep]] = True
        vol = vol | dots
        inten = draw_intensities(r, vol, 5.0, "float32")
        stacks.append((vol, inten))
    omegas = np.arange(nfr) * 0.5
    desc = dict(index=idx, route="concurrent-drivers", shape=shape, nframes=nfr)
    run.case(("concurrent", shape, idx), nontrivial=True, sample=desc if idx < 2 else None)

    def drive(inten):
        out = io.StringIO()
        lio = labelimage.labelimage(shape, fileout=out, sptfile=io.StringIO())
        for f in range(nfr):
            lio.peaksearch(inten[f], 5.0, float(omegas[f]))
            lio.mergelast()
        lio.finalise()
        return out.getvalue()
    alone = [drive(st[1]) for st in stacks]
    for k, (vol, inten) in enumerate(stacks):
        compare_flt(run, lambda key, what, **kw: run.violation("concurrent:alone:" + key, what, dict(desc, **kw)),
                    alone[k], vol, inten, omegas, ref_components(vol, inten, omegas)[1])
    rounds = 12 if run.tier == "quick" else 60
    bad = []

    def worker(k):
        for _ in range(rounds):
            try:
                if drive(stacks[k][1]) != alone[k]:
                    bad.append(k)
            except Exception as e:
                bad.append("%s: %s" % (type(e).__name__, e))
    th = [threading.Thread(target=worker, args=(k,)) for k in (0, 1, 0)]
    [t.start() for t in th]
    [t.join() for t in th]
    run.count("concurrent_driver_series", 3 * rounds)
    if bad:
        run.violation("concurrent-drivers", "%d of %d frame series merged while other Python threads were merging theirs were written "
                      "differently from the same series merged alone (%r)" % (len(bad), 3 * rounds, bad[:3]), desc)


def check(run, replay=None):
    from ImageD11 import labelimage, columnfile, cImageD11
    mods = (labelimage, columnfile, cImageD11)
    if replay is not None:
        if replay["case"].get("route") == "scripts/peaksearch.py":
            script_case(run, replay["seed"], replay["case"]["index"])
        elif replay["case"].get("route") == "kernels":
            kernel_case(run, replay["seed"], replay["case"]["index"], cImageD11)
        elif replay["case"].get("route") == "concurrent-drivers":
            concurrent_drivers(run, replay["seed"], replay["case"]["index"], labelimage)
        elif replay["case"].get("route") == "negmax":
            negative_max_case(run, labelimage, replay["seed"], replay["case"].get("index", 0))
        else:
            one_case(run, replay["seed"], replay["case"]["index"], mods)
        run.nontrivial.update(["replay", "replay2"])
        return
    n = 160 if run.tier == "quick" else 6000
    for idx in range(n):
        one_case(run, run.seed, idx, mods)
    for idx in range(300 if run.tier == "quick" else 20000):
        kernel_case(run, run.seed, idx, cImageD11)
    for idx in range(40 if run.tier == "quick" else 2000):
        negative_max_case(run, labelimage, run.seed, idx)
    run.require_counter("negative_blobs_checked", 40)
    if not os.environ.get("VERIF_ASAN_RERUN"):
        for idx in range(3 if run.tier == "quick" else 12):
            concurrent_drivers(run, run.seed, idx, labelimage)
        run.require_counter("concurrent_driver_series", 100)
    if not os.environ.get("VERIF_ASAN_RERUN"):
        for idx in range(8 if run.tier == "quick" else 72):
            script_case(run, run.seed, idx)
        run.require_counter("peaksearch_script_runs", 2)
        run.require_counter("peaksearch_script_runs_threaded", 2)
        run.require_counter("script_second_threshold_files", 2)
    run.require_counter("frames_processed", 500)
    run.require_counter("peaks_matched", 500)
    run.require_counter("ledger_checks", 500)
    run.require_counter("frames_two_blobs_linked_through_previous", 20)
    run.require_counter("linked_through_previous:linked-through-previous", 5)
    run.require_counter("stacks_with_non_float32_omega", 20)
    run.require_counter("frames_with_supplied_labels", 50)
    run.require_counter("output2dpeaks_calls", 100)
    run.require_counter("spt_2d_records", 200)
    run.require_counter("blobproperties_calls", 200)
    run.require_counter("bloboverlaps_calls", 100)
    run.require_counter("bloboverlaps_calls_merging_current_blobs", 20)
    run.require_counter("blob_moments_calls", 100)


# workloads added in seeding rounds 7-10 (DESIGN.md sections 13.9-13.12)
LEVEL_TEXT = LEVEL_TEXT + ' Later additions: scripts/peaksearch.py with the frame angle under a motor name (alone or next to a stale Omega key), both drivers.'
LEVEL_TEXT = LEVEL_TEXT + ' Round 11: labelimage objects driven by several Python threads at the same time (each output equals the one written alone).'
