"""C12 - peak properties and frame-to-frame merging conserve pixels and intensity.

Oracle: 3-D connected components (8-connected in a frame, same pixel on adjacent
frames) of the thresholded stack; per-component pixel count, summed intensity,
intensity-weighted centroid, maximum voxel and bounding box in exact arithmetic
(distinct integer intensities).  Invariants checked at a hook after every
peaksearch+mergelast: label partition of the current frame = restriction of the
3-D components of the frames seen so far; ledger written + open = seen.
"""
import io
import numpy as np
from scipy import ndimage
from .. import imgs
from ..common import rng

TECHNIQUE = ("runtime history monitor on labelimage.peaksearch/mergelast/finalise: per-frame invariant hook (label partition vs "
             "3-D components of frames seen so far; conservation ledger written + open = seen) and final bijection between .flt "
             "rows and 3-D connected components with exact moments")
LEVEL_TEXT = ("Exploration: stacks of 1..40 frames, 4x4..128x128, empty frames, ellipsoidal blobs, speckle, blobs that fork and join, "
              "two blobs on one frame linked only through the previous frame, chains over three frames, both omega-step signs; each "
              "written peak is matched through its unique maximum voxel to a reference component and count/sum/centroid/max/bounding "
              "box compared; totals conserved after every frame.")
LEVEL_NOTE = ("Trusts scipy.ndimage.label with the stated 3-D structure (cross-checked per frame against the C11 oracle) and exact "
              "integer arithmetic of the harness; the text file carries 4 decimals.")

RULE = ("a case = one frame stack (shape, nframes, generator class, threshold, omega step); non-trivial = some 3-D component spans "
        ">= 2 frames and some frame holds >= 2 blobs; distinct = (shape, nframes, class, hash of volume)")

STRUCT3 = np.zeros((3, 3, 3), int)
STRUCT3[1, :, :] = 1
STRUCT3[0, 1, 1] = STRUCT3[2, 1, 1] = 1


def gen_volume(r, nfr, shape, cls):
    ns, nf = shape
    vol = np.zeros((nfr,) + shape, bool)
    if cls in ("ellipsoids", "mixed"):
        for _ in range(int(r.integers(1, 10))):
            c = [r.uniform(0, nfr), r.uniform(0, ns), r.uniform(0, nf)]
            rad = [r.uniform(0.6, max(1.0, nfr / 3.0)), r.uniform(0.7, max(1.5, ns / 4.0)), r.uniform(0.7, max(1.5, nf / 4.0))]
            kk, ii, jj = np.indices(vol.shape)
            vol |= ((kk - c[0]) / rad[0]) ** 2 + ((ii - c[1]) / rad[1]) ** 2 + ((jj - c[2]) / rad[2]) ** 2 <= 1
    if cls in ("speckle", "mixed"):
        vol |= r.random(vol.shape) < float(r.choice([0.03, 0.1, 0.2, 0.3]))
    if cls == "linked-through-previous" and nfr >= 2 and nf >= 5 and ns >= 3:
        # frame k-1: a bar; frame k: its two ends only (two blobs linked only via the previous frame)
        k = int(r.integers(1, nfr))
        i = int(r.integers(0, ns))
        vol[k - 1, i, :] = True
        vol[k, i, 0] = True
        vol[k, i, nf - 1] = True
        if k + 1 < nfr:
            vol[k + 1, i, 0] = True       # carries on: must stay one peak
        vol |= r.random(vol.shape) < 0.02
    if cls == "chain" and nfr >= 3 and nf >= 5:
        # A1 - B - A2 over three frames, then both ends continue separately
        k = int(r.integers(0, nfr - 2))
        i = int(r.integers(0, ns))
        vol[k, i, 0:2] = True
        vol[k + 1, i, 1:nf - 1] = True
        vol[k + 2, i, nf - 2:nf] = True
        vol[k + 2, i, 0] = False
        vol |= r.random(vol.shape) < 0.02
    if cls == "forkjoin" and nfr >= 3:
        k = int(r.integers(0, nfr - 2))
        vol[k, ns // 2, nf // 4: 3 * nf // 4 + 1] = True              # one blob
        vol[k + 1, ns // 2, nf // 4] = True                            # forks into two
        vol[k + 1, ns // 2, 3 * nf // 4] = True
        vol[k + 2, ns // 2, nf // 4: 3 * nf // 4 + 1] = True           # joins again
    if cls == "empty-frames":
        vol |= r.random(vol.shape) < 0.15
        vol[::2] = False
    if cls == "full":
        vol[:] = True
    return vol


CLASSES = ["ellipsoids", "speckle", "mixed", "linked-through-previous", "chain", "forkjoin", "empty-frames", "mixed",
           "ellipsoids", "full"]


def ref_components(vol, inten, omegas):
    lab, n = ndimage.label(vol, structure=STRUCT3)
    comps = {}
    if n == 0:
        return lab, comps
    kk, ii, jj = np.nonzero(vol)
    ll = lab[kk, ii, jj]
    I = inten[kk, ii, jj].astype(np.int64)
    order = np.argsort(ll, kind="stable")
    kk, ii, jj, ll, I = kk[order], ii[order], jj[order], ll[order], I[order]
    bounds = np.searchsorted(ll, np.arange(1, n + 2))
    for c in range(n):
        a, b = bounds[c], bounds[c + 1]
        k_, i_, j_, w = kk[a:b], ii[a:b], jj[a:b], I[a:b]
        tot = int(w.sum())
        m = int(np.argmax(w))
        om = omegas[k_]
        comps[c + 1] = dict(
            npix=int(b - a), sumI=tot,
            s=float((i_ * w).sum()) / tot, f=float((j_ * w).sum()) / tot, o=float((om * w).sum() / tot),
            maxI=int(w[m]), max_s=int(i_[m]), max_f=int(j_[m]), max_o=float(om[m]),
            bb=(int(i_.min()), int(i_.max()), int(j_.min()), int(j_.max()), float(om.min()), float(om.max())),
            key=(int(k_[m]), int(i_[m]), int(j_[m])))
    return lab, comps


def compare_flt(run, V, text, vol, inten, omegas, comps):
    """.flt text (as written by labelimage) vs the reference 3-D components"""
    # ---- final: rows <-> components
    rows = [l.split() for l in text.splitlines() if l.strip() and not l.startswith("#")]
    titles = text.splitlines()[0].lstrip("#").split()
    col = {t: i for i, t in enumerate(titles)}
    bykey = {c["key"]: (cid, c) for cid, c in comps.items()}
    kidx = {float(o): k for k, o in enumerate(omegas)}
    used = set()
    run.count("peaks_written", len(rows))
    run.count("components_expected", len(comps))
    if len(rows) != len(comps):
        V("final:count", "%d peaks written, %d connected components" % (len(rows), len(comps)))
    tp, tI = 0, 0.0
    for v in rows:
        g = lambda t: float(v[col[t]])
        tp += int(g("Number_of_pixels"))
        tI += g("sum_intensity")
        key = (kidx.get(g("IMax_o")), int(g("IMax_s")), int(g("IMax_f")))
        if key not in bykey:
            V("final:unknown-peak", "written peak with max voxel %r matches no component" % (key,))
            continue
        cid, c = bykey[key]
        if cid in used:
            V("final:duplicate-peak", "component written twice")
            continue
        used.add(cid)
        run.count("peaks_matched")
        bad = []
        if int(g("Number_of_pixels")) != c["npix"]:
            bad.append("npix %d != %d" % (int(g("Number_of_pixels")), c["npix"]))
        if abs(g("sum_intensity") - c["sumI"]) > 1e-3:
            bad.append("sum_intensity %r != %d" % (g("sum_intensity"), c["sumI"]))
        if abs(g("avg_intensity") - c["sumI"] / c["npix"]) > 1e-4 * 1.01:
            bad.append("avg_intensity")
        for t, w in (("sc", c["s"]), ("fc", c["f"]), ("s_raw", c["s"]), ("f_raw", c["f"]), ("omega", c["o"])):
            if abs(g(t) - w) > 0.51e-4 + 1e-9 * abs(w):
                bad.append("%s %r != %r" % (t, g(t), w))
        if g("IMax_int") != c["maxI"]:
            bad.append("IMax_int %r != %d" % (g("IMax_int"), c["maxI"]))
        bb = (g("Min_s"), g("Max_s"), g("Min_f"), g("Max_f"), g("Min_o"), g("Max_o"))
        if any(abs(a - b) > 0.51e-4 for a, b in zip(bb, c["bb"])):
            bad.append("bounding box %r != %r" % (bb, c["bb"]))
        if bad:
            V("final:properties", "peak of component with max voxel %r: %s" % (key, "; ".join(bad[:3])))
    if tp != int(vol.sum()) or abs(tI - float(inten[vol].astype(np.int64).sum())) > 1e-3 * max(1, len(rows)):
        V("final:conservation", "total pixels %d / intensity %.4f written, stack has %d / %d"
          % (tp, tI, int(vol.sum()), int(inten[vol].astype(np.int64).sum())))
    missing = [c for cid, c in comps.items() if cid not in used]
    if missing and len(rows) == len(comps):
        V("final:lost-component", "component with max voxel %r never written" % (missing[0]["key"],))
    return rows, tp


def one_case(run, seed, idx, mods):
    labelimage, columnfile, cImageD11 = mods
    r = rng(seed, "C12", idx)
    shapes = [(4, 4), (5, 9), (8, 8), (16, 12), (32, 32), (33, 17), (64, 64), (128, 128), (2, 7), (7, 2)]
    shape = shapes[idx % len(shapes)]
    nfr = int([1, 2, 3, 5, 8, 13, 21, 40][idx % 8])
    if shape[0] * shape[1] * nfr > 200000:
        nfr = max(1, 200000 // (shape[0] * shape[1]))
    cls = CLASSES[(idx // 2) % len(CLASSES)]
    vol = gen_volume(r, nfr, shape, cls)
    thr = float(r.choice([0.0, 5.0, 100.0]))
    # distinct integer intensities above the threshold (< 2^20), values <= threshold elsewhere
    nvox = vol.size
    vals = (r.permutation(nvox)[:nvox] % (2 ** 20 - 200)) + int(thr) + 1
    if nvox < 2 ** 20 - 200:
        vals = r.permutation(2 ** 20 - 200)[:nvox] + int(thr) + 1
    inten = np.where(vol, vals.reshape(vol.shape), int(thr) - (r.integers(0, 3, vol.shape))).astype(np.float32)
    step = float(r.choice([0.25, 0.5, 1.0, -0.5, -1.0]))
    om0 = float(r.choice([0.0, -10.0, 37.5]))
    omegas = om0 + step * np.arange(nfr)
    desc = dict(index=idx, shape=shape, nframes=nfr, cls=cls, threshold=thr, omega_step=step)
    lab3, comps = ref_components(vol, inten, omegas)
    spans = any(c["bb"][4] != c["bb"][5] for c in comps.values())
    multi = any(ndimage.label(vol[k], structure=imgs.S8)[1] >= 2 for k in range(nfr))
    run.case((shape, nfr, cls, hash(vol.tobytes())), nontrivial=(spans and multi),
             sample=dict(desc, components=len(comps), voxels=int(vol.sum())))

    def V(key, what, **kw):
        run.violation(key, what, dict(desc, **kw))

    out = io.StringIO()
    spt = io.StringIO()
    lio = labelimage.labelimage(shape, fileout=out, sptfile=spt)
    written_pix = 0
    written_I = 0.0
    seen_pix = 0
    seen_I = 0
    pos = 0
    for k in range(nfr):
        lio.peaksearch(inten[k], thr, float(omegas[k]))
        # 2-D labelling of this frame
        l2, n2 = ndimage.label(vol[k], structure=imgs.S8)
        if lio.npk != n2 or not np.array_equal(imgs.canon(lio.blim), imgs.canon(l2)):
            V("frame:2d-labels", "frame %d: 2-D labels are not the 8-connected components" % k, frame=k)
        lio.mergelast()
        run.count("frames_processed")
        seen_pix += int(vol[k].sum())
        seen_I += int(inten[k][vol[k]].astype(np.int64).sum())
        # ---- hook (i): partition of the current frame (now in lastbl) == restriction of components of frames 0..k
        labk, _ = ndimage.label(vol[:k + 1], structure=STRUCT3)
        if not np.array_equal(imgs.canon(lio.lastbl), imgs.canon(labk[k])):
            V("hook:partition", "after frame %d the labels of the current frame are not the restriction of the 3-D components "
              "of the frames seen so far (%d labels vs %d)" % (k, len(np.unique(lio.lastbl)) - 1, len(np.unique(labk[k])) - 1),
              frame=k)
        # ---- hook (ii): ledger
        text = out.getvalue()
        new = text[pos:]
        pos = len(text)
        for line in new.splitlines():
            if line.startswith("#") or not line.strip():
                continue
            v = line.split()
            written_pix += int(float(v[3]))
            written_I += float(v[13])
        open_pix = 0.0
        open_I = 0.0
        if lio.lastres is not None and lio.lastnp != "FIRST" and lio.lastnp > 0:
            res = np.asarray(lio.lastres)[:lio.lastnp]
            open_pix = float(res[:, cImageD11.s_1].sum())
            open_I = float(res[:, cImageD11.s_I].sum())
        run.count("ledger_checks")
        if written_pix + open_pix != seen_pix or abs(written_I + open_I - seen_I) > 1e-3:
            V("hook:ledger", "after frame %d: written %d + open %g pixels != seen %d (intensity %.4f + %.4f vs %d)"
              % (k, written_pix, open_pix, seen_pix, written_I, open_I, seen_I), frame=k)
            break
    lio.finalise()
    rows, tp = compare_flt(run, V, out.getvalue(), vol, inten, omegas, comps)
    # the text parses back with columnfile to the same numbers
    if rows and idx % 5 == 0:
        import os, tempfile
        from ..common import WORK
        os.makedirs(os.path.join(WORK, "tmp"), exist_ok=True)
        fd, fn = tempfile.mkstemp(suffix=".flt", dir=os.path.join(WORK, "tmp"))
        try:
            with os.fdopen(fd, "w") as f:
                f.write(out.getvalue())
            cf = columnfile.columnfile(fn)
            run.count("flt_files_parsed")
            if cf.nrows != len(rows) or int(cf.Number_of_pixels.sum()) != tp:
                V("final:file-parse", "columnfile reads %d rows / %d pixels, written %d / %d"
                  % (cf.nrows, int(cf.Number_of_pixels.sum()), len(rows), tp))
        finally:
            os.unlink(fn)


def script_case(run, seed, idx):
    """the same oracle on the output of scripts/peaksearch.py run on EDF files written by the harness"""
    import os, shutil, subprocess, tempfile
    import fabio
    from ..common import WORK, REPO, PY
    r = rng(seed, "C12", "script", idx)
    shape = [(16, 12), (32, 32), (40, 25)][idx % 3]
    nfr = int([3, 6, 10][idx % 3])
    cls = ["mixed", "linked-through-previous", "chain", "forkjoin", "ellipsoids", "empty-frames"][idx % 6]
    vol = gen_volume(r, nfr, shape, cls)
    thr = float(r.choice([5.0, 100.0]))
    vals = r.permutation(2 ** 20 - 200)[:vol.size] + int(thr) + 1
    inten = np.where(vol, vals.reshape(vol.shape), int(thr) - r.integers(0, 3, vol.shape)).astype(np.float32)
    step = float(r.choice([0.25, 1.0, -0.5]))
    om0 = float(r.choice([0.0, 37.5]))
    omegas = om0 + step * np.arange(nfr)
    desc = dict(index=idx, route="scripts/peaksearch.py", shape=shape, nframes=nfr, cls=cls, threshold=thr, omega_step=step)
    lab3, comps = ref_components(vol, inten, omegas)
    run.case(("script", shape, nfr, cls, hash(vol.tobytes())), nontrivial=len(comps) >= 2, sample=desc if idx < 2 else None)

    def V(key, what, **kw):
        run.violation("script:" + key, what, dict(desc, **kw))
    os.makedirs(os.path.join(WORK, "tmp"), exist_ok=True)
    d = tempfile.mkdtemp(prefix="c12s_", dir=os.path.join(WORK, "tmp"))
    try:
        for k in range(nfr):
            im = fabio.edfimage.EdfImage(data=inten[k], header={"Omega": "%r" % float(omegas[k])})
            im.write(os.path.join(d, "img%04d.edf" % k))
        from_header = bool(idx % 2)
        cmd = [PY, os.path.join(REPO, "scripts", "peaksearch.py"), "-n", "img", "-F", ".edf", "-f", "0", "-l", str(nfr - 1),
               "-o", "pk.spt", "-t", str(thr), "-p", "Y", "--singleThread"]
        if not from_header:
            cmd += ["--OmegaOverRide", "-T", str(om0), "-S", str(step)]
        p = subprocess.run(cmd, cwd=d, stdout=subprocess.PIPE, stderr=subprocess.STDOUT, timeout=600)
        run.count("peaksearch_script_runs")
        flt = os.path.join(d, "pk_t%d.flt" % int(thr))
        if p.returncode != 0 or not os.path.exists(flt):
            V("failed", "scripts/peaksearch.py failed rc=%d: %s" % (p.returncode, p.stdout.decode(errors="replace")[-400:]))
            return
        compare_flt(run, V, open(flt).read(), vol, inten, omegas, comps)
    finally:
        shutil.rmtree(d, ignore_errors=True)


def check(run, replay=None):
    from ImageD11 import labelimage, columnfile, cImageD11
    mods = (labelimage, columnfile, cImageD11)
    if replay is not None:
        if replay["case"].get("route") == "scripts/peaksearch.py":
            script_case(run, replay["seed"], replay["case"]["index"])
        else:
            one_case(run, replay["seed"], replay["case"]["index"], mods)
        run.nontrivial.update(["replay", "replay2"])
        return
    n = 160 if run.tier == "quick" else 6000
    for idx in range(n):
        one_case(run, run.seed, idx, mods)
    import os
    if not os.environ.get("VERIF_ASAN_RERUN"):
        for idx in range(4 if run.tier == "quick" else 60):
            script_case(run, run.seed, idx)
        run.require_counter("peaksearch_script_runs", 2)
    run.require_counter("frames_processed", 500)
    run.require_counter("peaks_matched", 500)
    run.require_counter("ledger_checks", 500)
