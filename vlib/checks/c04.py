"""C04 - UBI, UB, U, B, metric tensors, cell parameters and Rodrigues vector agree.

Oracle: algebraic identities on the outputs of grain / indexing helpers /
tensor_map guvectorize functions / TensorMap / point_by_point, plus
build -> decompose = identity against a harness-built UBI = inv(R.S.B(cell)),
plus NaN-mask locality for the vectorised versions.
"""
import contextlib, io
import numpy as np
from .. import xtal
from ..common import rng

TECHNIQUE = ("runtime law monitor + cross-implementation differential: algebraic identities "
             "(UB.UBI=I, U in SO(3), B upper-triangular with B^T B = G*, UB = U.B, Rodrigues) on outputs of "
             "grain, indexing.ubito*, tensor_map.*, TensorMap, point_by_point; NaN-mask locality differential")
LEVEL_TEXT = ("Exploration: random triclinic and special cells x random rotations (Haar, identity, near-identity, "
              "180 deg, near-180) x small symmetric strains are pushed through every implementation and the identities "
              "and build->decompose identity are asserted to 1e-10; every cached grain property (U, UB, B, mt, rmt, unitcell, Rod) "
              "is probed for aliasing and for staleness after set_ubi to a different cell and orientation; vectorised versions run "
              "on maps with 0 to 4 leading axes (single matrix, flat list, 2-D layer, (1,1,1)..(2,17,23), empty maps), non-contiguous "
              "inputs, one B broadcast against a map, random all-NaN voxel masks with bit-equality on unmasked voxels; TensorMap is "
              "re-assigned a map of another lattice through the UBI setter, tm['UBI'] and add_map, and built with from_ubis.")
LEVEL_NOTE = ("Trusts harness B = cholesky(G*)^T (unique upper-triangular factor with positive diagonal) and "
              "numpy.linalg; tolerances 1e-10 relative, angles 1e-8 deg. NaN masks are whole-voxel masks (the map convention); "
              "voxels that are only partly NaN or zero-filled are not valid UBIs and are not part of the property.")

RULE = ("a case = (cell kind, rotation kind, strain) grain, or a map of such grains with a NaN mask; "
        "non-trivial grain = oblique cell or non-identity rotation; non-trivial map = at least one NaN voxel "
        "next to a valid one; map shape, cell kind, mask density, memory layout and assignment route are drawn from the case's own "
        "rng after one stratified pass over the shape table; distinct = (cell kind, rotation kind, rounded cell, shape)")

ROTK = ["haar", "haar", "haar", "identity", "near-identity", "pi", "near-pi"]


def close(a, b, tol):
    a = np.asarray(a, float)
    b = np.asarray(b, float)
    return a.shape == b.shape and bool(np.all(np.abs(a - b) <= tol * max(1.0, np.abs(b).max())))


def one_grain(run, seed, idx, mods):
    grain, indexing, unitcell, tmap, pbp = mods
    r = rng(seed, "C04", "g", idx)
    kind = xtal.KINDS[idx % 7] if idx % 2 else "triclinic"
    rk = ROTK[idx % len(ROTK)]
    cell0 = xtal.random_cell(r, kind)
    R = xtal.random_rotation(r, rk)
    mag = float(r.choice([0.0, 1e-6, 1e-4, 1e-2]))
    S = xtal.random_sym_stretch(r, mag)
    B0 = xtal.Bmat(cell0)
    UB_t = R @ S @ B0
    ubi = np.linalg.inv(UB_t)
    desc = dict(index=idx, kind=kind, rot=rk, cell=cell0, strain=mag, ubi=ubi.tolist())
    obl = any(abs(c - 90) > 1e-9 for c in cell0[3:])
    run.case((kind, rk, tuple(round(c, 2) for c in cell0)), nontrivial=obl or rk != "identity",
             sample=dict(index=idx, kind=kind, rot=rk, cell=cell0, strain=mag))
    tol = 1e-10
    # true metric and cell of the (strained) lattice
    G = ubi @ ubi.T
    cell_t = xtal.cell_from_metric(G)
    Gi = np.linalg.inv(G)
    B_t = xtal.Bmat(cell_t)            # harness B of the strained cell
    U_t = UB_t @ np.linalg.inv(B_t)    # orthogonal because B_t^T B_t = G*

    def V(key, what):
        run.violation(key, what, desc)

    g = grain.grain(ubi)
    run.count("grain_identities")
    # private copies: the alias probe below overwrites what the properties return
    UB, U, B, mt, rmt, uc = [np.array(v_, float) for v_ in (g.UB, g.U, g.B, g.mt, g.rmt, g.unitcell)]
    if not close(UB @ ubi, np.eye(3), tol):
        V("grain:UB.UBI", "grain.UB . ubi != I")
    if not close(U @ U.T, np.eye(3), tol) or abs(np.linalg.det(U) - 1) > tol:
        V("grain:U-orthogonal", "grain.U not a proper rotation: det %r" % np.linalg.det(U))
    if abs(B[1, 0]) + abs(B[2, 0]) + abs(B[2, 1]) > 0 or not close(B.T @ B, Gi, tol):
        V("grain:B", "grain.B not upper triangular with B^T B = G*")
    if not close(U @ B, UB, tol):
        V("grain:UB=U.B", "grain.U . grain.B != grain.UB")
    if not close(mt, G, tol) or not close(rmt, Gi, tol) or not close(rmt @ mt, np.eye(3), tol):
        V("grain:metric", "grain.mt / rmt wrong")
    if not close(uc[:3], cell_t[:3], tol) or np.abs(uc[3:] - cell_t[3:]).max() > 1e-8:
        V("grain:unitcell", "grain.unitcell %r != %r" % (uc.tolist(), cell_t.tolist()))
    if not close(U, U_t, 1e-9) or not close(B, B_t, 1e-9):
        V("grain:decompose", "grain.U/B differ from harness decomposition")
    if mag == 0.0:
        # build -> decompose returns that cell and rotation
        if not close(uc[:3], cell0[:3], 1e-9) or np.abs(uc[3:] - np.array(cell0[3:])).max() > 1e-7 \
                or not close(U, R, 1e-9):
            V("grain:roundtrip", "UBI built from (cell,R) decomposes to cell %r U err %.3g"
              % (uc.tolist(), np.abs(U - R).max()))
    # Rodrigues vector (skip near 180 deg where it diverges).  The sign
    # convention (r = +n tan(t/2) for the active or for the passive rotation) is
    # xfab's and is not part of the property: either is accepted, but all
    # reporters must use the same one within a run (DESIGN.md Corrections).
    ang = np.arccos(np.clip((np.trace(U_t) - 1) / 2, -1, 1))
    if 1e-3 < ang < np.pi - 1e-3:
        for name, rod in (("grain.Rod", g.Rod), ("indexing.ubitoRod", indexing.ubitoRod(ubi))):
            rod = np.asarray(rod, float)
            Rr = xtal.rot_from_rodrigues(rod)
            run.count("rodrigues_checked")
            if close(Rr, U_t, 1e-7):
                run.count("rodrigues_convention_active")
            elif close(Rr, U_t.T, 1e-7):
                run.count("rodrigues_convention_passive")
            else:
                V("rodrigues:" + name, "%s is not the Rodrigues vector of U or U^T (angle %.6g rad)" % (name, ang))
    # unitcell.unitcell attributes for the same lattice: metric tensors and reciprocal cell agree with the grain's
    uco = unitcell.unitcell(cell_t)
    rc_t = xtal.cell_from_metric(Gi)
    rc = np.array([uco.astar, uco.bstar, uco.cstar, uco.alphas, uco.betas, uco.gammas], float)
    run.count("unitcell_object_attributes")
    if not close(uco.g, mt, 1e-9) or not close(uco.gi, rmt, 1e-9) or not close(rc[:3], rc_t[:3], 1e-9) or \
            np.abs(rc[3:] - rc_t[3:]).max() > 1e-7:
        V("unitcell:metric-attributes", "unitcell(cell).g/gi/astar..gammas disagree with grain.mt/rmt for the same lattice: "
          "reciprocal cell %r vs %r" % (rc.tolist(), rc_t.tolist()))
    # returned values are copies and the cache follows set_ubi: every cached property is read (so that its cache is
    # filled), the returned array is overwritten, and the property is read again
    try:
        rod0 = np.array(g.Rod, float)
    except ValueError:
        rod0 = None            # xfab.u_to_rod refuses a rotation by exactly 180 deg
    first = {"U": U, "UB": UB, "B": B, "mt": mt, "rmt": rmt, "unitcell": uc}
    if rod0 is not None and np.isfinite(rod0).all():
        first["Rod"] = rod0
    for name in first:
        a = getattr(g, name)
        a[...] = 99.0
        run.count("alias_probes")
        if not close(getattr(g, name), first[name], 0):
            V("grain:cache-alias", "modifying the array returned by grain.%s corrupts the cached value" % name)
    # a different lattice AND a different orientation, so that no stale cached item can look right by chance
    R2 = xtal.random_rotation(r, "haar")
    cell2 = xtal.random_cell(r, xtal.KINDS[int(r.integers(7))])
    B2 = xtal.Bmat(cell2)
    ubi2 = np.linalg.inv(R2 @ B2)
    g.set_ubi(ubi2)
    run.count("cache_histories")
    uc2 = g.unitcell
    stale = []
    if not close(g.U, R2, 1e-9):
        stale.append("U")
    if not close(g.UB @ ubi2, np.eye(3), tol):
        stale.append("UB")
    if not close(g.B, B2, 1e-9):
        stale.append("B")
    if not close(uc2[:3], cell2[:3], 1e-9) or np.abs(uc2[3:] - np.array(cell2[3:])).max() > 1e-7:
        stale.append("unitcell")
    if not close(g.mt, ubi2 @ ubi2.T, tol):
        stale.append("mt")
    if not close(g.rmt @ (ubi2 @ ubi2.T), np.eye(3), 1e-9):
        stale.append("rmt")
    ang2 = np.arccos(np.clip((np.trace(R2) - 1) / 2, -1, 1))
    if ang2 < np.pi - 1e-3:
        run.count("rodrigues_after_set_ubi")
        try:
            Rr2 = xtal.rot_from_rodrigues(np.asarray(g.Rod, float))
            if not (close(Rr2, R2, 1e-7) or close(Rr2, R2.T, 1e-7)):
                stale.append("Rod")
        except ValueError as e:
            # xfab.u_to_rod refuses a non-orthogonal U: only possible here if U/B are stale (R2 is a proper rotation
            # more than 1e-3 rad away from 180 deg)
            stale.append("Rod (raised %s)" % e)
    if stale:
        V("grain:stale-cache", "not refreshed after set_ubi: %s" % ",".join(stale))
    # history: the derived properties are read lazily and cached; whatever the order of the first reads, and however often
    # they are read again, every property keeps describing the lattice of grain.ubi
    props = ["mt", "rmt", "unitcell", "B", "U", "UB"]
    ro_ = rng(seed, "C04", "read-order", idx)
    gc = grain.grain(ubi.copy())
    fresh = {k: np.array(getattr(grain.grain(ubi.copy()), k), float) for k in props}      # each from its own fresh object
    order1 = [props[i] for i in ro_.permutation(len(props))]
    order2 = [props[i] for i in ro_.permutation(len(props))]
    for k in order1 + order2:
        got = np.array(getattr(gc, k), float)
        run.count("property_reads_in_random_order")
        if not close(got, fresh[k], 1e-12):
            V("grain:read-order", "grain.%s read in the order %r differs from grain.%s of a fresh grain of the same ubi by %.3g"
              % (k, (order1 + order2)[: (order1 + order2).index(k) + 1] if k in order1 else order1 + order2, k,
                 float(np.abs(got - fresh[k]).max())))
            break
    # history: the caller re-uses the array it built the grain from; whatever it does to its own buffer the grain's
    # matrices must keep describing one lattice
    src = np.ascontiguousarray(ubi2.copy())
    ga = grain.grain(src)
    _ = (ga.UB, ga.U, ga.B, ga.unitcell, ga.mt)
    src[:] = np.linalg.inv(xtal.random_rotation(r, "haar") @ xtal.Bmat(xtal.random_cell(r, "triclinic")))
    run.count("input_aliasing_histories")
    if not close(ga.UB @ ga.ubi, np.eye(3), tol) or not close(ga.mt, ga.ubi @ ga.ubi.T, tol) or \
            not close(ga.U @ ga.B, np.linalg.inv(ga.ubi), 1e-9):
        V("grain:aliases-input", "after the caller overwrote the array the grain was built from, grain.ubi and the derived "
          "UB/U/B/mt no longer describe the same lattice")
    src2 = np.ascontiguousarray(ubi.copy())
    gb = grain.grain(ubi2)
    gb.set_ubi(src2)
    _ = gb.UB
    src2 *= 1.5
    if not close(gb.UB @ gb.ubi, np.eye(3), tol):
        V("grain:aliases-input", "set_ubi keeps a reference to the caller's array: UB.ubi != I after the caller scaled it")
    # left handed input must be rejected
    lh = ubi.copy()
    lh[0] = -lh[0]
    try:
        grain.grain(lh)
        V("grain:left-handed", "left-handed UBI accepted by grain()")
    except AssertionError:
        run.count("left_handed_rejected")
    # indexing helpers
    cp = np.array(indexing.ubitocellpars(ubi))
    if not close(cp[:3], cell_t[:3], tol) or np.abs(cp[3:] - cell_t[3:]).max() > 1e-8:
        V("indexing:ubitocellpars", "ubitocellpars %r != %r" % (cp.tolist(), cell_t.tolist()))
    Ui = indexing.ubitoU(ubi)
    Bi = indexing.ubitoB(ubi)
    run.count("indexing_helpers")
    if not close(Ui, U_t, 1e-9):
        V("indexing:ubitoU", "ubitoU differs from U by %.3g" % np.abs(Ui - U_t).max())
    badB = (abs(Bi[1, 0]) + abs(Bi[2, 0]) + abs(Bi[2, 1]) > 1e-12 * np.abs(Bi).max()) or \
        not close(Bi.T @ Bi, Gi, 1e-9) or not close(Ui @ Bi, UB_t, 1e-9)
    if badB:
        V("indexing:ubitoB:" + ("oblique" if obl or mag > 0 else "orthogonal"),
          "ubitoB is not the upper-triangular B with B^T B = G*: |U.B - UB| = %.3g, lower triangle %.3g"
          % (np.abs(Ui @ Bi - UB_t).max(), abs(Bi[1, 0]) + abs(Bi[2, 0]) + abs(Bi[2, 1])))
    # unitcell object's B for the same cell
    ucB = unitcell.unitcell(cell_t).B
    if not close(ucB, B_t, 1e-9):
        V("unitcell:B", "unitcell(cell).B differs from Busing-Levy B")
    # point_by_point scalar versions
    if not close(pbp.ubi_to_unitcell(ubi)[:3], cell_t[:3], tol) or \
            np.abs(pbp.ubi_to_unitcell(ubi)[3:] - cell_t[3:]).max() > 1e-8:
        V("pbp:ubi_to_unitcell", "point_by_point.ubi_to_unitcell wrong")
    if not close(pbp.ubi_and_ucell_to_u(ubi, cell_t), U_t, 1e-9):
        V("pbp:ubi_and_ucell_to_u", "point_by_point.ubi_and_ucell_to_u wrong")
    # the same two numba functions fed a Fortran-ordered array and a strided view holding the same numbers (callers pass
    # ub.T, slices of bigger tables, ...): the values must not depend on the memory layout
    big = np.zeros((6, 6))
    big[::2, ::2] = ubi
    for lay, arr in (("fortran", np.asfortranarray(ubi)), ("strided", big[::2, ::2])):
        run.count("pbp_layout_probes")
        c_l = pbp.ubi_to_unitcell(arr)
        u_l = pbp.ubi_and_ucell_to_u(arr, cell_t)
        if not close(c_l[:3], cell_t[:3], tol) or np.abs(c_l[3:] - cell_t[3:]).max() > 1e-8 or not close(u_l, U_t, 1e-9):
            V("pbp:layout:" + lay, "point_by_point.ubi_to_unitcell / ubi_and_ucell_to_u give other values for a %s ubi" % lay)
    # single-voxel vectorised functions
    mtv = tmap.ubi_to_mt(ubi)
    ucv = tmap.mt_to_unitcell(mtv, np.arange(6.0))
    Bv = tmap.unitcell_to_b(ucv, np.eye(3))
    Uv = tmap.ubi_and_b_to_u(ubi, Bv)
    UBv = tmap.fast_invert(ubi)
    run.count("tensor_map_single")
    if not (close(mtv, G, tol) and close(ucv[:3], cell_t[:3], tol) and np.abs(ucv[3:] - cell_t[3:]).max() < 1e-8
            and close(Bv, B_t, 1e-9) and close(Uv, U_t, 1e-9) and close(UBv, UB_t, 1e-9)
            and close(Uv @ Bv, UBv, 1e-9)):
        V("tensor_map:single", "tensor_map vectorised functions disagree with harness for one voxel")


SHAPES = [(1, 1, 1), (1, 1, 2), (1, 2, 1), (1, 3, 5), (2, 4, 3), (1, 17, 23), (2, 17, 23), (1, 9, 1),
          # fewer / more leading axes and empty maps: a flat list of voxels, one 2-D layer, a single matrix, 4 leading axes
          (7,), (5, 4), (), (2, 1, 3, 2), (0,), (1, 0, 4), (3, 0)]


def make_ubis(r, n, cell, strain=1e-3, zero00=0.0):
    """zero00: fraction of voxels whose a axis lies exactly in the lab y-z plane, so that UBI[0,0] is exactly 0.0 (a
    perfectly ordinary orientation; an element of a valid UBI being zero says nothing about the voxel being empty)"""
    B0 = xtal.Bmat(cell)
    ubis = np.empty((n, 3, 3))
    for i in range(n):
        ubis[i] = np.linalg.inv(xtal.random_rotation(r, "haar") @ xtal.random_sym_stretch(r, strain) @ B0)
        if zero00 and r.random() < zero00:
            a = ubis[i, 0]
            phi = np.arctan2(a[0], a[1])                  # rotate about lab z so that a_x -> 0
            R = np.array([[np.cos(phi), -np.sin(phi), 0], [np.sin(phi), np.cos(phi), 0], [0, 0, 1.0]])
            ubis[i] = ubis[i] @ R.T
            assert abs(ubis[i, 0, 0]) < 1e-12 * np.abs(ubis[i]).max()
            ubis[i, 0, 0] = 0.0
    return ubis


def vec_all(tmap, inp):
    mt = tmap.ubi_to_mt(inp)
    uc = tmap.mt_to_unitcell(mt, np.arange(6.0))
    B = tmap.unitcell_to_b(uc, np.eye(3))
    U = tmap.ubi_and_b_to_u(inp, B)
    UB = tmap.fast_invert(inp)
    return dict(mt=mt, unitcell=uc, B=B, U=U, UB=UB)


def one_map(run, seed, idx, mods):
    grain, indexing, unitcell, tmap, pbp = mods
    r = rng(seed, "C04", "m", idx)
    # the first len(SHAPES) maps walk through the table (every shape class is guaranteed), later ones draw from it
    shp = SHAPES[idx] if idx < len(SHAPES) else SHAPES[int(r.integers(len(SHAPES)))]
    nl = len(shp)
    n = int(np.prod(shp)) if nl else 1
    kind = xtal.KINDS[int(r.integers(7))]
    cell0 = xtal.random_cell(r, kind)
    z00 = (0.0, 0.0, 0.3, 1.0)[idx % 4]
    ubis = make_ubis(r, n, cell0, zero00=z00)
    run.count("map_voxels_with_exact_zero_UBI00", int((ubis[:, 0, 0] == 0).sum()))
    pm = float(r.choice([0.0, 0.3, 0.3, 0.3, 0.7, 1.0]))
    mask = r.random(n) < pm
    desc = dict(index=idx, shape=shp, kind=kind, n_nan=int(mask.sum()))
    full = ubis.reshape(shp + (3, 3))
    masked = full.copy()
    masked.reshape(n, 3, 3)[mask] = np.nan
    if r.random() < 0.5:
        # non-contiguous view of the same values
        big = np.zeros(shp + (3, 6))
        big[..., ::2] = masked
        masked_in = big[..., ::2]
    else:
        masked_in = masked
    nontriv = bool(mask.any() and (~mask).any())
    run.case(("map", shp, kind, int(mask.sum())), nontrivial=nontriv, sample=desc)
    run.count("map_shape_class:%s" % ("empty" if n == 0 else "%d-leading-axes" % nl))

    def V(key, what):
        run.violation(key, what, desc)

    res = {"full": vec_all(tmap, full), "masked": vec_all(tmap, masked_in)}
    run.count("map_runs")
    m3 = mask.reshape(shp)
    for name in res["full"]:
        a, b = res["full"][name], res["masked"][name]
        want_shape = shp + ((6,) if name == "unitcell" else (3, 3))
        if a.shape != want_shape or b.shape != want_shape:
            V("map:shape:" + name, "output shapes %r / %r for input map %r" % (a.shape, b.shape, shp))
            continue
        if not np.isnan(b[m3]).all():
            V("map:nan-not-kept:" + name, "NaN-masked voxel produced a non-NaN %s" % name)
        if not np.array_equal(a[~m3], b[~m3]):
            V("map:nan-leak:" + name, "masking some voxels changed %s of unmasked neighbours" % name)
        if np.isnan(a).any():
            V("map:nan-invented:" + name, "valid voxel produced NaN %s" % name)
        run.count("map_voxels_checked", n)
    if n == 0:
        return
    # per voxel against the grain object
    flat = {k: v.reshape((n,) + v.shape[nl:]) for k, v in res["full"].items()}
    for i in range(0, n, max(1, n // 12)):
        g = grain.grain(ubis[i])
        if not (close(flat["U"][i], g.U, 1e-10) and close(flat["B"][i], g.B, 1e-10) and
                close(flat["UB"][i], g.UB, 1e-10) and close(flat["mt"][i], g.mt, 1e-10) and
                close(flat["unitcell"][i], g.unitcell, 1e-10)):
            V("map:vs-grain", "vectorised value differs from grain object at voxel %d" % i)
    # ONE B matrix (that of the reference cell) broadcast against the whole UBI map: U_i = (B . ubi_i)^T voxel by voxel,
    # NaN for masked voxels, neighbours untouched
    B1 = xtal.Bmat(cell0)
    Ub = tmap.ubi_and_b_to_u(masked_in, B1)
    run.count("broadcast_b_maps")
    if Ub.shape != shp + (3, 3):
        V("map:broadcast:shape", "ubi_and_b_to_u(map, one B) has shape %r for map %r" % (Ub.shape, shp))
    else:
        wantU = np.einsum("ij,njk->nki", B1, ubis)          # (B1 @ ubi_n)^T
        gotU = Ub.reshape(n, 3, 3)
        if not np.isnan(gotU[mask]).all() or np.isnan(gotU[~mask]).any() or \
                (n > mask.sum() and np.abs(gotU[~mask] - wantU[~mask]).max() > 1e-12 * np.abs(wantU).max()):
            V("map:broadcast:values", "ubi_and_b_to_u(map, one B) is not (B.ubi)^T voxel by voxel / NaN where masked")
    if nl != 3:
        return
    # TensorMap object: properties, and every derived map follows a new UBI map whichever way it is assigned
    tm = tmap.TensorMap(maps={"UBI": masked.copy()})
    names = ("U", "B", "unitcell", "UB", "mt")
    ok = all(np.array_equal(getattr(tm, k)[~m3], res["masked"][k][~m3]) for k in names)
    if not ok or not all(np.isnan(getattr(tm, k)[m3]).all() for k in names):
        V("TensorMap:properties", "TensorMap.U/B/unitcell/UB/mt differ from the vectorised functions")
    # the new map has another cell and other orientations, so that no stale derived map can look right
    other = make_ubis(r, n, xtal.random_cell(r, xtal.KINDS[int(r.integers(7))])).reshape(shp + (3, 3))
    res2 = vec_all(tmap, other)
    how = ["tm.UBI = x", "tm['UBI'] = x", "tm.add_map('UBI', x)"][idx % 3 if idx < 6 else int(r.integers(3))]
    if how == "tm.UBI = x":
        tm.UBI = other.copy()
    elif how == "tm['UBI'] = x":
        tm["UBI"] = other.copy()
    else:
        tm.add_map("UBI", other.copy())
    run.count("tensormap_histories")
    run.count("tensormap_assign:" + how)
    stale = [k for k in names if not np.array_equal(getattr(tm, k), res2[k])]
    if stale or not np.array_equal(tm.UBI, other):
        V("TensorMap:stale-cache", "TensorMap.%s not refreshed after %s" % (",".join(stale) or "UBI", how))
    # two maps that are built empty and filled afterwards live side by side (one per phase, one per layer): each keeps its own
    tmA, tmB = tmap.TensorMap(), tmap.TensorMap()
    if idx % 2:
        tmA.add_map("UBI", masked.copy())
        tmB["UBI"] = other.copy()
    else:
        tmA["UBI"] = masked.copy()
        _ = tmA.UB
        tmB.add_map("UBI", other.copy())
    run.count("tensormap_pairs_built_empty")
    badA = [k for k in names if not np.array_equal(getattr(tmA, k)[~m3], res["masked"][k][~m3])]
    badB = [k for k in names if not np.array_equal(getattr(tmB, k), res2[k])]
    if badA or badB or not np.array_equal(tmA.UBI, masked, equal_nan=True) or not np.array_equal(tmB.UBI, other):
        V("TensorMap:two-objects", "two TensorMap objects built empty and filled one after the other do not each keep their own "
          "maps (first: %s, second: %s)" % (",".join(badA) or "UBI?", ",".join(badB) or "-"))
    # history with other map computations in between: strains and stresses (which work with the REFERENCE cell's B) are
    # computed on the same object, before or after the orientation maps are first read; U/B/UB/unitcell/mt stay those of
    # each voxel's own UBI
    tm3 = tmap.TensorMap(maps={"UBI": masked.copy(), "phase_ids": np.zeros(shp, int)}, phases={0: unitcell.unitcell(cell0)})
    read_first = bool(idx % 2)
    if read_first:
        _ = (tm3.B, tm3.U)
    Cst = np.diag([200.0, 200.0, 200.0, 80.0, 80.0, 80.0]) + 60.0 * (np.ones((6, 6)) - np.eye(6)) * (np.arange(6)[:, None] < 3) * (np.arange(6)[None, :] < 3)
    try:
        with contextlib.redirect_stdout(io.StringIO()):
            _ = tm3.eps_sample
            tm3.get_stress(Cst, 0)
    except Exception as e:
        run.count("tensormap_stress_history_refused")
        run.extra.setdefault("tensormap_stress_history_refused", str(e)[:200])
    else:
        run.count("tensormap_stress_histories")
        bad3 = [k for k in names if not np.array_equal(getattr(tm3, k)[~m3], res["masked"][k][~m3])]
        if bad3:
            V("TensorMap:after-strain-and-stress", "TensorMap.%s differ from the vectorised functions of the UBI map after "
              "eps_sample and get_stress were computed on the object (orientation maps read %s)"
              % (",".join(bad3), "before" if read_first else "only afterwards"))
    # from_ubis: a (NX, NY, 3, 3) array in reconstruction order (X, -Y) becomes a (1, NY, NX) map; voxel (0, j, k)
    # holds recon[k, NY-1-j] (documented by map_index_to_recon), and the derived maps belong to that voxel
    if shp[0] == 1:
        ny, nx = shp[1], shp[2]
        recon = masked.reshape(ny, nx, 3, 3)[::-1].swapaxes(0, 1).copy()     # recon[k, ny-1-j] = masked[0, j, k]
        t2 = tmap.TensorMap.from_ubis(recon)
        run.count("from_ubis_maps")
        good = tuple(t2.shape) == (1, ny, nx) and np.array_equal(t2.UBI, masked, equal_nan=True)
        if good:
            good = all(np.array_equal(getattr(t2, k), res["masked"][k], equal_nan=True) for k in names)
        if not good:
            V("TensorMap:from_ubis", "TensorMap.from_ubis(recon) does not place recon[k, NY-1-j] (and its derived U/B/"
              "unitcell/UB/mt) at voxel (0, j, k)")


def check(run, replay=None):
    from ImageD11 import grain, indexing, unitcell
    from ImageD11.sinograms import tensor_map as tmap
    from ImageD11.sinograms import point_by_point as pbp
    mods = (grain, indexing, unitcell, tmap, pbp)
    if replay is not None:
        cs = replay["case"]
        if "shape" in cs:
            one_map(run, replay["seed"], cs["index"], mods)
        else:
            one_grain(run, replay["seed"], cs["index"], mods)
        run.nontrivial.update(["replay", "replay2"])
        return
    ng, nm = (300, 45) if run.tier == "quick" else (20000, 600)
    for i in range(ng):
        one_grain(run, run.seed, i, mods)
    for i in range(nm):
        one_map(run, run.seed, i, mods)
    run.require_counter("grain_identities", 100)
    run.require_counter("map_voxels_checked", 100)
    run.require_counter("rodrigues_checked", 50)
    run.require_counter("rodrigues_after_set_ubi", 50)
    run.require_counter("alias_probes", 500)
    run.require_counter("pbp_layout_probes", 100)
    run.require_counter("broadcast_b_maps", 10)
    run.require_counter("from_ubis_maps", 3)
    for c_ in ("map_shape_class:empty", "map_shape_class:0-leading-axes", "map_shape_class:1-leading-axes",
               "map_shape_class:2-leading-axes", "map_shape_class:3-leading-axes", "map_shape_class:4-leading-axes",
               "tensormap_assign:tm.UBI = x", "tensormap_assign:tm['UBI'] = x", "tensormap_assign:tm.add_map('UBI', x)"):
        run.require_counter(c_, 1)
    if run.counters.get("rodrigues_convention_active", 0) and run.counters.get("rodrigues_convention_passive", 0):
        run.violation("rodrigues:mixed-convention", "Rodrigues vectors reported in both sign conventions", {})


# workloads added in seeding rounds 7-10 (DESIGN.md sections 13.9-13.12)
LEVEL_TEXT = LEVEL_TEXT + ' Later additions: voxels whose UBI[0,0] is exactly 0.0; TensorMap histories with strain/stress computed in between; pairs of maps built empty and filled afterwards.'
LEVEL_TEXT = LEVEL_TEXT + ' Round 11: derived grain properties read twice in random orders against fresh grains.'
