"""C04 - UBI, UB, U, B, metric tensors, cell parameters and Rodrigues vector agree.

Oracle: algebraic identities on the outputs of grain / indexing helpers /
tensor_map guvectorize functions / TensorMap / point_by_point, plus
build -> decompose = identity against a harness-built UBI = inv(R.S.B(cell)),
plus NaN-mask locality for the vectorised versions.
"""
import numpy as np
from .. import xtal
from ..common import rng

TECHNIQUE = ("runtime law monitor + cross-implementation differential: algebraic identities "
             "(UB.UBI=I, U in SO(3), B upper-triangular with B^T B = G*, UB = U.B, Rodrigues) on outputs of "
             "grain, indexing.ubito*, tensor_map.*, TensorMap, point_by_point; NaN-mask locality differential")
LEVEL_TEXT = ("Exploration: random triclinic and special cells x random rotations (Haar, identity, near-identity, "
              "180 deg, near-180) x small symmetric strains are pushed through every implementation and the identities "
              "and build->decompose identity are asserted to 1e-10; vectorised versions run on map shapes "
              "(1,1,1)..(2,17,23), non-contiguous inputs, random all-NaN voxel masks with bit-equality on unmasked voxels.")
LEVEL_NOTE = ("Trusts harness B = cholesky(G*)^T (unique upper-triangular factor with positive diagonal) and "
              "numpy.linalg; tolerances 1e-10 relative, angles 1e-8 deg.")

RULE = ("a case = (cell kind, rotation kind, strain) grain, or a map of such grains with a NaN mask; "
        "non-trivial grain = oblique cell or non-identity rotation; non-trivial map = at least one NaN voxel "
        "next to a valid one; distinct = (cell kind, rotation kind, rounded cell, shape)")

ROTK = ["haar", "haar", "haar", "identity", "near-identity", "pi", "near-pi"]


def close(a, b, tol):
    a = np.asarray(a, float)
    b = np.asarray(b, float)
    return a.shape == b.shape and bool(np.all(np.abs(a - b) <= tol * max(1.0, np.abs(b).max())))


def one_grain(run, seed, idx, mods):
    grain, indexing, unitcell, tmap, pbp = mods
    r = rng(seed, "C04", "g", idx)
    kind = xtal.KINDS[idx % 7] if idx % 2 else "triclinic"
    rk = ROTK[idx % len(ROTK)]
    cell0 = xtal.random_cell(r, kind)
    R = xtal.random_rotation(r, rk)
    mag = float(r.choice([0.0, 1e-6, 1e-4, 1e-2]))
    S = xtal.random_sym_stretch(r, mag)
    B0 = xtal.Bmat(cell0)
    UB_t = R @ S @ B0
    ubi = np.linalg.inv(UB_t)
    desc = dict(index=idx, kind=kind, rot=rk, cell=cell0, strain=mag, ubi=ubi.tolist())
    obl = any(abs(c - 90) > 1e-9 for c in cell0[3:])
    run.case((kind, rk, tuple(round(c, 2) for c in cell0)), nontrivial=obl or rk != "identity",
             sample=dict(index=idx, kind=kind, rot=rk, cell=cell0, strain=mag))
    tol = 1e-10
    # true metric and cell of the (strained) lattice
    G = ubi @ ubi.T
    cell_t = xtal.cell_from_metric(G)
    Gi = np.linalg.inv(G)
    B_t = xtal.Bmat(cell_t)            # harness B of the strained cell
    U_t = UB_t @ np.linalg.inv(B_t)    # orthogonal because B_t^T B_t = G*

    def V(key, what):
        run.violation(key, what, desc)

    g = grain.grain(ubi)
    run.count("grain_identities")
    UB, U, B, mt, rmt, uc = g.UB, g.U, g.B, g.mt, g.rmt, g.unitcell
    if not close(UB @ ubi, np.eye(3), tol):
        V("grain:UB.UBI", "grain.UB . ubi != I")
    if not close(U @ U.T, np.eye(3), tol) or abs(np.linalg.det(U) - 1) > tol:
        V("grain:U-orthogonal", "grain.U not a proper rotation: det %r" % np.linalg.det(U))
    if abs(B[1, 0]) + abs(B[2, 0]) + abs(B[2, 1]) > 0 or not close(B.T @ B, Gi, tol):
        V("grain:B", "grain.B not upper triangular with B^T B = G*")
    if not close(U @ B, UB, tol):
        V("grain:UB=U.B", "grain.U . grain.B != grain.UB")
    if not close(mt, G, tol) or not close(rmt, Gi, tol) or not close(rmt @ mt, np.eye(3), tol):
        V("grain:metric", "grain.mt / rmt wrong")
    if not close(uc[:3], cell_t[:3], tol) or np.abs(uc[3:] - cell_t[3:]).max() > 1e-8:
        V("grain:unitcell", "grain.unitcell %r != %r" % (uc.tolist(), cell_t.tolist()))
    if not close(U, U_t, 1e-9) or not close(B, B_t, 1e-9):
        V("grain:decompose", "grain.U/B differ from harness decomposition")
    if mag == 0.0:
        # build -> decompose returns that cell and rotation
        if not close(uc[:3], cell0[:3], 1e-9) or np.abs(uc[3:] - np.array(cell0[3:])).max() > 1e-7 \
                or not close(U, R, 1e-9):
            V("grain:roundtrip", "UBI built from (cell,R) decomposes to cell %r U err %.3g"
              % (uc.tolist(), np.abs(U - R).max()))
    # Rodrigues vector (skip near 180 deg where it diverges).  The sign
    # convention (r = +n tan(t/2) for the active or for the passive rotation) is
    # xfab's and is not part of the property: either is accepted, but all
    # reporters must use the same one within a run (DESIGN.md Corrections).
    ang = np.arccos(np.clip((np.trace(U_t) - 1) / 2, -1, 1))
    if 1e-3 < ang < np.pi - 1e-3:
        for name, rod in (("grain.Rod", g.Rod), ("indexing.ubitoRod", indexing.ubitoRod(ubi))):
            rod = np.asarray(rod, float)
            Rr = xtal.rot_from_rodrigues(rod)
            run.count("rodrigues_checked")
            if close(Rr, U_t, 1e-7):
                run.count("rodrigues_convention_active")
            elif close(Rr, U_t.T, 1e-7):
                run.count("rodrigues_convention_passive")
            else:
                V("rodrigues:" + name, "%s is not the Rodrigues vector of U or U^T (angle %.6g rad)" % (name, ang))
    # returned values are copies and the cache follows set_ubi
    g.U[0, 0] = 99.0
    g.unitcell[0] = -1.0
    if not close(g.U, U, 0) or not close(g.unitcell, uc, 0):
        V("grain:cache-alias", "modifying a returned property corrupts the cached value")
    R2 = xtal.random_rotation(r, "haar")
    ubi2 = np.linalg.inv(R2 @ B0)
    g.set_ubi(ubi2)
    run.count("cache_histories")
    if not close(g.U, R2, 1e-9) or not close(g.UB @ ubi2, np.eye(3), tol) or \
            not close(g.unitcell[:3], cell0[:3], 1e-9) or not close(g.mt, ubi2 @ ubi2.T, tol) or \
            not close(g.rmt @ g.mt, np.eye(3), tol) or not close(g.B.T @ g.B, g.rmt, tol):
        V("grain:stale-cache", "derived quantities not refreshed after set_ubi")
    # history: the caller re-uses the array it built the grain from; whatever it does to its own buffer the grain's
    # matrices must keep describing one lattice
    src = np.ascontiguousarray(ubi2.copy())
    ga = grain.grain(src)
    _ = (ga.UB, ga.U, ga.B, ga.unitcell, ga.mt)
    src[:] = np.linalg.inv(xtal.random_rotation(r, "haar") @ xtal.Bmat(xtal.random_cell(r, "triclinic")))
    run.count("input_aliasing_histories")
    if not close(ga.UB @ ga.ubi, np.eye(3), tol) or not close(ga.mt, ga.ubi @ ga.ubi.T, tol) or \
            not close(ga.U @ ga.B, np.linalg.inv(ga.ubi), 1e-9):
        V("grain:aliases-input", "after the caller overwrote the array the grain was built from, grain.ubi and the derived "
          "UB/U/B/mt no longer describe the same lattice")
    src2 = np.ascontiguousarray(ubi.copy())
    gb = grain.grain(ubi2)
    gb.set_ubi(src2)
    _ = gb.UB
    src2 *= 1.5
    if not close(gb.UB @ gb.ubi, np.eye(3), tol):
        V("grain:aliases-input", "set_ubi keeps a reference to the caller's array: UB.ubi != I after the caller scaled it")
    # left handed input must be rejected
    lh = ubi.copy()
    lh[0] = -lh[0]
    try:
        grain.grain(lh)
        V("grain:left-handed", "left-handed UBI accepted by grain()")
    except AssertionError:
        run.count("left_handed_rejected")
    # indexing helpers
    cp = np.array(indexing.ubitocellpars(ubi))
    if not close(cp[:3], cell_t[:3], tol) or np.abs(cp[3:] - cell_t[3:]).max() > 1e-8:
        V("indexing:ubitocellpars", "ubitocellpars %r != %r" % (cp.tolist(), cell_t.tolist()))
    Ui = indexing.ubitoU(ubi)
    Bi = indexing.ubitoB(ubi)
    run.count("indexing_helpers")
    if not close(Ui, U_t, 1e-9):
        V("indexing:ubitoU", "ubitoU differs from U by %.3g" % np.abs(Ui - U_t).max())
    badB = (abs(Bi[1, 0]) + abs(Bi[2, 0]) + abs(Bi[2, 1]) > 1e-12 * np.abs(Bi).max()) or \
        not close(Bi.T @ Bi, Gi, 1e-9) or not close(Ui @ Bi, UB_t, 1e-9)
    if badB:
        V("indexing:ubitoB:" + ("oblique" if obl or mag > 0 else "orthogonal"),
          "ubitoB is not the upper-triangular B with B^T B = G*: |U.B - UB| = %.3g, lower triangle %.3g"
          % (np.abs(Ui @ Bi - UB_t).max(), abs(Bi[1, 0]) + abs(Bi[2, 0]) + abs(Bi[2, 1])))
    # unitcell object's B for the same cell
    ucB = unitcell.unitcell(cell_t).B
    if not close(ucB, B_t, 1e-9):
        V("unitcell:B", "unitcell(cell).B differs from Busing-Levy B")
    # point_by_point scalar versions
    if not close(pbp.ubi_to_unitcell(ubi)[:3], cell_t[:3], tol) or \
            np.abs(pbp.ubi_to_unitcell(ubi)[3:] - cell_t[3:]).max() > 1e-8:
        V("pbp:ubi_to_unitcell", "point_by_point.ubi_to_unitcell wrong")
    if not close(pbp.ubi_and_ucell_to_u(ubi, cell_t), U_t, 1e-9):
        V("pbp:ubi_and_ucell_to_u", "point_by_point.ubi_and_ucell_to_u wrong")
    # single-voxel vectorised functions
    mtv = tmap.ubi_to_mt(ubi)
    ucv = tmap.mt_to_unitcell(mtv, np.arange(6.0))
    Bv = tmap.unitcell_to_b(ucv, np.eye(3))
    Uv = tmap.ubi_and_b_to_u(ubi, Bv)
    UBv = tmap.fast_invert(ubi)
    run.count("tensor_map_single")
    if not (close(mtv, G, tol) and close(ucv[:3], cell_t[:3], tol) and np.abs(ucv[3:] - cell_t[3:]).max() < 1e-8
            and close(Bv, B_t, 1e-9) and close(Uv, U_t, 1e-9) and close(UBv, UB_t, 1e-9)
            and close(Uv @ Bv, UBv, 1e-9)):
        V("tensor_map:single", "tensor_map vectorised functions disagree with harness for one voxel")


def one_map(run, seed, idx, mods):
    grain, indexing, unitcell, tmap, pbp = mods
    r = rng(seed, "C04", "m", idx)
    shapes = [(1, 1, 1), (1, 1, 2), (1, 2, 1), (1, 3, 5), (2, 4, 3), (1, 17, 23), (2, 17, 23), (1, 9, 1)]
    shp = shapes[idx % len(shapes)]
    n = int(np.prod(shp))
    kind = xtal.KINDS[idx % 7]
    cell0 = xtal.random_cell(r, kind)
    B0 = xtal.Bmat(cell0)
    ubis = np.empty((n, 3, 3))
    for i in range(n):
        R = xtal.random_rotation(r, "haar")
        S = xtal.random_sym_stretch(r, 1e-3)
        ubis[i] = np.linalg.inv(R @ S @ B0)
    mask = r.random(n) < (0.0 if idx % 5 == 0 else 0.3)
    if idx % 7 == 3:
        mask[:] = True
    desc = dict(index=idx, shape=shp, kind=kind, n_nan=int(mask.sum()))
    full = ubis.reshape(shp + (3, 3))
    masked = full.copy()
    masked.reshape(n, 3, 3)[mask] = np.nan
    if idx % 2:
        # non-contiguous view of the same values
        big = np.zeros(shp + (3, 6))
        big[..., ::2] = masked
        masked_in = big[..., ::2]
    else:
        masked_in = masked
    nontriv = bool(mask.any() and (~mask).any())
    run.case(("map", shp, kind, int(mask.sum())), nontrivial=nontriv, sample=desc)

    def V(key, what):
        run.violation(key, what, desc)

    dum6, dum3 = np.arange(6.0), np.eye(3)
    res = {}
    for tag, inp in (("full", full), ("masked", masked_in)):
        mt = tmap.ubi_to_mt(inp)
        uc = tmap.mt_to_unitcell(mt, dum6)
        B = tmap.unitcell_to_b(uc, dum3)
        U = tmap.ubi_and_b_to_u(inp, B)
        UB = tmap.fast_invert(inp)
        res[tag] = dict(mt=mt, unitcell=uc, B=B, U=U, UB=UB)
    run.count("map_runs")
    m3 = mask.reshape(shp)
    for name in res["full"]:
        a, b = res["full"][name], res["masked"][name]
        if a.shape != b.shape or a.shape[:3] != shp:
            V("map:shape:" + name, "output shape %r for input map %r" % (a.shape, shp))
            continue
        if not np.isnan(b[m3]).all():
            V("map:nan-not-kept:" + name, "NaN-masked voxel produced a non-NaN %s" % name)
        if not np.array_equal(a[~m3], b[~m3]):
            V("map:nan-leak:" + name, "masking some voxels changed %s of unmasked neighbours" % name)
        if np.isnan(a).any():
            V("map:nan-invented:" + name, "valid voxel produced NaN %s" % name)
        run.count("map_voxels_checked", n)
    # per voxel against the grain object
    flat = {k: v.reshape((n,) + v.shape[3:]) for k, v in res["full"].items()}
    for i in range(0, n, max(1, n // 12)):
        g = grain.grain(ubis[i])
        if not (close(flat["U"][i], g.U, 1e-10) and close(flat["B"][i], g.B, 1e-10) and
                close(flat["UB"][i], g.UB, 1e-10) and close(flat["mt"][i], g.mt, 1e-10) and
                close(flat["unitcell"][i], g.unitcell, 1e-10)):
            V("map:vs-grain", "vectorised value differs from grain object at voxel %d" % i)
    # TensorMap object: properties, caching after UBI assignment
    tm = tmap.TensorMap(maps={"UBI": masked.copy()})
    ok = (np.array_equal(tm.U[~m3], res["masked"]["U"][~m3]) and
          np.array_equal(tm.B[~m3], res["masked"]["B"][~m3]) and
          np.array_equal(tm.unitcell[~m3], res["masked"]["unitcell"][~m3]) and
          np.array_equal(tm.UB[~m3], res["masked"]["UB"][~m3]) and
          np.array_equal(tm.mt[~m3], res["masked"]["mt"][~m3]))
    if not ok or not np.isnan(tm.U[m3]).all():
        V("TensorMap:properties", "TensorMap.U/B/unitcell/UB/mt differ from the vectorised functions")
    tm.UBI = full.copy()
    run.count("tensormap_histories")
    if not (np.array_equal(tm.U, res["full"]["U"]) and np.array_equal(tm.unitcell, res["full"]["unitcell"])
            and np.array_equal(tm.UB, res["full"]["UB"])):
        V("TensorMap:stale-cache", "TensorMap.U/unitcell/UB not refreshed after assigning UBI")


def check(run, replay=None):
    from ImageD11 import grain, indexing, unitcell
    from ImageD11.sinograms import tensor_map as tmap
    from ImageD11.sinograms import point_by_point as pbp
    mods = (grain, indexing, unitcell, tmap, pbp)
    if replay is not None:
        cs = replay["case"]
        if "shape" in cs:
            one_map(run, replay["seed"], cs["index"], mods)
        else:
            one_grain(run, replay["seed"], cs["index"], mods)
        run.nontrivial.update(["replay", "replay2"])
        return
    ng, nm = (300, 24) if run.tier == "quick" else (20000, 500)
    for i in range(ng):
        one_grain(run, run.seed, i, mods)
    for i in range(nm):
        one_map(run, run.seed, i, mods)
    run.require_counter("grain_identities", 100)
    run.require_counter("map_voxels_checked", 100)
    run.require_counter("rodrigues_checked", 50)
    if run.counters.get("rodrigues_convention_active", 0) and run.counters.get("rodrigues_convention_passive", 0):
        run.violation("rodrigues:mixed-convention", "Rodrigues vectors reported in both sign conventions", {})
