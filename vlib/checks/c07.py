"""C07 - every peak goes to its best-fitting grain, whatever the order or threads.

Oracle: arg-min reference over all grains (longdouble) with tie/margin
handling, histogram conservation, permutation differential and OpenMP
thread-count differential (real libgomp, 1..64 threads).  Observed through
cImageD11.score_and_assign, indexer.fight_over_peaks and
refinegrains.assignlabels (per-grain translations => per-grain g-vectors, which
the reference recomputes with the harness geometry model).
"""
import contextlib
import io
import itertools
import os
import re
import tempfile
import warnings
from fractions import Fraction
import numpy as np
from .. import xtal, sim, geom
from ..common import rng, WORK

TECHNIQUE = ("runtime reference-model monitor: arg-min over all grains recomputed in longdouble with tie/margin sets (exact "
             "rational model for dyadic cases: strict '<' at the tolerance and exact ties); per-call return value against the "
             "sequential interval model; conservation ledger (sum of per-grain counts + unassigned = peaks); grain-order "
             "permutation differential; OpenMP thread-count differential on real libgomp (1..64 threads, chunk-boundary peak counts)")
LEVEL_TEXT = ("Exploration: scenarios with 1..50 UBIs (independent, near-duplicate, twin-related, exact duplicates; class, grain "
              "count and peak count drawn independently), 1..1e5 peaks crossing "
              "the 4096 static chunk size, all tolerances, label arrays starting fresh (-1) or holding stale grain names (zeros as "
              "the notebook helpers do, random names - this is what reaches the kernel's release branch); every label/error/count/"
              "return value is compared with the arg-min reference; all "
              "permutations for <=4 grains and random ones otherwise; each scenario is re-run with 1,2,3,4,7,8,16,32,64 threads for "
              "bit-equality. Consumers: indexer.fight_over_peaks (natural and permuted order, empty list), indexer.getind, "
              "indexer.saveindexing (parsed file against the reference), nb_utils.assign_peaks_to_grains, refinegrains.assignlabels. "
              "The instrumented scheduler / TSan tiers for this kernel are part of C20/C13 machinery.")
LEVEL_NOTE = ("Trusts numpy longdouble, Python fractions (dyadic scenarios) and the harness geometry model; ties = errors within the "
              "double-rounding band (1e-9 relative + 1e-11(1+|h|)sqrt(err)) of "
              "the minimum; tolerance margin as in C06; thread schedules are those the OS produces (no schedule control here); quick "
              "tier runs two team sizes on peak lists below one 4096 chunk and all nine above; histories that present one label twice "
              "over persisted arrays are outside the statement and not judged; indexer.getind with default scratch arrays after a ring "
              "assignment with off-ring peaks is refused by the wrapper (ValueError) - recorded, not judged.")

RULE = ("a scenario = (grain set class, n peaks, tol, noise); non-trivial = at least one peak is indexed within tolerance by two or "
        "more grains (competition) ; distinct = (class, ngrains, npeaks, tol, noise, route)")
# Histories that present one label twice over persisted label/error arrays (the second presentation releases the peaks of an
# unchanged grain, stale errors block other grains) are not judged: no caller persists the arrays and the statement speaks
# about one pass over a list of grains.

LD = np.longdouble
THREADS = (1, 2, 3, 4, 7, 8, 16, 32, 64)


def ref_errors(ubis, gvs):
    """gvs: (ng, n, 3) per-grain g-vectors or (n,3) shared.  returns (ng, n) longdouble drlv2"""
    out = []
    for i, u in enumerate(ubis):
        gv = gvs[i] if gvs.ndim == 3 else gvs
        h = np.asarray(gv, LD) @ np.asarray(u, LD).T
        d = h - np.rint(h)
        out.append((d * d).sum(axis=1))
    return np.array(out)


def judge(run, V, errs, tol, hmax, labels, drlv2, init, names, route):
    """labels: array of grain *names* (or -1).  errs (ng,n)."""
    ng, n = errs.shape
    t2 = LD(tol) * LD(tol)
    bw = 1e-9 * tol * tol + 1e-11 * (1.0 + hmax) * tol
    emin = errs.min(axis=0)
    # double rounding of h - rint(h) is ~eps.|h|, so errors closer than this are a tie
    tie_tol = 1e-9 * emin + 1e-11 * (1.0 + hmax) * np.sqrt(emin) + 1e-22
    winners = errs <= (emin + tie_tol)[None, :]
    certain_in = emin < t2 - bw
    certain_out = emin > t2 + bw
    names = np.asarray(names)
    lab = np.asarray(labels)
    run.count("labels_judged", n)
    # unassigned although a grain indexes it
    bad = certain_in & (lab == -1)
    if bad.any():
        k = int(np.nonzero(bad)[0][0])
        V(route + ":unassigned-but-indexed", "peak %d is within tolerance of grain %r (err %.3g < tol^2 %.3g) but unassigned"
          % (k, names[int(np.argmin(errs[:, k]))], float(emin[k]), float(t2)), k)
    bad = certain_out & (lab != -1)
    if bad.any():
        k = int(np.nonzero(bad)[0][0])
        V(route + ":assigned-but-not-indexed", "peak %d labelled %r but no grain indexes it (min err %.3g >= tol^2 %.3g)"
          % (k, lab[k], float(emin[k]), float(t2)), k)
    # label must be one of the winners
    pos = {nm: i for i, nm in enumerate(names.tolist())}
    assigned = np.nonzero(lab != -1)[0]
    unknown = [k for k in assigned if lab[k] not in pos]
    if unknown:
        V(route + ":unknown-label", "label %r is not a grain" % (lab[unknown[0]],), int(unknown[0]))
        return
    gi = np.array([pos[x] for x in lab[assigned]], int)
    okw = winners[gi, assigned]
    if not okw.all():
        k = int(assigned[np.nonzero(~okw)[0][0]])
        V(route + ":not-best-grain", "peak %d labelled %r (err %.6g) but grain %r fits better (err %.6g)"
          % (k, lab[k], float(errs[pos[lab[k]], k]), names[int(np.argmin(errs[:, k]))], float(emin[k])), k)
    # stored error = minimum
    if drlv2 is not None:
        d = np.asarray(drlv2, LD)
        e = np.abs(d[assigned] - emin[assigned])
        tl = 1e-9 * emin[assigned] + 1e-11 * (1 + hmax) * np.sqrt(emin[assigned]) + 1e-22
        if (e > tl).any():
            k = int(assigned[np.nonzero(e > tl)[0][0]])
            V(route + ":stored-error", "stored error %r of peak %d != minimum %r" % (float(d[k]), k, float(emin[k])), k)
        un = np.nonzero((lab == -1) & certain_out)[0]
        if len(un) and init is not None and not (np.asarray(drlv2)[un] == init).all():
            V(route + ":unassigned-error-changed", "error of a never-assigned peak changed from its initial value", int(un[0]))
    competing = int(((errs < t2 - bw).sum(axis=0) >= 2).sum())
    return competing


def gen_grains(r, cls, ng):
    cell = xtal.random_cell(r, ["cubic", "hexagonal", "orthorhombic", "triclinic"][int(r.integers(4))], 3.0, 8.0)
    B = xtal.Bmat(cell)
    UBs = []
    for i in range(ng):
        if cls == "independent" or i == 0:
            UBs.append(xtal.random_rotation(r) @ B)
        elif cls == "near-duplicate":
            UBs.append(xtal.rot_axis_angle(r.normal(size=3), 10 ** r.uniform(-5, -2)) @ UBs[int(r.integers(i))])
        elif cls == "twin":
            # rotation by 60 deg about [111] / 180 about an axis: shares a sub-lattice for cubic
            ax = np.array(UBs[0]) @ np.array([1.0, 1.0, 1.0])
            ang = np.radians([60, 180, 120, 90][i % 4])
            UBs.append(xtal.rot_axis_angle(ax, ang) @ UBs[int(r.integers(i))])
        elif cls == "exact-duplicate":
            UBs.append(UBs[int(r.integers(i))].copy())
    return cell, UBs


CLASSES = ["independent", "near-duplicate", "twin", "exact-duplicate"]
NGRAINS = [1, 2, 3, 4, 5, 8, 20, 50]
NPEAKS = [1, 17, 300, 4095, 4096, 4097, 8191, 8193, 12289, 1000]
INITS = ["fresh", "fresh", "fresh", "zeros", "zeros", "random-names", "random-names", "last-name"]


def return_interval(errs, order, tol, hmax, init):
    """[lo, hi] for the value returned by every score_and_assign call of a pass in the given order (number of peaks the
    call takes): sequential model in longdouble; a peak inside the rounding band of the tolerance or of the stored error may
    or may not be taken"""
    t2 = LD(tol) * LD(tol)
    bw = 1e-9 * tol * tol + 1e-11 * (1.0 + hmax) * tol
    n = errs.shape[1]
    st_lo = np.full(n, LD(init))      # smallest error that may be stored so far
    st_hi = np.full(n, LD(init))      # largest error that may be stored so far
    out = []
    for g in order:
        e = errs[g]
        tie = 1e-9 * e + 1e-11 * (1.0 + hmax) * np.sqrt(e) + 1e-22
        sure = (e < t2 - bw) & (e < st_lo - tie)
        maybe = (e < t2 + bw) & (e < st_hi + tie)
        out.append((int(sure.sum()), int(maybe.sum())))
        st_lo = np.where(maybe, np.minimum(st_lo, e), st_lo)
        st_hi = np.where(sure, np.minimum(st_hi, e), st_hi)
    return out


def scenario_direct(run, seed, idx, cImageD11, indexing):
    r = rng(seed, "C07", "d", idx)
    # class, grain count, peak count and initial label state are drawn from the scenario's own generator (they used to be
    # locked together through idx % 4, idx % 8, idx % 10)
    cls = CLASSES[int(r.integers(4))]
    ng = int(NGRAINS[int(r.integers(len(NGRAINS)))])
    n = int(NPEAKS[int(r.integers(len(NPEAKS)))])
    if idx % 41 == 5:
        n = 100000 if run.tier == "thorough" else 30000
    if ng * n > 2.5e5 and idx % 41 != 5 and run.tier == "quick":
        n = int(NPEAKS[int(r.integers(3))])        # keep the quick tier inside its time budget
    tol = float(r.choice([0.01, 0.05, 0.1, 0.25, 0.5, 0.7, 0.9]))   # 0.9: the default of filtergrain.py; the 3-D error reaches sqrt(3)/2
    noise = float(r.choice([0.0, 1e-3, 0.02, 0.1]))
    initk = INITS[int(r.integers(len(INITS)))]
    dinit = float(r.choice([2.0, 1.0]))            # fight_over_peaks starts from 2, assignlabels and the notebooks from 1
    cell, UBs = gen_grains(r, cls, ng)
    ubis = [np.ascontiguousarray(np.linalg.inv(u)) for u in UBs]
    hmax = 6
    own = r.integers(0, ng, n)
    h = r.integers(-hmax, hmax + 1, (n, 3)).astype(float)
    gv = np.empty((n, 3))
    for g in range(ng):
        m = own == g
        gv[m] = (h[m] + r.normal(0, 1, (int(m.sum()), 3)) * noise) @ UBs[g].T
    junk = r.random(n) < 0.15
    gv[junk] = r.uniform(-1, 1, (int(junk.sum()), 3))
    gv = np.ascontiguousarray(gv)
    # stale content of the label array: every value is a name that IS presented in the pass, so one pass must bring every
    # peak to its arg-min grain or to -1 (a stale name whose grain does not index the peak has to be released)
    if initk == "fresh":
        lab0 = np.full(n, -1, np.int32)
    elif initk == "zeros":
        lab0 = np.zeros(n, np.int32)
    elif initk == "random-names":
        lab0 = r.integers(0, ng, n).astype(np.int32)
    else:
        lab0 = np.full(n, ng - 1, np.int32)
    desc = dict(index=idx, route="direct", cls=cls, ngrains=ng, npeaks=n, tol=tol, noise=noise, cell=cell,
                initial_labels=initk, initial_error=dinit)
    errs = ref_errors(ubis, gv)
    names = np.arange(ng)
    run.count("class_%s_ng%d" % (cls, ng))
    run.count("initial_labels_%s" % initk)

    def V(key, what, peak=None):
        run.violation(key, what, dict(desc, peak=peak))

    def run_assign(order, nthreads):
        cImageD11.cimaged11_omp_set_num_threads(nthreads)
        drlv2 = np.full(n, dinit)
        labels = lab0.copy()
        rets = []
        for g in order:
            rets.append(int(cImageD11.score_and_assign(ubis[g], gv, tol, drlv2, labels, int(g))))
        return labels, drlv2, rets

    lab1, d1, rets1 = run_assign(range(ng), 1)
    competing = judge(run, V, errs, tol, hmax + 1, lab1, d1, dinit, names, "score_and_assign")
    run.case((cls, ng, n, tol, noise, "direct"), nontrivial=bool(competing),
             sample=dict(desc, competing_peaks=competing))
    run.count("competing_peaks", competing or 0)
    if initk != "fresh":
        # peaks that held a stale name and end unassigned went through the release branch
        run.count("stale_labels_released", int(((lab0 != -1) & (lab1 == -1)).sum()))
    # label / error arrays as callers may hold them (numpy's default int64, a column of a 2-D table, float errors in
    # float32): the wrapper either refuses them or the caller's own arrays carry the answer - never a silent copy
    for variant in ("int64", "strided-int32", "int16", "drlv2-float32", "drlv2-strided"):
        cImageD11.cimaged11_omp_set_num_threads(1)
        dv = np.full(n, dinit)
        lv = lab0.copy()
        if variant == "int64":
            lv = lab0.astype(np.int64)
        elif variant == "int16":
            lv = lab0.astype(np.int16)
        elif variant == "strided-int32":
            big = np.zeros((n, 2), np.int32)
            big[:, 0] = lab0
            lv = big[:, 0]
        elif variant == "drlv2-float32":
            dv = np.full(n, dinit, np.float32)
        else:
            bigd = np.zeros((n, 3))
            bigd[:, 1] = dinit
            dv = bigd[:, 1]
        try:
            for g in range(ng):
                cImageD11.score_and_assign(ubis[g], gv, tol, dv, lv, int(g))
        except Exception:
            run.count("array_variants_refused")
            continue
        run.count("array_variants_accepted")
        if not np.array_equal(np.asarray(lv).astype(int), lab1.astype(int)) or \
                (variant != "drlv2-float32" and not np.array_equal(np.asarray(dv, float), d1)):
            V("score_and_assign:array-variant:" + variant, "score_and_assign accepted a %s array but the caller's labels / errors "
              "do not hold the result (a temporary copy was filled and dropped)" % variant)
    # the value returned by each call: number of peaks taken in that call
    for g, (lo, hi), got in zip(range(ng), return_interval(errs, range(ng), tol, hmax + 1, dinit), rets1):
        run.count("return_values_judged")
        if not lo <= got <= hi:
            V("score_and_assign:return-value", "call for grain %d returned %d, the sequential reference takes between %d and %d "
              "peaks in that call" % (g, got, lo, hi))
            break
    # conservation
    cnt = np.bincount(lab1[lab1 >= 0], minlength=ng)
    if cnt.sum() + int((lab1 == -1).sum()) != n:
        V("score_and_assign:conservation", "counts do not add up")
    # threads (quick tier: a peak list below the 4096 static chunk is one chunk, i.e. one working thread whatever the team
    # size - two team sizes are enough there; the thorough tier runs every team size on every scenario)
    for nt in (THREADS[1:] if (n >= 4096 or run.tier != "quick") else (3, 64)):
        lab, d, rets = run_assign(range(ng), nt)
        run.count("thread_runs")
        if not (np.array_equal(lab, lab1) and np.array_equal(d, d1) and rets == rets1):
            V("score_and_assign:threads", "labels/errors/return values with %d threads differ from 1 thread" % nt)
            break
    cImageD11.cimaged11_omp_set_num_threads(4)
    # grain order: compare on peaks without (near-)ties
    e_sorted = np.sort(errs, axis=0)
    uniq = np.ones(n, bool) if ng == 1 else (e_sorted[1] - e_sorted[0] > 1e-8 * e_sorted[1] + 1e-10 * (2.0 + hmax) * np.sqrt(e_sorted[1]) + 1e-18)
    perms = list(itertools.permutations(range(ng))) if ng <= 4 else \
        [[int(x) for x in r.permutation(ng)] for _ in range(4 if run.tier == "quick" else 20)]
    for pm in perms[1:] if ng <= 4 else perms:
        lab, d, rets = run_assign(pm, 4)
        run.count("permutation_runs")
        judge(run, V, errs, tol, hmax + 1, lab, d, dinit, names, "score_and_assign")
        for g, (lo, hi), got in zip(pm, return_interval(errs, pm, tol, hmax + 1, dinit), rets):
            run.count("return_values_judged")
            if not lo <= got <= hi:
                V("score_and_assign:return-value", "order %r: call for grain %d returned %d, the sequential reference takes "
                  "between %d and %d peaks in that call" % (list(pm), g, got, lo, hi))
                break
        if not np.array_equal(lab[uniq], lab1[uniq]) or not np.array_equal(d[uniq], d1[uniq]):
            k = int(np.nonzero(uniq & ((lab != lab1) | (d != d1)))[0][0])
            V("score_and_assign:order-dependent", "peak %d: label %r with grain order %r but %r with natural order (no tie)"
              % (k, lab[k], list(pm), lab1[k]), k)
            break
    # the same through indexer.fight_over_peaks: natural order, then a permuted list at a thread count of its own
    with contextlib.redirect_stdout(io.StringIO()):      # ImageD11.indexing logs through print()
        ix = indexing.indexer(unitcell=None, gv=gv, hkl_tol=tol)
    for rep in range(2):
        pm = list(range(ng)) if rep == 0 else [int(x) for x in r.permutation(ng)]
        nt = 4 if rep == 0 else int(r.choice(THREADS))
        cImageD11.cimaged11_omp_set_num_threads(nt)
        ix.ubis = [ubis[g].copy() for g in pm]
        ix.fight_over_peaks()
        run.count("fight_over_peaks_runs")
        # label i of the indexer = grain pm[i]
        fnames = np.argsort(pm)
        judge(run, V, errs, tol, hmax + 1, ix.ga, ix.drlv2, 2.0, fnames, "fight_over_peaks")
        if not np.array_equal(np.asarray(ix.gas), np.bincount(ix.ga[ix.ga >= 0], minlength=ng)):
            V("fight_over_peaks:gas", "per-grain counts %r != histogram of labels" % (list(ix.gas),))
        if int(np.sum(ix.gas)) + int((ix.ga == -1).sum()) != n:
            V("fight_over_peaks:conservation", "sum(gas) + unassigned != npeaks")
        grain_of = np.where(ix.ga >= 0, np.asarray(pm)[np.where(ix.ga >= 0, ix.ga, 0)], -1)
        if rep == 0:
            grain_of0 = grain_of
        elif not np.array_equal(grain_of[uniq], grain_of0[uniq]):
            k = int(np.nonzero(uniq & (grain_of != grain_of0))[0][0])
            V("fight_over_peaks:order-dependent", "peak %d goes to grain %r when the grain list is presented as %r but to grain "
              "%r in natural order (no tie)" % (k, grain_of[k], pm, grain_of0[k]), k)
    # a grain list whose LAST entries own no peak: an exact copy of an earlier grain (a later grain takes a peak only when it
    # is strictly better, so the copy gets nothing) and an orientation that indexes nothing at all.  Labels of the others
    # must not change and the per-grain counts must still be the histogram of the labels, with zeros at the end.
    pm = [int(x) for x in r.permutation(ng)]
    dead = [ubis[pm[0]].copy()]
    far = ubis[pm[0]] * 0.731 + 0.0137             # another lattice: judged below, whatever it happens to index
    ix.ubis = [ubis[g].copy() for g in pm] + dead + [far]
    cImageD11.cimaged11_omp_set_num_threads(int(r.choice(THREADS)))
    ix.fight_over_peaks()
    run.count("fight_over_peaks_runs_with_peakless_last_grains")
    ga = np.asarray(ix.ga)
    if (ga == ng).any():
        V("fight_over_peaks:copy-takes-peaks", "an exact copy of grain %d presented later took %d peaks" % (pm[0], int((ga == ng).sum())))
    if not np.array_equal(np.asarray(ix.gas), np.bincount(ga[ga >= 0], minlength=ng + 2)):
        V("fight_over_peaks:gas", "with peak-less grains at the end of the list the per-grain counts %r != histogram of labels %r"
          % (list(ix.gas), np.bincount(ga[ga >= 0], minlength=ng + 2).tolist()))
    keep = uniq & (ga != ng + 1)
    grain_of = np.where((ga >= 0) & (ga < ng), np.asarray(pm)[np.where((ga >= 0) & (ga < ng), ga, 0)], -1)
    if not np.array_equal(grain_of[keep], grain_of0[keep]):
        k = int(np.nonzero(keep & (grain_of != grain_of0))[0][0])
        V("fight_over_peaks:order-dependent", "peak %d goes to grain %r when peak-less grains are appended to the list, to grain %r "
          "without them (no tie)" % (k, grain_of[k], grain_of0[k]), k)
    cImageD11.cimaged11_omp_set_num_threads(4)


def exact_errors(ubis, hk_over):
    """exact squared hkl errors (Fractions) for dyadic inputs; hk_over[i] = g-vector as exact floats"""
    out = []
    for u in ubis:
        row = []
        for g in hk_over:
            s = Fraction(0)
            for i in range(3):
                x = sum(Fraction(float(u[i, j])) * Fraction(float(g[j])) for j in range(3))
                t = x - round(x)
                s += t * t
            row.append(s)
        out.append(row)
    return out


def scenario_exact(run, seed, k, cImageD11):
    """Power-of-two UBIs and dyadic g-vectors: every operation of the kernel is exact in double, so the labels and stored errors
    must equal an exact rational arg-min bit for bit - including peaks whose error equals tol^2 exactly (not indexed: strict '<')
    and peaks fitted equally well by two grains (either label, 'apart from exact ties')."""
    r = rng(seed, "C07", "x", k)
    pats = {0.5: [(0.5, 0, 0)], 0.25: [(0.25, 0, 0)], 0.125: [(0.125, 0, 0)],
            0.375: [(0.25, 0.25, 0.125), (0.375, 0, 0)], 0.1875: [(0.125, 0.125, 0.0625)]}
    tol = float(list(pats)[int(r.integers(len(pats)))])
    ng = int(r.integers(1, 4))
    ubis = []
    for g in range(ng):
        u = np.zeros((3, 3))
        perm = r.permutation(3)
        for i in range(3):
            u[i, perm[i]] = r.choice([-1.0, 1.0]) * 2.0 ** int(r.integers(0, 4))
        ubis.append(np.ascontiguousarray(u))
    n = int(r.choice([8, 40, 200]))
    own = r.integers(0, ng, n)
    eps = 2.0 ** -20
    gv = np.empty((n, 3))
    for i in range(n):
        p = np.array(pats[tol][int(r.integers(len(pats[tol])))])[r.permutation(3)] * r.choice([-1.0, 1.0], 3)
        j = int(np.argmax(np.abs(p)))
        c = int(r.integers(4))
        if c == 1:
            p[j] -= np.sign(p[j]) * eps
        elif c == 2:
            p[j] += np.sign(p[j]) * eps
        elif c == 3:
            p = p * 0.5
        hk = r.integers(-40, 41, 3).astype(float) + p
        gv[i] = np.linalg.inv(ubis[own[i]]) @ hk          # exact: one product of a power of two per component
    gv = np.ascontiguousarray(gv)
    E = exact_errors(ubis, gv)
    t2 = Fraction(tol) * Fraction(tol)
    desc = dict(index=k, route="exact", tol=tol, ngrains=ng, npeaks=n, ubis=[u.tolist() for u in ubis])
    at_tol = sum(1 for g in range(ng) for i in range(n) if E[g][i] == t2)
    ties = 0
    want = []
    for i in range(n):
        col = [E[g][i] for g in range(ng)]
        m = min(col)
        if m < t2:
            w = [g for g in range(ng) if col[g] == m]
            ties += len(w) > 1
            want.append((w, float(m)))
        else:
            want.append(([-1], None))
    run.case(("exact", tol, ng, n), nontrivial=at_tol > 0, sample=dict(desc, at_tol=at_tol, exact_ties=ties))
    run.count("exact_scenarios")
    run.count("exact_errors_at_tolerance", at_tol)
    run.count("exact_ties", ties)
    for nt in (1, 4):
        for order in (list(range(ng)), list(range(ng))[::-1]):
            cImageD11.cimaged11_omp_set_num_threads(nt)
            labels = np.full(n, -1, np.int32)
            drlv2 = np.full(n, 1.0)
            for g in order:
                cImageD11.score_and_assign(ubis[g], gv, tol, drlv2, labels, int(g))
            for i in range(n):
                w, m = want[i]
                if labels[i] not in w:
                    run.violation("exact:label", "peak %d labelled %d, exact arg-min within tol (strict) is %r (errors %r, tol^2 %r)"
                                  % (i, labels[i], w, [float(E[g][i]) for g in range(ng)], float(t2)),
                                  dict(desc, peak=i, order=order, threads=nt))
                    break
                if (m is None and drlv2[i] != 1.0) or (m is not None and drlv2[i] != m):
                    run.violation("exact:stored-error", "peak %d stored error %r, exact minimum %r" % (i, drlv2[i], m),
                                  dict(desc, peak=i, order=order, threads=nt))
                    break
    cImageD11.cimaged11_omp_set_num_threads(4)


def scenario_indexer(run, seed, k, mods):
    """the consumers of the labels in ImageD11.indexing (getind, saveindexing) and the notebook helper
    nb_utils.assign_peaks_to_grains (label array initialised with zeros)"""
    cImageD11, indexing, unitcell, columnfile, grain, nb_utils = mods
    r = rng(seed, "C07", "i", k)
    cls = CLASSES[int(r.integers(4))]
    ng = int(r.choice([1, 2, 3, 5, 8]))
    n = int(r.choice([30, 400, 2000, 1, 2, 3, 4]))       # very short lists too: a 3x3 array is three peaks in rows
    tol = float(r.choice([0.02, 0.05, 0.1, 0.25, 0.7]))
    noise = float(r.choice([0.0, 1e-3, 0.02]))
    cell, UBs = gen_grains(r, cls, ng)
    ubis = [np.ascontiguousarray(np.linalg.inv(u)) for u in UBs]
    hmax = 2
    own = r.integers(0, ng, n)
    h = r.integers(-hmax, hmax + 1, (n, 3)).astype(float)
    h[(h == 0).all(axis=1)] = [1, 0, 0]
    gv = np.empty((n, 3))
    for g in range(ng):
        m = own == g
        gv[m] = (h[m] + r.normal(0, 1, (int(m.sum()), 3)) * noise) @ UBs[g].T
    junk = r.random(n) < 0.2
    gmax = float(np.abs(gv).max())
    gv[junk] = r.uniform(-gmax, gmax, (int(junk.sum()), 3))
    gv = np.ascontiguousarray(gv)
    errs = ref_errors(ubis, gv)
    t2 = LD(tol) * LD(tol)
    bw = 1e-9 * tol * tol + 1e-11 * (2.0 + hmax) * tol
    desc = dict(index=k, route="indexer", cls=cls, ngrains=ng, npeaks=n, tol=tol, noise=noise, cell=cell)
    names = np.arange(ng)

    def V(key, what, peak=None):
        run.violation(key, what, dict(desc, peak=peak))

    quiet = contextlib.redirect_stdout(io.StringIO())         # ImageD11.indexing logs through print()
    with quiet:
        ix = indexing.indexer(unitcell=None, gv=gv.copy(), hkl_tol=tol, wavelength=0.3)
    # ---- an empty list of grains: everything unassigned
    ix.ubis = []
    try:
        ix.fight_over_peaks()
        empty_ok = (np.asarray(ix.ga) == -1).all() and len(ix.gas) == 0 and len(ix.ga) == n
    except Exception as e:
        empty_ok = False
        V("fight_over_peaks:empty-list", "an empty grain list raised %s: %s" % (type(e).__name__, e))
    run.count("fight_over_peaks_empty_list")
    if not empty_ok:
        V("fight_over_peaks:empty-list", "an empty grain list does not leave every peak unassigned")
    # ---- getind: peaks indexed by one matrix (defaults, and caller-supplied scratch arrays as scorethem does)
    for g in range(min(ng, 3)):
        for how in ("default", "scratch"):
            if how == "default":
                m = ix.getind(ubis[g])
            else:
                m = ix.getind(ubis[g], drlv2tmp=np.empty(n, float), labelstmp=np.full(n, 7, np.int32))
            run.count("getind_calls")
            m = np.asarray(m)
            if m.shape != (n,) or (m & (errs[g] > t2 + bw)).any() or (~m & (errs[g] < t2 - bw)).any():
                V("getind:%s" % how, "getind does not return exactly the peaks within tolerance of the matrix")
    # ---- saveindexing: fight_over_peaks + refine_assigned per grain (asserts npk == gas[i]) + listing
    ix.ubis = [u.copy() for u in ubis]
    ix.ra = np.where(r.random(n) < 0.8, 0, -1).astype(np.int32)       # as left by assigntorings: ring number or -1
    ix.xp, ix.yp = r.uniform(0, 2048, n), r.uniform(0, 2048, n)
    ix.omega, ix.eta = r.uniform(-180, 180, n), r.uniform(-180, 180, n)
    ix.tth = np.degrees(2 * np.arcsin(np.clip(0.3 * ix.ds / 2, 0, 1)))
    os.makedirs(os.path.join(WORK, "tmp"), exist_ok=True)
    fd, fn = tempfile.mkstemp(prefix="c07_", suffix=".ubi_log", dir=os.path.join(WORK, "tmp"))
    os.close(fd)
    try:
        try:
            with quiet, warnings.catch_warnings():
                warnings.simplefilter("ignore")
                ix.saveindexing(fn)
            err = None
        except AssertionError as e:
            err = e
        run.count("saveindexing_runs")
        if err is not None:
            V("saveindexing:assertion", "saveindexing: refine_assigned count differs from the label histogram (assert npk == gas[i])")
            return
        txt = open(fn).read()
    finally:
        os.unlink(fn)
    ga = np.asarray(ix.ga)
    competing = judge(run, V, errs, tol, hmax + 1, ga, ix.drlv2, 2.0, names, "saveindexing")
    run.case((cls, ng, n, tol, noise, "indexer"), nontrivial=bool(competing) or ng > 1, sample=dict(desc, competing_peaks=competing))
    blocks = re.split(r"^Grain: ", txt.split("And now listing via peaks")[0], flags=re.M)[1:]
    if len(blocks) != ng:
        V("saveindexing:grains", "%d grain blocks written for %d grains" % (len(blocks), ng))
        return
    for i, b in enumerate(blocks):
        m = re.match(r"(\d+)\s+Npeaks=(\d+)\s+<drlv>=(\S+)", b)
        members = np.nonzero(ga == i)[0]
        listed = [int(x) for x in re.findall(r"^(\d+)\s+\(", b, flags=re.M)]
        run.count("saveindexing_grains_checked")
        if m is None or int(m.group(1)) != i or int(m.group(2)) != len(members):
            V("saveindexing:npeaks", "grain %d header %r, but %d peaks carry its label" % (i, b.splitlines()[0], len(members)))
            continue
        if listed != members.tolist():
            V("saveindexing:members", "peaks listed under grain %d are not the peaks labelled %d" % (i, i))
        if len(members):
            want = float(np.sqrt(errs[i, members].sum() / len(members)))
            # %f prints 6 decimals
            if abs(float(m.group(3)) - want) > 6e-7 + 1e-9 * want:
                V("saveindexing:mean-drlv", "grain %d <drlv>=%s, reference sqrt(mean drlv2) over its peaks %.7f" % (i, m.group(3), want))
            # per-peak columns: h k l (4 decimals) and drlv (8 decimals)
            rows = re.findall(r"^(\d+)\s+\(\s*(\S+)\s+(\S+)\s+(\S+)\s*\)\s+(\S+)", b, flags=re.M)
            hk = gv[members] @ ubis[i].T
            for (pk, h0, h1, h2, dr), hr, j in zip(rows, hk, members):
                if np.abs(np.array([float(h0), float(h1), float(h2)]) - hr).max() > 6e-5 + 1e-9 or \
                        abs(float(dr) - float(np.sqrt(errs[i, j]))) > 6e-9 + 1e-7 * float(np.sqrt(errs[i, j])):
                    V("saveindexing:peak-line", "grain %d peak %d line (%s %s %s) drlv %s differs from hkl %r drlv %.9f"
                      % (i, j, h0, h1, h2, dr, hr.tolist(), float(np.sqrt(errs[i, j]))), int(j))
                    break
    m = re.search(r"Peaks assigned to grains (\d+)", txt)
    if m is None or int(m.group(1)) != int(((ix.ra > -1) & (ga != -1)).sum()):
        V("saveindexing:totals", "'Peaks assigned to grains' line %r != %d ring-assigned peaks with a label"
          % (m and m.group(0), int(((ix.ra > -1) & (ga != -1)).sum())))
    # ---- getind after a real ring assignment with off-ring peaks (junk): only recorded.  The default scratch arrays are sized
    # by the ring-assigned subset while all g-vectors are passed, so the wrapper refuses the call (ValueError): an interface
    # failure, not a wrong label - reported to the coordinator, not judged
    if k % 4 == 0:
        with quiet:
            uc = unitcell.unitcell(cell, "P")
            ix2 = indexing.indexer(unitcell=uc, gv=gv.copy(), hkl_tol=tol, wavelength=0.3)
            try:
                ix2.assigntorings()
            except IndexError:
                # a very short peak list whose largest |g| lies below the first reflection: makerings has no ring to make
                # (the input class that C03 and C06 also skip, see DESIGN.md Corrections); nothing of C07 to judge
                run.count("assigntorings_skipped_no_reflection_below_limit")
                ix2 = None
    if k % 4 == 0 and ix2 is not None:
        with quiet:
                nr = int((ix2.ra == -1).sum())
                try:
                    m2 = np.asarray(ix2.getind(ubis[0]))
                    run.count("getind_default_after_assigntorings_ok")
                    if m2.shape != (n,) or (m2 & (errs[0] > t2 + bw)).any() or (~m2 & (errs[0] < t2 - bw)).any():
                        V("getind:after-assigntorings", "getind does not return exactly the peaks within tolerance of the matrix")
                except ValueError:
                    run.count("getind_default_after_assigntorings_raises_ValueError")
                    run.extra["getind_default_offring_observation"] = (
                        "indexer.getind(UBI) with default scratch arrays raises ValueError after assigntorings() when %d of %d peaks "
                        "are off-ring (arrays sized len(gvflat), g-vectors len(gv))" % (nr, n))
                m3 = np.asarray(ix2.getind(ubis[0], drlv2tmp=np.empty(n, float), labelstmp=np.empty(n, np.int32)))
                run.count("getind_calls")
                if m3.shape != (n,) or (m3 & (errs[0] > t2 + bw)).any() or (~m3 & (errs[0] < t2 - bw)).any():
                    V("getind:scratch:after-assigntorings", "getind does not return exactly the peaks within tolerance of the matrix")
    # ---- the notebook helper: labels start as zeros, errors as ones; grain i is label i
    if nb_utils is not None:
        cf = columnfile.colfile_from_dict({"gx": gv[:, 0].copy(), "gy": gv[:, 1].copy(), "gz": gv[:, 2].copy()})
        grains = [grain.grain(u.copy()) for u in ubis]
        with quiet, contextlib.redirect_stderr(io.StringIO()):
            nb_utils.assign_peaks_to_grains(grains, cf, tol)
        run.count("nb_utils_assign_runs")
        lab = np.asarray(cf.grain_id).astype(int)
        run.count("stale_labels_released", int((lab == -1).sum()))
        judge(run, V, errs, tol, hmax + 1, lab, np.asarray(cf.drlv2, float), 1.0, names, "assign_peaks_to_grains")


def scenario_refinegrains(run, seed, idx, mods):
    cImageD11, refinegrains, columnfile, parameters, grain = mods
    r = rng(seed, "C07", "r", idx)
    bits = int(r.integers(2048)) & ~(0b111 << 6)   # t_x.. handled per grain
    p = sim.default_pars(r, bits=bits)
    kind = ["cubic", "hexagonal", "tetragonal"][idx % 3]
    cell = xtal.random_cell(r, kind, 3.5, 6.0)
    sym = "F" if kind == "cubic" else "P"
    ng = int([1, 2, 3, 5][idx % 4])
    B = xtal.Bmat(cell)
    grains = []
    for g in range(ng):
        S = xtal.random_sym_stretch(r, 1e-3)
        t = r.uniform(-300, 300, 3)
        if idx % 3 == 2:
            # positions with exact zeros: on the rotation axis (0, 0, z), in the beam plane, at the origin - needle
            # samples and first-pass fits produce them, and "zero" shortcuts in the geometry code see them
            t = t * np.array([[0, 0, 1], [1, 0, 0], [0, 1, 1], [0, 0, 0], [1, 1, 0], [0, 1, 0]][(idx // 3 + g) % 6], float)
            run.count("grains_with_zero_translation_components")
        if idx % 5 == 0 and g > 0:       # near-duplicate orientation, different place
            UB = xtal.rot_axis_angle(r.normal(size=3), 2e-3) @ grains[0][0]
        else:
            UB = xtal.random_rotation(r) @ S @ B
        grains.append((UB, t))
    if idx % 6 == 1 and ng > 1:
        grains[-1] = (grains[-1][0], grains[0][1].copy())      # first and last grain share a position (e.g. a twin pair)
    dsm = min(sim.dsmax_on_detector(p), 4.5 / cell[0] if kind == "cubic" else 2.2 / min(cell[:3]) * 1.0 + 0.3)
    hk, _ = sim.make_hkls(cell, sym, dsm)
    s = sim.simulate(p, grains, hk)
    if s is None or len(s["sc"]) < 5:
        run.count("refinegrains_skipped")
        return
    n = len(s["sc"])
    tol = float(r.choice([0.02, 0.05, 0.1]))
    desc = dict(index=idx, route="refinegrains", ngrains=ng, npeaks=n, tol=tol, pars=p, cell=cell)
    names = list(r.permutation(ng)) if idx % 2 else list(range(ng))   # grain names need not be 0..n-1 in order
    multiscan = idx % 2 == 1
    perm2 = r.permutation(n)

    def build(order):
        o = refinegrains.refinegrains(tolerance=tol, OmFloat=False)
        o.parameterobj = parameters.parameters(**p)
        cf = columnfile.colfile_from_dict({"sc": s["sc"].copy(), "fc": s["fc"].copy(), "omega": s["omega"].copy(),
                                           "labels": np.zeros(n) - 2, "drlv2": np.ones(n)})
        o.scannames = ["scan"]
        o.scandata["scan"] = cf
        o.grainnames = [int(names[g]) for g in order]
        for g in order:
            o.grains[(int(names[g]), "scan")] = grain.grain(np.linalg.inv(grains[g][0]), translation=grains[g][1].copy())
        if multiscan:
            # a second scan holding the same peaks in another order: every scan must be labelled on its own merits
            cf2 = columnfile.colfile_from_dict({"sc": s["sc"][perm2].copy(), "fc": s["fc"][perm2].copy(),
                                                "omega": s["omega"][perm2].copy(), "labels": np.zeros(n) - 2,
                                                "drlv2": np.ones(n)})
            o.scannames = ["scan0", "scan"] if idx % 4 == 1 else ["scan", "scan0"]
            o.scandata["scan0"] = cf2
            for g in order:
                o.grains[(int(names[g]), "scan0")] = grain.grain(np.linalg.inv(grains[g][0]), translation=grains[g][1].copy())
        o.assignlabels(quiet=True)
        if multiscan:
            l2 = np.empty(n, int)
            d2_ = np.empty(n)
            l2[perm2] = np.asarray(cf2.labels).astype(int)
            d2_[perm2] = np.asarray(cf2.drlv2, float)
            o._second = (l2, d2_)
        return np.asarray(cf.labels).astype(int), np.asarray(cf.drlv2, float), o

    def V(key, what, peak=None):
        run.violation(key, what, dict(desc, peak=peak))

    # reference: per-grain g-vectors from the harness geometry model
    gvs = np.array([np.asarray(geom.forward(p, s["sc"], s["fc"], s["omega"], t)["g"], float) for (_, t) in grains])
    ubis = [np.linalg.inv(u) for (u, _) in grains]
    errs = ref_errors(ubis, gvs)
    import io, contextlib
    with contextlib.redirect_stdout(io.StringIO()):
        lab, d, o = build(range(ng))
    competing = judge(run, V, errs, tol, 12, lab, d, 1.0, np.array(names), "assignlabels")
    run.count("assignlabels_runs")
    if multiscan:
        run.count("multiscan_runs")
        l2, d2_ = o._second
        judge(run, V, errs, tol, 12, l2, d2_, 1.0, np.array(names), "assignlabels:second-scan")
        if not np.array_equal(l2, lab):
            k = int(np.nonzero(l2 != lab)[0][0])
            V("assignlabels:scan-dependent", "the same peak gets label %r in one scan and %r in the other scan of one "
              "refinegrains object" % (lab[k], l2[k]), k)
    run.case(("refinegrains", ng, n, tol, kind), nontrivial=bool(competing) or ng > 1,
             sample=dict(index=idx, route="refinegrains", ngrains=ng, npeaks=n, tol=tol, competing_peaks=competing))
    # ground truth: noise free, so every peak's generator fits with ~0 error
    gen = np.array([names[g] for g in s["gid"]])
    e_sorted = np.sort(errs, axis=0)
    uniq = np.ones(n, bool) if ng == 1 else (e_sorted[1] - e_sorted[0] > 1e-8 * e_sorted[1] + 1e-10 * 13 * np.sqrt(e_sorted[1]) + 1e-16)
    if not np.array_equal(lab[uniq], gen[uniq]):
        k = int(np.nonzero(uniq & (lab != gen))[0][0])
        V("assignlabels:not-generator", "noise-free peak %d simulated from grain %r labelled %r" % (k, gen[k], lab[k]), k)
    # per-grain npks = histogram
    for g in range(ng):
        gr = o.grains[(int(names[g]), "scan")]
        if int(gr.npks) != int((lab == names[g]).sum()) or not np.array_equal(np.sort(gr.ind), np.nonzero(lab == names[g])[0]):
            V("assignlabels:npks", "grain %r npks %d != histogram %d" % (names[g], gr.npks, int((lab == names[g]).sum())))
    # grain order and thread count
    for pm in ([list(range(ng))[::-1]] + [list(r.permutation(ng)) for _ in range(2)]) if ng > 1 else []:
        with contextlib.redirect_stdout(io.StringIO()):
            lab2, d2, _ = build(pm)
        run.count("permutation_runs")
        if not np.array_equal(lab2[uniq], lab[uniq]):
            V("assignlabels:order-dependent", "labels depend on the order of grains")
    # ---- the grains come from a grain file (readubis -> generate_grains, the makemap / filtergrain route) in which only
    # SOME grains carry a "#translation:" line: a grain without one sits at the position given by t_x, t_y, t_z of the
    # parameters, wherever it stands in the file
    if ng >= 2 and rng(seed, "C07", "grainfile", idx).random() < 0.6:
        j0 = int(rng(seed, "C07", "grainfile-j", idx).integers(1, ng))       # never the first grain in the file
        T = np.asarray(grains[j0][1], float)
        os.makedirs(os.path.join(WORK, "tmp"), exist_ok=True)
        fd, gfn = tempfile.mkstemp(prefix="c07_", suffix=".map", dir=os.path.join(WORK, "tmp"))
        os.close(fd)
        try:
            gl = [grain.grain(np.linalg.inv(grains[g][0]), translation=(None if g == j0 else grains[g][1].copy())) for g in range(ng)]
            grain.write_grain_file(gfn, gl)
            back = grain.read_grain_file(gfn)
            with contextlib.redirect_stdout(io.StringIO()):
                o2 = refinegrains.refinegrains(tolerance=tol, OmFloat=False)
            o2.parameterobj = parameters.parameters(**dict(p, t_x=float(T[0]), t_y=float(T[1]), t_z=float(T[2])))
            cf3 = columnfile.colfile_from_dict({"sc": s["sc"].copy(), "fc": s["fc"].copy(), "omega": s["omega"].copy(),
                                                "labels": np.zeros(n) - 2, "drlv2": np.ones(n)})
            o2.scannames = ["scan"]
            o2.scandata["scan"] = cf3
            with contextlib.redirect_stdout(io.StringIO()):
                o2.readubis(gfn)
                o2.generate_grains()
                o2.assignlabels(quiet=True)
            run.count("assignlabels_runs_from_a_grain_file")
            # reference from what the file holds (its own print precision) for the grains that have a translation line
            ts3 = [T if g == j0 else np.asarray(back[g].translation, float) for g in range(ng)]
            gvs3 = np.array([np.asarray(geom.forward(p, s["sc"], s["fc"], s["omega"], t_)["g"], float) for t_ in ts3])
            errs3 = ref_errors([np.asarray(b_.ubi, float) for b_ in back], gvs3)
            judge(run, V, errs3, tol, 12, np.asarray(cf3.labels).astype(int), np.asarray(cf3.drlv2, float), 1.0, np.arange(ng),
                  "assignlabels:grain-file-mixed-translations")
        finally:
            os.remove(gfn)
    for nt in (1, 3, 16, 64):
        cImageD11.cimaged11_omp_set_num_threads(nt)
        with contextlib.redirect_stdout(io.StringIO()):
            lab2, d2, _ = build(range(ng))
        run.count("thread_runs")
        if not (np.array_equal(lab2, lab) and np.array_equal(d2, d)):
            V("assignlabels:threads", "labels/errors differ with %d threads" % nt)
    cImageD11.cimaged11_omp_set_num_threads(4)


def check(run, replay=None):
    from ImageD11 import cImageD11, indexing, refinegrains, columnfile, parameters, grain, unitcell
    mods = (cImageD11, refinegrains, columnfile, parameters, grain)
    try:
        with contextlib.redirect_stdout(io.StringIO()), contextlib.redirect_stderr(io.StringIO()):
            from ImageD11.nbGui import nb_utils
    except Exception as e:      # optional GUI dependencies: the helper's loop is then not observable here
        nb_utils = None
        run.extra["nb_utils_import_failed"] = repr(e)
    imods = (cImageD11, indexing, unitcell, columnfile, grain, nb_utils)
    if replay is not None:
        cs = replay["case"]
        if cs.get("route") == "refinegrains":
            scenario_refinegrains(run, replay["seed"], cs["index"], mods)
        elif cs.get("route") == "exact":
            scenario_exact(run, replay["seed"], cs["index"], cImageD11)
        elif cs.get("route") == "indexer":
            scenario_indexer(run, replay["seed"], cs["index"], imods)
        else:
            scenario_direct(run, replay["seed"], cs["index"], cImageD11, indexing)
        run.nontrivial.update(["replay", "replay2"])
        return
    nd, nr, nx, ni = (120, 30, 100, 24) if run.tier == "quick" else (1200, 500, 3000, 600)
    # VERIF_C07_FRACTION=<0..1> runs a reduced thorough tier (same generators, fewer scenarios) for a loaded machine; the
    # fraction is recorded in the evidence
    frac = float(os.environ.get("VERIF_C07_FRACTION", "1") or 1)
    if run.tier != "quick" and 0 < frac < 1:
        nd, nr, nx, ni = [max(30, int(x * frac)) for x in (nd, nr, nx, ni)]
        run.extra["thorough_fraction"] = frac
    for i in range(nx):
        scenario_exact(run, run.seed, i, cImageD11)
    for i in range(ni):
        scenario_indexer(run, run.seed, i, imods)
    for i in range(nd):
        scenario_direct(run, run.seed, i, cImageD11, indexing)
    for i in range(nr):
        scenario_refinegrains(run, run.seed, i, mods)
    run.extra["thread_counts"] = list(THREADS)
    # controlled scheduler (vrt.c): score_and_assign at chunk-boundary peak counts, 2..64 threads, seeded interleavings;
    # every result must equal the sequential single-thread one
    if not os.environ.get("VERIF_ASAN_RERUN"):
        from .. import sched_kernels
        sched_kernels.attach(run, ["score_and_assign"], 24 if run.tier == "quick" else 240,
                             [[1, 0], [2, 4], [4, 1], [7, 4], [64, 1]], "score_and_assign")
        run.require_counter("sched_determinism_comparisons", 20)
    run.extra["schedule_control"] = "real libgomp stress + controlled scheduler (vrt.c) for score_and_assign"
    run.require_counter("labels_judged", 10000)
    run.require_counter("competing_peaks", 100)
    run.require_counter("thread_runs", 100)
    run.require_counter("assignlabels_runs", 5)
    run.require_counter("multiscan_runs", 3)
    run.require_counter("return_values_judged", 200)
    run.require_counter("stale_labels_released", 1000)
    run.require_counter("initial_labels_zeros", 5)
    run.require_counter("initial_labels_random-names", 5)
    run.require_counter("exact_errors_at_tolerance", 100)
    run.require_counter("exact_ties", 10)
    run.require_counter("saveindexing_grains_checked", 20)
    run.require_counter("getind_calls", 20)
    run.require_counter("fight_over_peaks_empty_list", 5)
    if nb_utils is not None:
        run.require_counter("nb_utils_assign_runs", 5)
    # keep the evidence readable: fold the (class, grain count) table into one coverage entry
    cls = {k: v for k, v in run.counters.items() if k.startswith("class_")}
    for k in cls:
        del run.counters[k]
    run.extra["class_x_ngrains_scenarios"] = cls
    seen_cls = {c: sorted(int(k.split("_ng")[1]) for k in cls if k.startswith("class_%s_ng" % c)) for c in CLASSES}
    for c, ngs in seen_cls.items():
        if len(ngs) < 5:
            run.inconc("grain class %s only ran with grain counts %r" % (c, ngs))


# workloads added in seeding rounds 7-10 (DESIGN.md sections 13.9-13.12)
LEVEL_TEXT = LEVEL_TEXT + ' Later additions: tolerances 0.7 and 0.9 (3-D error up to sqrt(3)/2); peak lists of 1-4 g-vectors on the indexer route.'
LEVEL_TEXT = LEVEL_TEXT + ' Round 11: grains read from a grain file in which only some carry a translation line (readubis -> generate_grains -> assignlabels).'
