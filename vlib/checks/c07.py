"""C07 - every peak goes to its best-fitting grain, whatever the order or threads.

Oracle: arg-min reference over all grains (longdouble) with tie/margin
handling, histogram conservation, permutation differential and OpenMP
thread-count differential (real libgomp, 1..64 threads).  Observed through
cImageD11.score_and_assign, indexer.fight_over_peaks and
refinegrains.assignlabels (per-grain translations => per-grain g-vectors, which
the reference recomputes with the harness geometry model).
"""
import itertools
import numpy as np
from .. import xtal, sim, geom
from ..common import rng

TECHNIQUE = ("runtime reference-model monitor: arg-min over all grains recomputed in longdouble with tie/margin sets; "
             "conservation ledger (sum of per-grain counts + unassigned = peaks); grain-order permutation differential; "
             "OpenMP thread-count differential on real libgomp (1..64 threads, chunk-boundary peak counts)")
LEVEL_TEXT = ("Exploration: scenarios with 1..50 UBIs (independent, near-duplicate, twin-related), 1..1e5 peaks crossing "
              "the 4096 static chunk size, all tolerances; every label/error/count is compared with the arg-min reference; all "
              "permutations for <=4 grains and random ones otherwise; each scenario is re-run with 1,2,3,4,7,8,16,32,64 threads for "
              "bit-equality. The instrumented scheduler / TSan tiers for this kernel are part of C20/C13 machinery.")
LEVEL_NOTE = ("Trusts numpy longdouble and the harness geometry model; ties = errors within the double-rounding band (1e-9 relative + 1e-11(1+|h|)sqrt(err)) of "
              "the minimum; tolerance margin as in C06; thread schedules are those the OS produces (no schedule control here).")

RULE = ("a scenario = (grain set class, n peaks, tol, noise); non-trivial = at least one peak is indexed within tolerance by two or "
        "more grains (competition) ; distinct = (class, ngrains, npeaks, tol, noise, route)")

LD = np.longdouble
THREADS = (1, 2, 3, 4, 7, 8, 16, 32, 64)


def ref_errors(ubis, gvs):
    """gvs: (ng, n, 3) per-grain g-vectors or (n,3) shared.  returns (ng, n) longdouble drlv2"""
    out = []
    for i, u in enumerate(ubis):
        gv = gvs[i] if gvs.ndim == 3 else gvs
        h = np.asarray(gv, LD) @ np.asarray(u, LD).T
        d = h - np.rint(h)
        out.append((d * d).sum(axis=1))
    return np.array(out)


def judge(run, V, errs, tol, hmax, labels, drlv2, init, names, route):
    """labels: array of grain *names* (or -1).  errs (ng,n)."""
    ng, n = errs.shape
    t2 = LD(tol) * LD(tol)
    bw = 1e-9 * tol * tol + 1e-11 * (1.0 + hmax) * tol
    emin = errs.min(axis=0)
    # double rounding of h - rint(h) is ~eps.|h|, so errors closer than this are a tie
    tie_tol = 1e-9 * emin + 1e-11 * (1.0 + hmax) * np.sqrt(emin) + 1e-22
    winners = errs <= (emin + tie_tol)[None, :]
    certain_in = emin < t2 - bw
    certain_out = emin > t2 + bw
    names = np.asarray(names)
    lab = np.asarray(labels)
    run.count("labels_judged", n)
    # unassigned although a grain indexes it
    bad = certain_in & (lab == -1)
    if bad.any():
        k = int(np.nonzero(bad)[0][0])
        V(route + ":unassigned-but-indexed", "peak %d is within tolerance of grain %r (err %.3g < tol^2 %.3g) but unassigned"
          % (k, names[int(np.argmin(errs[:, k]))], float(emin[k]), float(t2)), k)
    bad = certain_out & (lab != -1)
    if bad.any():
        k = int(np.nonzero(bad)[0][0])
        V(route + ":assigned-but-not-indexed", "peak %d labelled %r but no grain indexes it (min err %.3g >= tol^2 %.3g)"
          % (k, lab[k], float(emin[k]), float(t2)), k)
    # label must be one of the winners
    pos = {nm: i for i, nm in enumerate(names.tolist())}
    assigned = np.nonzero(lab != -1)[0]
    unknown = [k for k in assigned if lab[k] not in pos]
    if unknown:
        V(route + ":unknown-label", "label %r is not a grain" % (lab[unknown[0]],), int(unknown[0]))
        return
    gi = np.array([pos[x] for x in lab[assigned]], int)
    okw = winners[gi, assigned]
    if not okw.all():
        k = int(assigned[np.nonzero(~okw)[0][0]])
        V(route + ":not-best-grain", "peak %d labelled %r (err %.6g) but grain %r fits better (err %.6g)"
          % (k, lab[k], float(errs[pos[lab[k]], k]), names[int(np.argmin(errs[:, k]))], float(emin[k])), k)
    # stored error = minimum
    if drlv2 is not None:
        d = np.asarray(drlv2, LD)
        e = np.abs(d[assigned] - emin[assigned])
        tl = 1e-9 * emin[assigned] + 1e-11 * (1 + hmax) * np.sqrt(emin[assigned]) + 1e-22
        if (e > tl).any():
            k = int(assigned[np.nonzero(e > tl)[0][0]])
            V(route + ":stored-error", "stored error %r of peak %d != minimum %r" % (float(d[k]), k, float(emin[k])), k)
        un = np.nonzero((lab == -1) & certain_out)[0]
        if len(un) and init is not None and not (np.asarray(drlv2)[un] == init).all():
            V(route + ":unassigned-error-changed", "error of a never-assigned peak changed from its initial value", int(un[0]))
    competing = int(((errs < t2 - bw).sum(axis=0) >= 2).sum())
    return competing


def gen_grains(r, cls, ng):
    cell = xtal.random_cell(r, ["cubic", "hexagonal", "orthorhombic", "triclinic"][int(r.integers(4))], 3.0, 8.0)
    B = xtal.Bmat(cell)
    UBs = []
    for i in range(ng):
        if cls == "independent" or i == 0:
            UBs.append(xtal.random_rotation(r) @ B)
        elif cls == "near-duplicate":
            UBs.append(xtal.rot_axis_angle(r.normal(size=3), 10 ** r.uniform(-5, -2)) @ UBs[int(r.integers(i))])
        elif cls == "twin":
            # rotation by 60 deg about [111] / 180 about an axis: shares a sub-lattice for cubic
            ax = np.array(UBs[0]) @ np.array([1.0, 1.0, 1.0])
            ang = np.radians([60, 180, 120, 90][i % 4])
            UBs.append(xtal.rot_axis_angle(ax, ang) @ UBs[int(r.integers(i))])
        elif cls == "exact-duplicate":
            UBs.append(UBs[int(r.integers(i))].copy())
    return cell, UBs


def scenario_direct(run, seed, idx, cImageD11, indexing):
    r = rng(seed, "C07", "d", idx)
    cls = ["independent", "near-duplicate", "twin", "exact-duplicate"][idx % 4]
    ng = int([1, 2, 3, 4, 5, 8, 20, 50][idx % 8])
    sizes = [1, 17, 300, 4095, 4096, 4097, 8191, 8193, 12289, 1000]
    n = int(sizes[idx % len(sizes)])
    if idx % 41 == 5:
        n = 100000 if run.tier == "thorough" else 30000
    tol = float(r.choice([0.01, 0.05, 0.1, 0.25, 0.5]))
    noise = float(r.choice([0.0, 1e-3, 0.02, 0.1]))
    cell, UBs = gen_grains(r, cls, ng)
    ubis = [np.ascontiguousarray(np.linalg.inv(u)) for u in UBs]
    hmax = 6
    own = r.integers(0, ng, n)
    h = r.integers(-hmax, hmax + 1, (n, 3)).astype(float)
    gv = np.empty((n, 3))
    for g in range(ng):
        m = own == g
        gv[m] = (h[m] + r.normal(0, 1, (int(m.sum()), 3)) * noise) @ UBs[g].T
    junk = r.random(n) < 0.15
    gv[junk] = r.uniform(-1, 1, (int(junk.sum()), 3))
    gv = np.ascontiguousarray(gv)
    desc = dict(index=idx, route="direct", cls=cls, ngrains=ng, npeaks=n, tol=tol, noise=noise, cell=cell)
    errs = ref_errors(ubis, gv)
    names = np.arange(ng)

    def V(key, what, peak=None):
        run.violation(key, what, dict(desc, peak=peak))

    def run_assign(order, nthreads):
        cImageD11.cimaged11_omp_set_num_threads(nthreads)
        drlv2 = np.full(n, 2.0)
        labels = np.full(n, -1, np.int32)
        rets = []
        for g in order:
            rets.append(int(cImageD11.score_and_assign(ubis[g], gv, tol, drlv2, labels, int(g))))
        return labels, drlv2, rets

    lab1, d1, rets1 = run_assign(range(ng), 1)
    competing = judge(run, V, errs, tol, hmax + 1, lab1, d1, 2.0, names, "score_and_assign")
    run.case((cls, ng, n, tol, noise, "direct"), nontrivial=bool(competing),
             sample=dict(desc, competing_peaks=competing))
    run.count("competing_peaks", competing or 0)
    # conservation
    cnt = np.bincount(lab1[lab1 >= 0], minlength=ng)
    if cnt.sum() + int((lab1 == -1).sum()) != n:
        V("score_and_assign:conservation", "counts do not add up")
    # threads
    for nt in THREADS[1:]:
        lab, d, rets = run_assign(range(ng), nt)
        run.count("thread_runs")
        if not (np.array_equal(lab, lab1) and np.array_equal(d, d1) and rets == rets1):
            V("score_and_assign:threads", "labels/errors/return values with %d threads differ from 1 thread" % nt)
            break
    cImageD11.cimaged11_omp_set_num_threads(4)
    # grain order: compare on peaks without (near-)ties
    e_sorted = np.sort(errs, axis=0)
    uniq = np.ones(n, bool) if ng == 1 else (e_sorted[1] - e_sorted[0] > 1e-8 * e_sorted[1] + 1e-10 * (2.0 + hmax) * np.sqrt(e_sorted[1]) + 1e-18)
    perms = list(itertools.permutations(range(ng))) if ng <= 4 else \
        [list(r.permutation(ng)) for _ in range(6 if run.tier == "quick" else 20)]
    for pm in perms[1:] if ng <= 4 else perms:
        lab, d, rets = run_assign(pm, 4)
        run.count("permutation_runs")
        judge(run, V, errs, tol, hmax + 1, lab, d, 2.0, names, "score_and_assign")
        if not np.array_equal(lab[uniq], lab1[uniq]) or not np.array_equal(d[uniq], d1[uniq]):
            k = int(np.nonzero(uniq & ((lab != lab1) | (d != d1)))[0][0])
            V("score_and_assign:order-dependent", "peak %d: label %r with grain order %r but %r with natural order (no tie)"
              % (k, lab[k], list(pm), lab1[k]), k)
            break
    # the same through indexer.fight_over_peaks
    import logging
    logging.disable(logging.CRITICAL)
    try:
        ix = indexing.indexer(unitcell=None, gv=gv, hkl_tol=tol)
    finally:
        logging.disable(logging.NOTSET)
    ix.ubis = [u.copy() for u in ubis]
    ix.fight_over_peaks()
    run.count("fight_over_peaks_runs")
    judge(run, V, errs, tol, hmax + 1, ix.ga, ix.drlv2, 2.0, names, "fight_over_peaks")
    if not np.array_equal(np.asarray(ix.gas), np.bincount(ix.ga[ix.ga >= 0], minlength=ng)):
        V("fight_over_peaks:gas", "per-grain counts %r != histogram of labels" % (list(ix.gas),))
    if int(np.sum(ix.gas)) + int((ix.ga == -1).sum()) != n:
        V("fight_over_peaks:conservation", "sum(gas) + unassigned != npeaks")


def scenario_refinegrains(run, seed, idx, mods):
    cImageD11, refinegrains, columnfile, parameters, grain = mods
    r = rng(seed, "C07", "r", idx)
    bits = int(r.integers(2048)) & ~(0b111 << 6)   # t_x.. handled per grain
    p = sim.default_pars(r, bits=bits)
    kind = ["cubic", "hexagonal", "tetragonal"][idx % 3]
    cell = xtal.random_cell(r, kind, 3.5, 6.0)
    sym = "F" if kind == "cubic" else "P"
    ng = int([1, 2, 3, 5][idx % 4])
    B = xtal.Bmat(cell)
    grains = []
    for g in range(ng):
        S = xtal.random_sym_stretch(r, 1e-3)
        t = r.uniform(-300, 300, 3)
        if idx % 5 == 0 and g > 0:       # near-duplicate orientation, different place
            UB = xtal.rot_axis_angle(r.normal(size=3), 2e-3) @ grains[0][0]
        else:
            UB = xtal.random_rotation(r) @ S @ B
        grains.append((UB, t))
    if idx % 6 == 1 and ng > 1:
        grains[-1] = (grains[-1][0], grains[0][1].copy())      # first and last grain share a position (e.g. a twin pair)
    dsm = min(sim.dsmax_on_detector(p), 4.5 / cell[0] if kind == "cubic" else 2.2 / min(cell[:3]) * 1.0 + 0.3)
    hk, _ = sim.make_hkls(cell, sym, dsm)
    s = sim.simulate(p, grains, hk)
    if s is None or len(s["sc"]) < 5:
        run.count("refinegrains_skipped")
        return
    n = len(s["sc"])
    tol = float(r.choice([0.02, 0.05, 0.1]))
    desc = dict(index=idx, route="refinegrains", ngrains=ng, npeaks=n, tol=tol, pars=p, cell=cell)
    names = list(r.permutation(ng)) if idx % 2 else list(range(ng))   # grain names need not be 0..n-1 in order
    multiscan = idx % 2 == 1
    perm2 = r.permutation(n)

    def build(order):
        o = refinegrains.refinegrains(tolerance=tol, OmFloat=False)
        o.parameterobj = parameters.parameters(**p)
        cf = columnfile.colfile_from_dict({"sc": s["sc"].copy(), "fc": s["fc"].copy(), "omega": s["omega"].copy(),
                                           "labels": np.zeros(n) - 2, "drlv2": np.ones(n)})
        o.scannames = ["scan"]
        o.scandata["scan"] = cf
        o.grainnames = [int(names[g]) for g in order]
        for g in order:
            o.grains[(int(names[g]), "scan")] = grain.grain(np.linalg.inv(grains[g][0]), translation=grains[g][1].copy())
        if multiscan:
            # a second scan holding the same peaks in another order: every scan must be labelled on its own merits
            cf2 = columnfile.colfile_from_dict({"sc": s["sc"][perm2].copy(), "fc": s["fc"][perm2].copy(),
                                                "omega": s["omega"][perm2].copy(), "labels": np.zeros(n) - 2,
                                                "drlv2": np.ones(n)})
            o.scannames = ["scan0", "scan"] if idx % 4 == 1 else ["scan", "scan0"]
            o.scandata["scan0"] = cf2
            for g in order:
                o.grains[(int(names[g]), "scan0")] = grain.grain(np.linalg.inv(grains[g][0]), translation=grains[g][1].copy())
        o.assignlabels(quiet=True)
        if multiscan:
            l2 = np.empty(n, int)
            d2_ = np.empty(n)
            l2[perm2] = np.asarray(cf2.labels).astype(int)
            d2_[perm2] = np.asarray(cf2.drlv2, float)
            o._second = (l2, d2_)
        return np.asarray(cf.labels).astype(int), np.asarray(cf.drlv2, float), o

    def V(key, what, peak=None):
        run.violation(key, what, dict(desc, peak=peak))

    # reference: per-grain g-vectors from the harness geometry model
    gvs = np.array([np.asarray(geom.forward(p, s["sc"], s["fc"], s["omega"], t)["g"], float) for (_, t) in grains])
    ubis = [np.linalg.inv(u) for (u, _) in grains]
    errs = ref_errors(ubis, gvs)
    import io, contextlib
    with contextlib.redirect_stdout(io.StringIO()):
        lab, d, o = build(range(ng))
    competing = judge(run, V, errs, tol, 12, lab, d, 1.0, np.array(names), "assignlabels")
    run.count("assignlabels_runs")
    if multiscan:
        run.count("multiscan_runs")
        l2, d2_ = o._second
        judge(run, V, errs, tol, 12, l2, d2_, 1.0, np.array(names), "assignlabels:second-scan")
        if not np.array_equal(l2, lab):
            k = int(np.nonzero(l2 != lab)[0][0])
            V("assignlabels:scan-dependent", "the same peak gets label %r in one scan and %r in the other scan of one "
              "refinegrains object" % (lab[k], l2[k]), k)
    run.case(("refinegrains", ng, n, tol, kind), nontrivial=bool(competing) or ng > 1,
             sample=dict(index=idx, route="refinegrains", ngrains=ng, npeaks=n, tol=tol, competing_peaks=competing))
    # ground truth: noise free, so every peak's generator fits with ~0 error
    gen = np.array([names[g] for g in s["gid"]])
    e_sorted = np.sort(errs, axis=0)
    uniq = np.ones(n, bool) if ng == 1 else (e_sorted[1] - e_sorted[0] > 1e-8 * e_sorted[1] + 1e-10 * 13 * np.sqrt(e_sorted[1]) + 1e-16)
    if not np.array_equal(lab[uniq], gen[uniq]):
        k = int(np.nonzero(uniq & (lab != gen))[0][0])
        V("assignlabels:not-generator", "noise-free peak %d simulated from grain %r labelled %r" % (k, gen[k], lab[k]), k)
    # per-grain npks = histogram
    for g in range(ng):
        gr = o.grains[(int(names[g]), "scan")]
        if int(gr.npks) != int((lab == names[g]).sum()) or not np.array_equal(np.sort(gr.ind), np.nonzero(lab == names[g])[0]):
            V("assignlabels:npks", "grain %r npks %d != histogram %d" % (names[g], gr.npks, int((lab == names[g]).sum())))
    # grain order and thread count
    for pm in ([list(range(ng))[::-1]] + [list(r.permutation(ng)) for _ in range(2)]) if ng > 1 else []:
        with contextlib.redirect_stdout(io.StringIO()):
            lab2, d2, _ = build(pm)
        run.count("permutation_runs")
        if not np.array_equal(lab2[uniq], lab[uniq]):
            V("assignlabels:order-dependent", "labels depend on the order of grains")
    for nt in (1, 3, 16, 64):
        cImageD11.cimaged11_omp_set_num_threads(nt)
        with contextlib.redirect_stdout(io.StringIO()):
            lab2, d2, _ = build(range(ng))
        run.count("thread_runs")
        if not (np.array_equal(lab2, lab) and np.array_equal(d2, d)):
            V("assignlabels:threads", "labels/errors differ with %d threads" % nt)
    cImageD11.cimaged11_omp_set_num_threads(4)


def check(run, replay=None):
    from ImageD11 import cImageD11, indexing, refinegrains, columnfile, parameters, grain
    mods = (cImageD11, refinegrains, columnfile, parameters, grain)
    if replay is not None:
        cs = replay["case"]
        if cs.get("route") == "refinegrains":
            scenario_refinegrains(run, replay["seed"], cs["index"], mods)
        else:
            scenario_direct(run, replay["seed"], cs["index"], cImageD11, indexing)
        run.nontrivial.update(["replay", "replay2"])
        return
    nd, nr = (120, 30) if run.tier == "quick" else (2500, 500)
    for i in range(nd):
        scenario_direct(run, run.seed, i, cImageD11, indexing)
    for i in range(nr):
        scenario_refinegrains(run, run.seed, i, mods)
    run.extra["thread_counts"] = list(THREADS)
    # controlled scheduler (vrt.c): score_and_assign at chunk-boundary peak counts, 2..64 threads, seeded interleavings;
    # every result must equal the sequential single-thread one
    import os
    if not os.environ.get("VERIF_ASAN_RERUN"):
        from .. import sched_kernels
        sched_kernels.attach(run, ["score_and_assign"], 24 if run.tier == "quick" else 240,
                             [[1, 0], [2, 4], [4, 1], [7, 4], [64, 1]], "score_and_assign")
        run.require_counter("sched_determinism_comparisons", 20)
    run.extra["schedule_control"] = "real libgomp stress + controlled scheduler (vrt.c) for score_and_assign"
    run.require_counter("labels_judged", 10000)
    run.require_counter("competing_peaks", 100)
    run.require_counter("thread_runs", 100)
    run.require_counter("assignlabels_runs", 5)
    run.require_counter("multiscan_runs", 3)
