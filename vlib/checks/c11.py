"""C11 - threshold labelling yields exactly the connected components.

Oracle: scipy.ndimage.label + an independent BFS (small images) as reference
component labelling; partition equality via canonical relabelling; dense,
sparse and splat variants on the same pixels; OpenMP relabel loop at 1..64
threads; independence from the previous content of the label buffer.
"""
import numpy as np
from .. import imgs
from ..common import rng

TECHNIQUE = ("runtime reference-model monitor: connected components by scipy.ndimage.label and an independent BFS; "
             "partition-equality checker on cImageD11.connectedpixels (8/4 connectivity), sparse_connectedpixels, "
             "sparse_connectedpixels_splat, sparseframe.sparse_connected_pixels; thread-count and buffer-poison differentials")
LEVEL_TEXT = ("Exploration: shapes 2x2..512x512 incl. 2xN/Nx2 and non-square; fill classes empty/full/Bernoulli/blobs/comb/U-comb/"
              "vee/spiral/diagonal/border; 4-connected checkerboards up to 512x512 (131072 provisional labels, several reallocations of "
              "the disjoint-set table); values equal to the threshold. Every output is checked for the background rule, label range 1..n, "
              "return value and partition equality with the reference; dense relabel loop re-run at 1..64 threads and with poisoned label "
              "buffers.")
LEVEL_NOTE = ("Trusts scipy.ndimage.label (cross-checked against the harness BFS on every image up to 64x64); the splat variant is "
              "compared on above-threshold pixels only because it leaves the labels of the others untouched (observation).")

RULE = ("a case = (shape, fill class, threshold, connectivity); non-trivial = at least two components and one component of >= 2 "
        "pixels; distinct = (shape, fill class, connectivity, hash of mask)")

THREADS = (1, 2, 3, 8, 16, 64)


def shapes_for(tier, r, idx):
    small = [(2, 2), (2, 3), (3, 2), (2, 17), (17, 2), (3, 3), (5, 7), (8, 8), (16, 31), (33, 16), (64, 64), (63, 65)]
    big = [(128, 96), (200, 256), (256, 256), (512, 512), (511, 513), (2, 4096), (4096, 2)]
    if idx % 9 == 8:
        return big[(idx // 9) % len(big)]
    return small[idx % len(small)]


def check_labels(run, V, route, labels, n, mask, con8, ref=None):
    labels = np.asarray(labels)
    run.count("label_arrays_checked")
    bg = labels[~mask]
    if bg.size and (bg != 0).any():
        V(route + ":background-labelled", "pixel not above threshold carries label %d" % int(bg[bg != 0][0]))
        return
    fg = labels[mask]
    if fg.size and (fg <= 0).any():
        V(route + ":foreground-unlabelled", "above-threshold pixel carries label %d" % int(fg[fg <= 0][0]))
        return
    u = np.unique(fg)
    if len(u) != n or (n and (u[0] != 1 or u[-1] != n)):
        V(route + ":label-range", "labels used %r..%r (%d distinct) but returned count is %d"
          % (int(u[0]) if len(u) else None, int(u[-1]) if len(u) else None, len(u), n))
        return
    if ref is None:
        ref = imgs.ref_label(mask, con8)
    rl, rn = ref
    if rn != n:
        V(route + ":count", "%d labels, reference has %d components" % (n, rn))
        return
    if not np.array_equal(imgs.canon(labels), imgs.canon(rl)):
        V(route + ":partition", "labels do not induce the connected-component partition")


def one_case(run, seed, idx, mods):
    cImageD11, sparseframe = mods
    r = rng(seed, "C11", idx)
    shape = shapes_for(run.tier, r, idx)
    kind = imgs.MASK_KINDS[(idx // 3) % len(imgs.MASK_KINDS)]
    if idx % 37 == 5:
        shape, kind = ((512, 512) if run.tier == "thorough" or idx % 74 == 5 else (300, 300)), "checker"
    mask = imgs.gen_mask(r, shape, kind)
    thr = float(r.choice([0.0, 10.0, -3.0, 1000.5]))
    img = imgs.image_from_mask(r, mask, thr)
    desc = dict(index=idx, shape=shape, kind=kind, threshold=thr)

    def V(key, what):
        run.violation(key, what, desc)

    refs = {c: imgs.ref_label(mask, c) for c in (True, False)}
    if max(shape) <= 64:
        for c in (True, False):
            bl, bn = imgs.bfs_label(mask, c)
            run.count("bfs_crosschecks")
            if bn != refs[c][1] or not np.array_equal(imgs.canon(bl), imgs.canon(refs[c][0])):
                run.inconc("reference labellers disagree (scipy vs BFS) on case %d" % idx)
                return
    n8 = refs[True][1]
    sizes = np.bincount(refs[True][0].ravel())[1:] if n8 else np.array([])
    run.case((shape, kind, thr, hash(mask.tobytes())), nontrivial=(n8 >= 2 and sizes.max() >= 2),
             sample=dict(desc, components8=int(n8), components4=int(refs[False][1]), pixels=int(mask.sum())))
    run.setmax("max_components", int(refs[False][1]))
    # ---- dense, both connectivities, poisoned label buffer, thread counts
    base = {}
    for con8 in (True, False):
        for pi, poison in enumerate((0, -7, 123456)):
            lab = np.full(shape, poison, np.int32)
            n = cImageD11.connectedpixels(img, lab, thr, con8=int(con8))
            if pi == 0:
                base[con8] = (lab.copy(), n)
                check_labels(run, V, "connectedpixels(con8=%d)" % con8, lab, n, mask, con8, refs[con8])
            elif n != base[con8][1] or not np.array_equal(lab, base[con8][0]):
                V("connectedpixels:buffer-dependent", "result depends on the previous content of the labels array")
        if idx % 3 == 0:
            for nt in THREADS:
                cImageD11.cimaged11_omp_set_num_threads(nt)
                lab = np.zeros(shape, np.int32)
                n = cImageD11.connectedpixels(img, lab, thr, con8=int(con8))
                run.count("thread_runs")
                if n != base[con8][1] or not np.array_equal(lab, base[con8][0]):
                    V("connectedpixels:threads", "labels with %d threads differ" % nt)
            cImageD11.cimaged11_omp_set_num_threads(4)
    # default connectivity argument is 8
    lab = np.zeros(shape, np.int32)
    n = cImageD11.connectedpixels(img, lab, thr)
    if n != base[True][1] or not np.array_equal(lab, base[True][0]):
        V("connectedpixels:default-connectivity", "default call is not 8-connected")
    # ---- sparse variants (8-connected) on the same pixels; the sparse frame may also hold pixels <= threshold
    if shape[0] < 65535 and shape[1] < 65535 and mask.any():
        extra = mask | (r.random(shape) < 0.1) if idx % 2 else mask
        fr = sparseframe.from_data_mask(extra.astype(np.int8), img, {})
        sel = mask[fr.row, fr.col]
        v = fr.pixels["intensity"].astype(np.float32)
        for poison in (0, 99):
            sl = np.full(fr.nnz, poison, np.int32)
            ns = cImageD11.sparse_connectedpixels(v, fr.row, fr.col, thr, sl)
            dense = np.zeros(shape, np.int64)
            dense[fr.row, fr.col] = sl
            check_labels(run, V, "sparse_connectedpixels", dense, ns, mask, True, refs[True])
            if (sl[~sel] != 0).any():
                V("sparse_connectedpixels:background-labelled", "sparse pixel not above threshold labelled")
        # python wrapper
        nw = sparseframe.sparse_connected_pixels(fr, threshold=thr)
        dense = np.zeros(shape, np.int64)
        dense[fr.row, fr.col] = fr.pixels["connectedpixels"]
        check_labels(run, V, "sparseframe.sparse_connected_pixels", dense, nw, mask, True, refs[True])
        if fr.meta["connectedpixels"]["nlabel"] != nw:
            V("sparseframe:nlabel", "nlabel metadata != return value")
        # splat variant, scratch Z poisoned
        Z = np.full(shape[0] * shape[1] + 2 * shape[0] + 2 * shape[1] + 4, 0x5A5A5A, np.int32)
        sl = np.zeros(fr.nnz, np.int32)
        nsp = cImageD11.sparse_connectedpixels_splat(v, fr.row, fr.col, thr, sl, Z, shape[0], shape[1])
        dense = np.zeros(shape, np.int64)
        dense[fr.row[sel], fr.col[sel]] = sl[sel]
        check_labels(run, V, "sparse_connectedpixels_splat", dense, nsp, mask, True, refs[True])
        run.count("sparse_runs")


def scan_case(run, seed, idx, sparseframe):
    """SparseScan.cplabel over a multi-frame sparse file (with empty frames): per-frame components, labels unique over
    the scan when countall=True"""
    import os, tempfile, shutil
    from ..common import WORK
    r = rng(seed, "C11", "scan", idx)
    shape = [(8, 9), (32, 20), (64, 64)][idx % 3]
    nfr = int(r.integers(2, 9))
    thr = float(r.choice([0.0, 10.0]))
    frames = []
    for k in range(nfr):
        kind = "empty" if (k == 1 or r.random() < 0.15) else imgs.MASK_KINDS[int(r.integers(len(imgs.MASK_KINDS)))]
        above = imgs.gen_mask(r, shape, kind)
        img = imgs.image_from_mask(r, above, thr)
        stored = above | (r.random(shape) < 0.1) if kind != "empty" else above   # stored pixels may be <= threshold
        frames.append((stored, img, above))
    desc = dict(index=idx, route="SparseScan.cplabel", shape=shape, nframes=nfr, threshold=thr)
    run.case(("scan", shape, nfr, idx), nontrivial=True, sample=desc if idx < 2 else None)
    os.makedirs(os.path.join(WORK, "tmp"), exist_ok=True)
    d = tempfile.mkdtemp(prefix="c11s_", dir=os.path.join(WORK, "tmp"))
    try:
        fn = os.path.join(d, "scan.h5")
        per = imgs.write_sparse_scan(fn, [(f[0], f[1]) for f in frames])
        for countall in (True, False):
            sc = sparseframe.SparseScan(fn, "1.1")
            sc.cplabel(threshold=thr, countall=countall)
            run.count("sparsescan_runs")
            off = 0
            tot = 0
            for k, (stored, img, above) in enumerate(frames):
                s0, e0 = sc.ipt[k], sc.ipt[k + 1]
                lab = np.asarray(sc.labels[s0:e0])
                rl, rn = imgs.ref_label(above, True)
                dense = np.zeros(shape, np.int64)
                dense[per[k][0], per[k][1]] = lab
                ok = sc.nlabels[k] == rn and (dense[~above] == 0).all() and (dense[above] > 0).all() if above.any() else \
                    (sc.nlabels[k] == 0 and (lab == 0).all())
                if ok and rn:
                    got = dense.copy()
                    got[above] -= off
                    ok = np.array_equal(imgs.canon(got), imgs.canon(rl)) and got[above].min() == 1 and got[above].max() == rn
                if not ok:
                    run.violation("SparseScan.cplabel:frame-labels",
                                  "frame %d of %d (countall=%s): labels are not the connected components numbered %d.."
                                  % (k, nfr, countall, off + 1), dict(desc, frame=k, countall=countall))
                    return
                tot += rn
                if countall:
                    off += rn
            if sc.total_labels != tot:
                run.violation("SparseScan.cplabel:total", "total_labels %d != sum of per-frame components %d"
                              % (sc.total_labels, tot), dict(desc, countall=countall))
    finally:
        shutil.rmtree(d, ignore_errors=True)


def check(run, replay=None):
    from ImageD11 import cImageD11, sparseframe
    mods = (cImageD11, sparseframe)
    if replay is not None:
        if replay["case"].get("route") == "SparseScan.cplabel":
            scan_case(run, replay["seed"], replay["case"]["index"], sparseframe)
        else:
            one_case(run, replay["seed"], replay["case"]["index"], mods)
        run.nontrivial.update(["replay", "replay2"])
        return
    n = 400 if run.tier == "quick" else 8000
    for idx in range(n):
        one_case(run, run.seed, idx, mods)
    for idx in range(12 if run.tier == "quick" else 300):
        scan_case(run, run.seed, idx, sparseframe)
    run.require_counter("sparsescan_runs", 10)
    run.extra["thread_counts"] = list(THREADS)
    import os
    if not os.environ.get("VERIF_ASAN_RERUN"):
        from .. import sched_kernels
        sched_kernels.attach(run, ["v_connectedpixels"], 24 if run.tier == "quick" else 240,
                             [[1, 0], [2, 4], [4, 1], [16, 4], [64, 1]], "connectedpixels")
        run.require_counter("sched_determinism_comparisons", 20)
    run.require_counter("label_arrays_checked", 1000)
    run.require_counter("sparse_runs", 100)
    run.require_counter("thread_runs", 100)
    run.require_counter("max_components", 16385)
