"""C11 - threshold labelling yields exactly the connected components.

Oracle: scipy.ndimage.label + an independent BFS (small images) as reference
component labelling; partition equality via canonical relabelling; dense,
sparse and splat variants on the same pixels; OpenMP relabel loop at 1..64
threads; independence from the previous content of the label buffer.

Every case dimension (shape, fill class, threshold, stored-pixel policy, thread differential) is drawn from the
case's own rng(seed, "C11", idx), so every combination can occur; a few residues of idx are stratified so that the
classes that must be seen in every run (4-connected checkerboard, isolated-pixel lattice, large spiral, sparse
coordinates >= 32768) are guaranteed, and run.require_counter turns their absence into "inconclusive".
"""
import io
import numpy as np
from .. import imgs
from ..common import rng

TECHNIQUE = ("runtime reference-model monitor: connected components by scipy.ndimage.label and an independent BFS; "
             "partition-equality checker on cImageD11.connectedpixels (8/4 connectivity), sparse_connectedpixels, "
             "sparse_connectedpixels_splat, sparseframe.sparse_connected_pixels (explicit and metadata threshold, float32 and "
             "uint16 pixels), labelimage.labelpeaks, SparseScan.cplabel; thread-count and buffer-poison differentials")
LEVEL_TEXT = ("Exploration: shapes 2x2..512x512 incl. 2xN/Nx2, non-square and 2x65534/65534x2/3x40000 (sparse coordinates "
              ">= 32768); fill classes empty/full/Bernoulli/blobs/comb/U-comb/vee/spiral/diagonal/border/checkerboard/"
              "isolated-pixel lattice, drawn independently of the shape (spirals, full and empty images up to 512x512); more than "
              "16384 provisional labels (several reallocations of the disjoint-set table) are required to be seen on each of the "
              "dense 4-connected, dense 8-connected, sparse and splat routes; thresholds incl. values float32 cannot represent "
              "with pixels one ulp either side; sparse frames that store pixels <= threshold (incl. frames with nothing above "
              "it). Every output is checked for the background rule, label range 1..n, return value and partition equality with "
              "the reference; dense relabel loop re-run at 1..64 threads and with poisoned label buffers.")
LEVEL_NOTE = ("Trusts scipy.ndimage.label (cross-checked against the harness BFS on every image up to 64x64); the splat variant is "
              "compared on above-threshold pixels only because it leaves the labels of the others untouched (observation). A "
              "threshold that float32 cannot represent is decided only on pixels that are on the same side of the threshold and "
              "of its float32 rounding (the interface takes a C float). Sparse frames with zero stored pixels are rejected by the "
              "f2py wrapper (ValueError) and are not part of the workload. labelimage.labelpeaks is additionally decided on every "
              "frame of C12 (key frame:2d-labels).")

RULE = ("a case = (shape, fill class, threshold, connectivity); non-trivial = at least two components and one component of >= 2 "
        "pixels; distinct = (shape, fill class, connectivity, hash of mask)")

THREADS = (1, 2, 3, 8, 16, 64)

SMALL = [(2, 2), (2, 3), (3, 2), (2, 17), (17, 2), (3, 3), (5, 7), (8, 8), (16, 31), (33, 16), (64, 64), (63, 65)]
BIG = [(128, 96), (200, 256), (256, 256), (300, 300), (512, 512), (511, 513), (2, 4096), (4096, 2)]
WIDE = [(2, 65534), (65534, 2), (3, 40000), (40000, 3)]          # sparse row / column indices >= 32768
KINDS = ["bernoulli", "bernoulli", "bernoulli", "blobs", "blobs", "checker", "comb", "ucomb", "diag", "vee", "spiral",
         "empty", "full", "border", "lattice"]
COARSE_THR = [0.0, 10.0, -3.0, 1000.5]
# thresholds that float32 cannot represent (0.1, 1e-3 and 123.456 round up, 0.7 and 2^24+1 round down)
FINE_THR = [0.1, 0.7, 1e-3, 123.456, 16777217.0]
_spirals = {}


def gen_mask(r, shape, kind):
    if kind == "lattice":        # isolated pixels: one provisional label per pixel for every connectivity and route
        m = np.zeros(shape, bool)
        m[::2, ::2] = True
        return m
    if kind == "spiral":
        n = min(shape)
        if n not in _spirals:
            _spirals[n] = imgs.spiral(n)
        m = np.zeros(shape, bool)
        m[:n, :n] = _spirals[n]
        return m
    return imgs.gen_mask(r, shape, kind)


def draw_case(tier, r, idx):
    """(shape, kind): stratified residues first, everything else from the case rng"""
    large = (512, 512) if tier == "thorough" or idx % 74 in (5, 23) else (300, 300)
    if idx % 37 == 5:
        return large, "checker"        # 4-connected: one provisional label per pixel
    if idx % 37 == 23:
        return large, "lattice"        # 8-connected and sparse routes: > 16384 provisional labels
    if idx % 37 == 31:
        return (BIG[int(r.integers(2, 6))] if tier == "thorough" else (256, 256)), "spiral"
    if idx % 41 == 7:
        return WIDE[int(r.integers(len(WIDE)))], str(r.choice(["bernoulli", "comb", "full", "blobs", "checker", "lattice",
                                                                 "border"]))
    if r.random() < 1 / 9.0:
        shape = BIG[int(r.integers(len(BIG)))]
    else:
        shape = SMALL[int(r.integers(len(SMALL)))]
    return shape, KINDS[int(r.integers(len(KINDS)))]


def image_fine(r, mask, thr):
    """float32 image around a threshold that float32 cannot represent.  t32 = float32(thr) is the nearest float, so
    every float strictly above t32 is > thr and every float strictly below t32 is < thr (thr lies between t32 and
    its neighbour on one side, closer to t32).  The pixel value t32 itself is used only when t32 <= thr: then it is
    "not above" both for the real threshold and for its float32 rounding.  Positive floats order like their bits."""
    t32 = np.float32(thr)
    assert t32 > 0
    base = int(np.array(t32).view(np.int32))
    lo0 = 0 if float(t32) <= thr else 1
    hi = base + r.integers(1, 64, mask.shape)
    lo = base - r.integers(lo0, 5, mask.shape)
    img = np.where(mask, hi, lo).astype(np.int32).view(np.float32)
    assert ((img.astype(np.float64) > thr) == mask).all() and ((img > t32) == mask).all()
    return img


def check_labels(run, V, route, labels, n, mask, con8, ref=None):
    labels = np.asarray(labels)
    run.count("label_arrays_checked")
    bg = labels[~mask]
    if bg.size and (bg != 0).any():
        V(route + ":background-labelled", "pixel not above threshold carries label %d" % int(bg[bg != 0][0]))
        return
    fg = labels[mask]
    if fg.size and (fg <= 0).any():
        V(route + ":foreground-unlabelled", "above-threshold pixel carries label %d" % int(fg[fg <= 0][0]))
        return
    u = np.unique(fg)
    if len(u) != n or (n and (u[0] != 1 or u[-1] != n)):
        V(route + ":label-range", "labels used %r..%r (%d distinct) but returned count is %d"
          % (int(u[0]) if len(u) else None, int(u[-1]) if len(u) else None, len(u), n))
        return
    if ref is None:
        ref = imgs.ref_label(mask, con8)
    rl, rn = ref
    if rn != n:
        V(route + ":count", "%d labels, reference has %d components" % (n, rn))
        return
    if not np.array_equal(imgs.canon(labels), imgs.canon(rl)):
        V(route + ":partition", "labels do not induce the connected-component partition")


def one_case(run, seed, idx, mods, tier=None):
    cImageD11, sparseframe, labelimage = mods
    tier = tier or run.tier
    r = rng(seed, "C11", idx)
    shape, kind = draw_case(tier, r, idx)
    mask = gen_mask(r, shape, kind)
    fine = r.random() < 0.2
    if fine:
        thr = float(FINE_THR[int(r.integers(len(FINE_THR)))])
        img = image_fine(r, mask, thr)
        run.count("fine_threshold_cases")
    else:
        thr = float(COARSE_THR[int(r.integers(len(COARSE_THR)))])
        img = imgs.image_from_mask(r, mask, thr)
    threads = r.random() < (0.5 if max(shape) > 65 else 1 / 3.0)
    desc = dict(index=idx, shape=shape, kind=kind, threshold=thr, tier=tier)

    def V(key, what):
        run.violation(key, what, desc)

    refs = {c: imgs.ref_label(mask, c) for c in (True, False)}
    if max(shape) <= 64:
        for c in (True, False):
            bl, bn = imgs.bfs_label(mask, c)
            run.count("bfs_crosschecks")
            if bn != refs[c][1] or not np.array_equal(imgs.canon(bl), imgs.canon(refs[c][0])):
                run.inconc("reference labellers disagree (scipy vs BFS) on case %d" % idx)
                return
    n8 = refs[True][1]
    sizes = np.bincount(refs[True][0].ravel())[1:] if n8 else np.array([])
    run.case((shape, kind, thr, hash(mask.tobytes())), nontrivial=(n8 >= 2 and sizes.max() >= 2),
             sample=dict(desc, components8=int(n8), components4=int(refs[False][1]), pixels=int(mask.sum())))
    # the number of provisional labels is at least the number of components: > 16384 components on a route means
    # that route went through the reallocation of the disjoint-set table
    run.setmax("max_components", int(refs[False][1]))
    run.setmax("max_components8_dense", int(n8))
    if max(shape) >= 256 and kind in ("spiral", "full", "empty"):
        run.count("large_%s_images" % kind)
    # ---- dense, both connectivities, poisoned label buffer, thread counts
    base = {}
    for con8 in (True, False):
        for pi, poison in enumerate((0, -7, 123456)):
            lab = np.full(shape, poison, np.int32)
            n = cImageD11.connectedpixels(img, lab, thr, con8=int(con8))
            if pi == 0:
                base[con8] = (lab.copy(), n)
                check_labels(run, V, "connectedpixels(con8=%d)" % con8, lab, n, mask, con8, refs[con8])
            elif n != base[con8][1] or not np.array_equal(lab, base[con8][0]):
                V("connectedpixels:buffer-dependent", "result depends on the previous content of the labels array")
        if threads:
            if max(shape) >= 256:
                run.count("thread_runs_large_images")
            for nt in THREADS:
                cImageD11.cimaged11_omp_set_num_threads(nt)
                lab = np.zeros(shape, np.int32)
                n = cImageD11.connectedpixels(img, lab, thr, con8=int(con8))
                run.count("thread_runs")
                if n != base[con8][1] or not np.array_equal(lab, base[con8][0]):
                    V("connectedpixels:threads", "labels with %d threads differ" % nt)
            cImageD11.cimaged11_omp_set_num_threads(4)
    # default connectivity argument is 8
    lab = np.zeros(shape, np.int32)
    n = cImageD11.connectedpixels(img, lab, thr)
    if n != base[True][1] or not np.array_equal(lab, base[True][0]):
        V("connectedpixels:default-connectivity", "default call is not 8-connected")
    # label images as callers may hold them (numpy's default int64, Fortran order, a window of a larger image): the
    # wrapper either refuses them or the caller's own array carries the labels - never a silently filled temporary
    if r.random() < 0.3 and mask.any():
        for variant in ("int64", "fortran", "window", "int16"):
            if variant == "int64":
                lv = np.zeros(shape, np.int64)
            elif variant == "int16":
                lv = np.zeros(shape, np.int16)
            elif variant == "fortran":
                lv = np.asfortranarray(np.zeros(shape, np.int32))
                if lv.flags.c_contiguous:
                    continue
            else:
                lv = np.zeros((shape[0] + 2, shape[1] + 3), np.int32)[1:-1, 2:-1]
            try:
                nv = cImageD11.connectedpixels(img, lv, thr, 0, 1)
            except Exception:
                run.count("label_array_variants_refused")
                continue
            run.count("label_array_variants_accepted")
            check_labels(run, V, "connectedpixels:label-array-" + variant, lv, nv, mask, True, refs[True])
    # labelimage.labelpeaks (8-connected, labels in lio.blim)
    if r.random() < 0.25:
        lio = labelimage.labelimage(shape, fileout=io.StringIO(), sptfile=io.StringIO())
        lio.labelpeaks(img, thr)
        run.count("labelpeaks_runs")
        check_labels(run, V, "labelimage.labelpeaks", lio.blim, lio.npk, mask, True, refs[True])
        # the same object over a series of frames (this is how it is used): a frame with nothing above the threshold,
        # a thresholded copy of the first frame, the first frame again - the label image and the count must be those of
        # the frame just given, whatever the object held before
        series = [(np.full(shape, thr - 1.0, np.float32), "empty"),
                  (np.where(r.random(shape) < 0.5, img, np.float32(thr - 1.0)).astype(np.float32), "thinned"),
                  (np.full(shape, thr, np.float32), "at-threshold"),
                  (img, "again")]
        for fimg, what in series:
            fmask = fimg > thr
            lio.labelpeaks(fimg, thr)
            run.count("labelpeaks_history_frames")
            fref = imgs.ref_label(fmask, True) if fmask.any() else (np.zeros(shape, np.int32), 0)
            check_labels(run, V, "labelimage.labelpeaks:history(%s)" % what, lio.blim, lio.npk, fmask, True, fref)
    # ---- sparse variants (8-connected) on the same pixels; the sparse frame may also hold pixels <= threshold:
    # policy 0 stores exactly the pixels above threshold, 1 adds 10% others, 2 stores every pixel, 3 (only when
    # nothing is above threshold) stores 30% of the pixels - a frame with stored pixels and no component
    policy = int(r.integers(0, 3))
    if not mask.any():
        policy = 3
    stored = {0: mask, 1: None, 2: np.ones(shape, bool), 3: None}[policy]
    if stored is None:
        stored = mask | (r.random(shape) < (0.1 if policy == 1 else 0.3))
        if policy == 3 and not stored.any():
            stored[0, 0] = True
    if shape[0] < 65535 and shape[1] < 65535 and stored.any():
        fr = sparseframe.from_data_mask(stored.astype(np.int8), img, {})
        sel = mask[fr.row, fr.col]
        v = fr.pixels["intensity"].astype(np.float32)
        if not sel.any():
            run.count("sparse_frames_nothing_above_threshold")
        if int(fr.row.max()) >= 32768 or int(fr.col.max()) >= 32768:
            run.count("sparse_frames_coordinate_ge_32768")
        for poison in (0, 99):
            sl = np.full(fr.nnz, poison, np.int32)
            ns = cImageD11.sparse_connectedpixels(v, fr.row, fr.col, thr, sl)
            dense = np.zeros(shape, np.int64)
            dense[fr.row, fr.col] = sl
            check_labels(run, V, "sparse_connectedpixels", dense, ns, mask, True, refs[True])
            if (sl[~sel] != 0).any():
                V("sparse_connectedpixels:background-labelled", "sparse pixel not above threshold labelled")
        run.setmax("max_components8_sparse", int(n8))
        # python wrapper, explicit threshold
        nw = sparseframe.sparse_connected_pixels(fr, threshold=thr)
        dense = np.zeros(shape, np.int64)
        dense[fr.row, fr.col] = fr.pixels["connectedpixels"]
        check_labels(run, V, "sparseframe.sparse_connected_pixels", dense, nw, mask, True, refs[True])
        if fr.meta["connectedpixels"]["nlabel"] != nw:
            V("sparseframe:nlabel", "nlabel metadata != return value")
        # python wrapper, threshold taken from the metadata of the data array: must be the same labelling
        fr.meta["intensity"]["threshold"] = thr
        nm = sparseframe.sparse_connected_pixels(fr, label_name="cp_meta", threshold=None)
        run.count("metadata_threshold_runs")
        if nm != nw or not np.array_equal(fr.pixels["cp_meta"], fr.pixels["connectedpixels"]):
            V("sparseframe:metadata-threshold", "threshold=None (taken from frame.meta) labels differently from the same "
              "explicit threshold (%d vs %d labels)" % (nm, nw))
        # an explicit threshold wins over the one recorded with the data, whatever its value (0 included): the stored
        # pixels get small positive integer values, the metadata says 5, and the frame is labelled at 0, 0.0, 3, 5 and 7
        frx = sparseframe.from_data_mask(stored.astype(np.int8),
                                         r.integers(1, 10, shape).astype(np.float32), {})
        frx.meta["intensity"]["threshold"] = 5
        for tx in (0, 0.0, 3, 5.0, 7):
            nx = sparseframe.sparse_connected_pixels(frx, label_name="cp_x", threshold=tx)
            run.count("explicit_vs_recorded_threshold_runs")
            maskx = np.zeros(shape, bool)
            maskx[frx.row, frx.col] = frx.pixels["intensity"] > tx
            densex = np.zeros(shape, np.int64)
            densex[frx.row, frx.col] = frx.pixels["cp_x"]
            check_labels(run, V, "sparseframe.sparse_connected_pixels:explicit-threshold-%r-recorded-5" % tx, densex, nx,
                         maskx, True)
        # splat variant, scratch Z poisoned
        Z = np.full(shape[0] * shape[1] + 2 * shape[0] + 2 * shape[1] + 4, 0x5A5A5A, np.int32)
        sl = np.zeros(fr.nnz, np.int32)
        nsp = cImageD11.sparse_connectedpixels_splat(v, fr.row, fr.col, thr, sl, Z, shape[0], shape[1])
        dense = np.zeros(shape, np.int64)
        dense[fr.row[sel], fr.col[sel]] = sl[sel]
        check_labels(run, V, "sparse_connectedpixels_splat", dense, nsp, mask, True, refs[True])
        run.setmax("max_components8_splat", int(n8))
        run.count("sparse_runs")
    # ---- uint16 frame through from_data_cut (stores pixels > cut) and the wrapper with a threshold >= cut
    if not fine and thr >= 0 and shape[0] < 65535 and shape[1] < 65535 and r.random() < 0.3:
        u16 = np.ascontiguousarray(np.clip(img, 0, 65535).astype(np.uint16))
        mask_u = u16.astype(np.float64) > thr
        cut = int(r.choice([0, int(thr) // 2, int(thr)]))
        if (u16 > cut).any():
            fru = sparseframe.from_data_cut(u16, cut)
            nu = sparseframe.sparse_connected_pixels(fru, threshold=thr)
            run.count("uint16_frames")
            if fru.pixels["intensity"].dtype != np.uint16:
                run.inconc("from_data_cut no longer yields uint16 pixels")
            dense = np.zeros(shape, np.int64)
            dense[fru.row, fru.col] = fru.pixels["connectedpixels"]
            check_labels(run, V, "sparse_connected_pixels(uint16)", dense, nu, mask_u, True)


def scan_case(run, seed, idx, sparseframe):
    """SparseScan.cplabel over a multi-frame sparse file (with empty frames): per-frame components, labels unique over
    the scan when countall=True"""
    import os, tempfile, shutil
    from ..common import WORK
    r = rng(seed, "C11", "scan", idx)
    shape = [(8, 9), (32, 20), (64, 64), (2, 300), (130, 70)][int(r.integers(5))]
    nfr = int(r.integers(2, 9))
    thr = float(r.choice([0.0, 10.0]))
    frames = []
    for k in range(nfr):
        u = r.random()
        kind = "empty" if (k == 1 or u < 0.15) else imgs.MASK_KINDS[int(r.integers(len(imgs.MASK_KINDS)))]
        above = imgs.gen_mask(r, shape, kind)
        img = imgs.image_from_mask(r, above, thr)
        if kind == "empty" and ((k == 1 and idx % 2 == 0) or u < 0.07):
            stored = r.random(shape) < 0.2          # stored pixels, none above the threshold
            stored[0, 0] = True
            run.count("scan_frames_stored_none_above")
        else:
            stored = above | (r.random(shape) < 0.1) if kind != "empty" else above   # stored pixels may be <= threshold
        frames.append((stored, img, above))
    desc = dict(index=idx, route="SparseScan.cplabel", shape=shape, nframes=nfr, threshold=thr)
    run.case(("scan", shape, nfr, idx), nontrivial=True, sample=desc if idx < 2 else None)
    os.makedirs(os.path.join(WORK, "tmp"), exist_ok=True)
    d = tempfile.mkdtemp(prefix="c11s_", dir=os.path.join(WORK, "tmp"))
    try:
        fn = os.path.join(d, "scan.h5")
        per = imgs.write_sparse_scan(fn, [(f[0], f[1]) for f in frames])
        for countall in (True, False):
            sc = sparseframe.SparseScan(fn, "1.1")
            sc.cplabel(threshold=thr, countall=countall)
            run.count("sparsescan_runs")
            off = 0
            tot = 0
            for k, (stored, img, above) in enumerate(frames):
                s0, e0 = sc.ipt[k], sc.ipt[k + 1]
                lab = np.asarray(sc.labels[s0:e0])
                rl, rn = imgs.ref_label(above, True)
                dense = np.zeros(shape, np.int64)
                dense[per[k][0], per[k][1]] = lab
                ok = sc.nlabels[k] == rn and (dense[~above] == 0).all() and (dense[above] > 0).all() if above.any() else \
                    (sc.nlabels[k] == 0 and (lab == 0).all())
                if ok and rn:
                    got = dense.copy()
                    got[above] -= off
                    ok = np.array_equal(imgs.canon(got), imgs.canon(rl)) and got[above].min() == 1 and got[above].max() == rn
                if not ok:
                    run.violation("SparseScan.cplabel:frame-labels",
                                  "frame %d of %d (countall=%s): labels are not the connected components numbered %d.."
                                  % (k, nfr, countall, off + 1), dict(desc, frame=k, countall=countall))
                    return
                tot += rn
                if countall:
                    off += rn
            if sc.total_labels != tot:
                run.violation("SparseScan.cplabel:total", "total_labels %d != sum of per-frame components %d"
                              % (sc.total_labels, tot), dict(desc, countall=countall))
    finally:
        shutil.rmtree(d, ignore_errors=True)


def concurrent_callers(run, seed, idx, mods):
    """several Python threads label their own private frames at the same time (the sparse wrappers are declared threadsafe
    in the f2py interface, i.e. they run without the GIL; a thread pool over the frames of a scan is ordinary use).  Each
    result must be the one the same call gives alone: nothing of one labelling may depend on another one in progress."""
    from concurrent.futures import ThreadPoolExecutor
    cImageD11, sparseframe, labelimage = mods
    r = rng(seed, "C11", "concurrent", idx)
    shape = [(64, 64), (128, 96), (512, 512)][idx % 3]
    masks = []
    for k in range(3):
        m = r.random(shape) < float(r.choice([0.35, 0.42, 0.5]))
        # U and comb shapes: provisional labels that have to be joined late
        m[4:shape[0] - 4, 5] = m[4:shape[0] - 4, shape[1] - 6] = True
        m[shape[0] - 5, 5:shape[1] - 5] = True
        m[4:shape[0] // 2, 6:shape[1] - 6:3] = (np.arange(6, shape[1] - 6, 3) % 2 == 0)[None, :] | m[4:shape[0] // 2, 6:shape[1] - 6:3]
        masks.append(m)
    desc = dict(index=idx, route="concurrent-callers", shape=shape)
    run.case(("concurrent", shape, idx), nontrivial=True, sample=desc if idx < 2 else None)
    frames, alone = [], []
    for m in masks:
        rows, cols = np.nonzero(m)
        v = np.ones(len(rows), np.float32)
        frames.append((rows.astype(np.uint16), cols.astype(np.uint16), v))
        lab = np.zeros(len(rows), np.int32)
        nl = cImageD11.sparse_connectedpixels(v, frames[-1][0], frames[-1][1], 0.5, lab)
        dense = np.zeros(shape, np.int64)
        dense[rows, cols] = lab
        check_labels(run, lambda key, what: run.violation(key, what, desc), "sparse_connectedpixels(alone)", dense, nl, m, True)
        alone.append((nl, lab.copy()))
    nthreads, ncalls = 4, (40 if shape[0] >= 512 else 150) if run.tier == "quick" else 1500

    def work(t):
        bad = 0
        # threads 0/1 label copies of the SAME frame (equal provisional label numbers), the others their own
        k = 0 if t < 2 else (t - 1) % len(frames)
        row, col, v = [a.copy() for a in frames[k]]
        for _ in range(ncalls):
            lab = np.zeros(len(v), np.int32)
            nl = cImageD11.sparse_connectedpixels(v, row, col, 0.5, lab)
            if nl != alone[k][0] or not np.array_equal(lab, alone[k][1]):
                bad += 1
        return k, bad
    with ThreadPoolExecutor(max_workers=nthreads) as ex:
        results = list(ex.map(work, range(nthreads)))
    run.count("concurrent_caller_runs", nthreads * ncalls)
    for k, bad in results:
        if bad:
            run.violation("sparse_connectedpixels:concurrent-callers", "%d of %d labellings of a private frame made while other Python "
                          "threads were labelling theirs differ from the labelling the same call gives alone" % (bad, ncalls), desc)
            break


def check(run, replay=None):
    from ImageD11 import cImageD11, sparseframe, labelimage
    mods = (cImageD11, sparseframe, labelimage)
    if replay is not None:
        if replay["case"].get("route") == "concurrent-callers":
            concurrent_callers(run, replay["seed"], replay["case"]["index"], mods)
        elif replay["case"].get("route") == "SparseScan.cplabel":
            scan_case(run, replay["seed"], replay["case"]["index"], sparseframe)
        else:
            one_case(run, replay["seed"], replay["case"]["index"], mods,
                     tier=replay["case"].get("tier") or replay.get("tier"))
        run.nontrivial.update(["replay", "replay2"])
        return
    n = 400 if run.tier == "quick" else 8000
    for idx in range(n):
        one_case(run, run.seed, idx, mods)
    for idx in range(12 if run.tier == "quick" else 300):
        scan_case(run, run.seed, idx, sparseframe)
    for idx in range(6 if run.tier == "quick" else 30):
        concurrent_callers(run, run.seed, idx, mods)
    run.require_counter("concurrent_caller_runs", 1000)
    run.require_counter("sparsescan_runs", 10)
    run.require_counter("scan_frames_stored_none_above", 3)
    run.extra["thread_counts"] = list(THREADS)
    import os
    if not os.environ.get("VERIF_ASAN_RERUN"):
        from .. import sched_kernels
        sched_kernels.attach(run, ["v_connectedpixels"], 24 if run.tier == "quick" else 240,
                             [[1, 0], [2, 4], [4, 1], [16, 4], [64, 1]], "connectedpixels")
        run.require_counter("sched_determinism_comparisons", 20)
    run.require_counter("label_arrays_checked", 1000)
    run.require_counter("sparse_runs", 100)
    run.require_counter("thread_runs", 100)
    run.require_counter("thread_runs_large_images", 2)
    # label-table reallocation (> 16384 provisional labels) must have been seen on every route
    run.require_counter("max_components", 16385)             # dense, 4-connected (checkerboard)
    run.require_counter("max_components8_dense", 16385)      # dense, 8-connected (lattice)
    run.require_counter("max_components8_sparse", 16385)
    run.require_counter("max_components8_splat", 16385)
    run.require_counter("large_spiral_images", 1)
    run.require_counter("sparse_frames_nothing_above_threshold", 3)
    run.require_counter("sparse_frames_coordinate_ge_32768", 3)
    run.require_counter("fine_threshold_cases", 20)
    run.require_counter("metadata_threshold_runs", 100)
    run.require_counter("uint16_frames", 10)
    run.require_counter("labelpeaks_runs", 20)
    run.require_counter("labelpeaks_history_frames", 60)


# workloads added in seeding rounds 7-10 (DESIGN.md sections 13.9-13.12)
LEVEL_TEXT = LEVEL_TEXT + ' Later additions: explicit thresholds against another recorded threshold; several Python threads labelling private frames at the same time (each result equals the one the call gives alone).'
