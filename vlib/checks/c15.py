"""C15 - N-D peak merging equals graph connected components on any schedule.

Oracle: union-find + scipy.sparse.csgraph.connected_components on the same edge
list; merged properties recomputed with exact integer / longdouble sums.
Schedules: numba.set_num_threads(k), k in 1..64, repeated runs; sweep counter
(hook on the module's sweep function) as a watchdog.  numba JIT code cannot be
instrumented, so there is no schedule control or race detector here.
"""
import contextlib, io, os
import numpy as np
from ..common import rng

TECHNIQUE = ("runtime reference-model monitor: union-find and scipy connected components vs properties.find_ND_labels / "
             "pks_table.find_uniq (numba and scipy routes); exact-sum ledger for pk2dmerge / pk2d; numba thread-count and "
             "repetition differential with a sweep-count watchdog")
LEVEL_TEXT = ("Exploration: graphs (chains in sorted and shuffled edge order, stars, cliques, grids, duplicate edges, self loops, no "
              "edges, random sparse graphs) up to 1e4 nodes in quick and 1e6 in thorough, labelled at 1,2,3,4,8,16,32,64 numba threads "
              "with repetitions; labels must be exactly 0..n-1 and induce the connected-component partition every time; property "
              "tables with random frames and scale factors are merged and compared with exact sums.")
LEVEL_NOTE = ("numba prange code is not instrumentable: schedule_control = none (stress only); the sweep watchdog firing is "
              "inconclusive, not a violation; graphs need at least one node.")

RULE = ("a case = (graph class, nodes, edges, thread count); non-trivial = at least one component with >= 3 nodes and >= 2 "
        "components; distinct = (class, nodes, hash of edges, threads)")

THREADS = (1, 2, 3, 4, 8, 16, 32, 64)


class UF(object):
    def __init__(self, n):
        self.p = np.arange(n)

    def find(self, x):
        p = self.p
        r = x
        while p[r] != r:
            r = p[r]
        while p[x] != r:
            p[x], x = r, p[x]
        return r

    def union(self, a, b):
        ra, rb = self.find(a), self.find(b)
        if ra != rb:
            if ra < rb:
                self.p[rb] = ra
            else:
                self.p[ra] = rb


def ref_components(i, j, n):
    import scipy.sparse, scipy.sparse.csgraph
    coo = scipy.sparse.coo_matrix((np.ones(len(i), np.int8), (i, j)), shape=(n, n))
    nc, lab = scipy.sparse.csgraph.connected_components(coo, directed=False, return_labels=True)
    return nc, lab


def gen_graph(r, cls, n):
    if cls == "chain-sorted":
        i = np.arange(n - 1)
        j = i + 1
    elif cls == "chain-shuffled":
        i = np.arange(n - 1)
        j = i + 1
        p = r.permutation(n - 1)
        i, j = i[p], j[p]
        flip = r.random(n - 1) < 0.5
        i, j = np.where(flip, j, i), np.where(flip, i, j)
    elif cls == "chain-reversed":
        i = np.arange(n - 1)[::-1].copy()
        j = i + 1
    elif cls == "chains":
        # many chains of random length
        cut = r.random(n - 1) < 0.9
        i = np.arange(n - 1)[cut]
        j = i + 1
    elif cls == "star":
        c = int(r.integers(n))
        i = np.full(n - 1, c)
        j = np.delete(np.arange(n), c)
    elif cls == "stars":
        centres = r.integers(0, n, max(1, n // 50))
        j = np.arange(n)
        i = centres[r.integers(0, len(centres), n)]
    elif cls == "clique":
        m = min(n, 60)
        a, b = np.triu_indices(m, 1)
        i, j = a, b
    elif cls == "grid":
        w = int(np.sqrt(n))
        idx = np.arange(w * w).reshape(w, w)
        i = np.concatenate([idx[:, :-1].ravel(), idx[:-1, :].ravel()])
        j = np.concatenate([idx[:, 1:].ravel(), idx[1:, :].ravel()])
        keep = r.random(len(i)) < 0.55
        i, j = i[keep], j[keep]
    elif cls == "random-sparse":
        m = int(n * float(r.choice([0.3, 0.6, 1.0, 2.0])))
        i = r.integers(0, n, m)
        j = r.integers(0, n, m)
    elif cls == "no-edges":
        i = np.zeros(0, int)
        j = np.zeros(0, int)
    elif cls == "self-loops-dups":
        m = n
        i = r.integers(0, n, m)
        j = np.where(r.random(m) < 0.3, i, r.integers(0, n, m))
        i = np.concatenate([i, i[: m // 2]])
        j = np.concatenate([j, j[: m // 2]])
    else:
        raise ValueError(cls)
    return np.ascontiguousarray(i, dtype=np.int64), np.ascontiguousarray(j, dtype=np.int64)


CLASSES = ["chain-sorted", "chain-shuffled", "chains", "star", "stars", "clique", "grid", "random-sparse", "no-edges",
           "self-loops-dups", "chain-reversed", "random-sparse"]


def canon(lab):
    from ..imgs import canon as c
    return c(np.asarray(lab) + 1)


def graph_case(run, seed, idx, mods, sizes, reps):
    properties, numba = mods
    r = rng(seed, "C15", "g", idx)
    cls = CLASSES[idx % len(CLASSES)]
    n = int(sizes[idx % len(sizes)])
    if cls == "chain-shuffled":
        n = min(n, 3000 if run.tier == "quick" else 100000)
    i, j = gen_graph(r, cls, n)
    nc, lab = ref_components(i, j, n)
    # second opinion for small graphs
    if n <= 2000:
        uf = UF(n)
        for a, b in zip(i.tolist(), j.tolist()):
            uf.union(a, b)
        roots = np.array([uf.find(x) for x in range(n)])
        if not np.array_equal(canon(roots), canon(lab)):
            run.inconc("reference labellers disagree on graph %d" % idx)
            return
    sizes_c = np.bincount(lab)
    desc = dict(index=idx, kind="graph", cls=cls, nodes=n, edges=int(len(i)))
    first = True
    for nt in THREADS:
        if nt > numba.config.NUMBA_NUM_THREADS:
            run.count("thread_counts_unavailable")
            continue
        numba.set_num_threads(nt)
        for rep in range(reps if nt > 1 else 1):
            sweeps = [0]
            orig = properties.numbalabelNd

            def counting(*a, **k):
                sweeps[0] += 1
                if sweeps[0] > 50 * (int(sizes_c.max()) + 10):
                    raise RuntimeError("sweep watchdog")
                return orig(*a, **k)
            properties.numbalabelNd = counting
            try:
                with contextlib.redirect_stdout(io.StringIO()):
                    nl, labels = properties.find_ND_labels(i, j, n)
            except RuntimeError:
                run.inconc("sweep watchdog fired on graph %d (%s, %d nodes, %d threads)" % (idx, cls, n, nt))
                return
            finally:
                properties.numbalabelNd = orig
            run.count("labelling_runs")
            run.setmax("max_sweeps", sweeps[0])
            u = np.unique(labels)
            bad = None
            if nl != nc:
                bad = "returned %d labels, graph has %d components" % (nl, nc)
            elif len(u) != nc or u[0] != 0 or u[-1] != nc - 1:
                bad = "labels are not exactly 0..n-1 (min %d max %d distinct %d, n=%d)" % (u[0], u[-1], len(u), nc)
            elif not np.array_equal(canon(labels), canon(lab)):
                bad = "labels do not induce the connected-component partition"
            if bad:
                run.violation("find_ND_labels:threads>1" if nt > 1 else "find_ND_labels:1-thread",
                              "%s (threads %d, repetition %d, %d sweeps)" % (bad, nt, rep, sweeps[0]),
                              dict(desc, threads=nt, rep=rep))
                break
        run.case((cls, n, hash(i.tobytes() + j.tobytes()), nt), nontrivial=(nc >= 2 and sizes_c.max() >= 3),
                 sample=dict(desc, components=int(nc), threads=nt) if first else None)
        first = False
    numba.set_num_threads(min(4, numba.config.NUMBA_NUM_THREADS))


def table_case(run, seed, idx, mods):
    properties, numba = mods
    r = rng(seed, "C15", "t", idx)
    nscans = int(r.integers(1, 6))
    nframes = int(r.integers(2, 30))
    npk = r.integers(1, 40, nscans)
    N = int(npk.sum())
    # edges: within scan (ii) and to the next scan (ij)
    m_ii = r.integers(0, 30, nscans)
    m_ij = r.integers(0, 30, nscans)
    m_ij[-1] = 0
    npktab = np.array([npk, m_ii, m_ij]).T.astype(np.int64)
    with contextlib.redirect_stdout(io.StringIO()):
        tab = properties.pks_table(npk=npktab)
    try:
        ipk = np.concatenate([[0], np.cumsum(npk)])
        pk = tab.pk_props
        pk[0] = r.integers(1, 50, N)
        pk[1] = r.integers(1, 10 ** 6, N)
        pk[2] = pk[1] * r.integers(0, 2000, N)
        pk[3] = pk[1] * r.integers(0, 2000, N)
        pk[4] = r.integers(0, nscans * nframes, N)
        ei, ej = [], []
        for s in range(nscans):
            a = r.integers(ipk[s], ipk[s + 1], m_ii[s])
            b = r.integers(ipk[s], ipk[s + 1], m_ii[s])
            ei += a.tolist()
            ej += b.tolist()
            if s + 1 < nscans:
                a = r.integers(ipk[s], ipk[s + 1], m_ij[s])
                b = r.integers(ipk[s + 1], ipk[s + 2], m_ij[s])
                ei += a.tolist()
                ej += b.tolist()
        tab.rc[0] = ei
        tab.rc[1] = ej
        tab.rc[2] = r.integers(1, 9, len(ei))
        omega = r.uniform(-180, 180, (nscans, nframes))
        dty = np.repeat(r.uniform(-50, 50, nscans)[:, None], nframes, axis=1)
        use_scale = bool(idx % 2)
        scale = r.uniform(0.5, 2.0, (nscans, nframes)) if use_scale else None
        desc = dict(index=idx, kind="table", nscans=nscans, npeaks=N, nedges=len(ei), scale=use_scale)
        nc, lab = ref_components(np.array(ei, int), np.array(ej, int), N)
        run.case(("table", nscans, N, len(ei), use_scale), nontrivial=nc < N, sample=dict(desc, merged=int(nc)))

        def V(key, what):
            run.violation(key, what, desc)
        res = {}
        for use_scipy in (False, True):
            with contextlib.redirect_stdout(io.StringIO()):
                nl, gl = tab.find_uniq(use_scipy=use_scipy)
            run.count("find_uniq_runs")
            if nl != nc or not np.array_equal(canon(gl), canon(lab)) or gl.min() != 0 or gl.max() != nc - 1:
                V("find_uniq(use_scipy=%s)" % use_scipy, "labels are not the connected components (%d vs %d)" % (nl, nc))
                return
            res[use_scipy] = np.asarray(gl).copy()
        if not np.array_equal(canon(res[False]), canon(res[True])):
            V("find_uniq:numba-vs-scipy", "numba and scipy routes give different partitions")
        with contextlib.redirect_stdout(io.StringIO()):
            tab.find_uniq(use_scipy=False)
        gl = np.asarray(tab.glabel)
        merged = tab.pk2dmerge(omega, dty, scale_factor=scale)
        LD = np.longdouble
        sc = np.ones(N, LD) if scale is None else scale.ravel()[pk[4]].astype(LD)
        want = dict(
            Number_of_pixels=np.bincount(gl, weights=pk[0], minlength=nc),
            npk2d=np.bincount(gl, minlength=nc),
        )
        sI = np.zeros(nc, LD)
        srI = np.zeros(nc, LD)
        scI = np.zeros(nc, LD)
        oI = np.zeros(nc, LD)
        yI = np.zeros(nc, LD)
        np.add.at(sI, gl, pk[1].astype(LD) * sc)
        np.add.at(srI, gl, pk[2].astype(LD) * sc)
        np.add.at(scI, gl, pk[3].astype(LD) * sc)
        np.add.at(oI, gl, omega.ravel()[pk[4]].astype(LD) * pk[1].astype(LD) * sc)
        np.add.at(yI, gl, dty.ravel()[pk[4]].astype(LD) * pk[1].astype(LD) * sc)
        want.update(sum_intensity=sI, s_raw=srI / sI, f_raw=scI / sI, omega=oI / sI, dty=yI / sI)
        run.count("merged_peaks_checked", int(nc))
        for k, w in want.items():
            g = np.asarray(merged[k], LD)
            tol = 1e-11 * np.maximum(np.abs(w), 1) + (1e-9 if k == "omega" else 0)
            if g.shape != w.shape or (np.abs(g - w) > tol).any():
                V("pk2dmerge:" + k, "merged %s differs from the sum over members (max err %.3g)"
                  % (k, float(np.abs(g - w).max()) if g.shape == w.shape else -1))
        if not np.array_equal(merged["spot3d_id"], np.arange(nc)):
            V("pk2dmerge:spot3d_id", "spot3d_id is not 0..n-1")
        p2 = tab.pk2d(omega, dty, scale_factor=scale)
        ok = (np.array_equal(p2["spot3d_id"], gl) and np.array_equal(p2["Number_of_pixels"], pk[0]) and
              np.allclose(p2["s_raw"], pk[2] / pk[1], rtol=1e-14) and np.allclose(p2["f_raw"], pk[3] / pk[1], rtol=1e-14) and
              np.array_equal(p2["omega"], omega.ravel()[pk[4]]) and np.array_equal(p2["dty"], dty.ravel()[pk[4]]) and
              np.allclose(np.asarray(p2["sum_intensity"], float), (pk[1].astype(LD) * sc).astype(float), rtol=1e-14))
        if not ok:
            V("pk2d", "per-2D-peak table does not match the property arrays")
    finally:
        del tab


def check(run, replay=None):
    import numba
    from ImageD11.sinograms import properties
    mods = (properties, numba)
    run.extra["numba_threading_layer"] = None
    run.extra["schedule_control"] = "none (numba prange is not instrumentable)"
    run.extra["numba_num_threads"] = int(numba.config.NUMBA_NUM_THREADS)
    if replay is not None:
        cs = replay["case"]
        if cs["kind"] == "graph":
            sz = [cs["nodes"]] * 12
            graph_case(run, replay["seed"], cs["index"], mods, sz, 5)
        else:
            table_case(run, replay["seed"], cs["index"], mods)
        run.nontrivial.update(["replay", "replay2"])
        return
    if run.tier == "quick":
        sizes = [1, 2, 5, 17, 100, 999, 4096, 10000]
        for i in range(72):
            graph_case(run, run.seed, i, mods, sizes, 3)
        for i in range(60):
            table_case(run, run.seed, i, mods)
    else:
        sizes = [1, 2, 5, 17, 100, 999, 4096, 10000, 100000, 1000000]
        for i in range(600):
            graph_case(run, run.seed, i, mods, sizes, 10)
        for i in range(3000):
            table_case(run, run.seed, i, mods)
    try:
        run.extra["numba_threading_layer"] = numba.threading_layer()
    except Exception as e:
        run.extra["numba_threading_layer"] = "unknown (%s)" % e
    run.extra["thread_counts"] = [t for t in THREADS if t <= numba.config.NUMBA_NUM_THREADS]
    run.require_counter("labelling_runs", 500)
    run.require_counter("merged_peaks_checked", 200)
