"""C15 - N-D peak merging equals graph connected components on any schedule.

Oracle: union-find + scipy.sparse.csgraph.connected_components on the same edge
list; merged properties recomputed with exact integer / longdouble sums.
Schedules: numba.set_num_threads(k), k in 1..64, repeated runs; sweep counter
(hook on the module's sweep function) as a watchdog.  numba JIT code cannot be
instrumented, so there is no schedule control or race detector here.
"""
import contextlib, io, os
import numpy as np
from ..common import rng

TECHNIQUE = ("runtime reference-model monitor: union-find and scipy connected components vs properties.find_ND_labels / "
             "pks_table.find_uniq (numba and scipy routes); exact-sum (longdouble) ledger for pk2dmerge / pk2d on labels of both "
             "routes and after pks_table.save -> load, at several numba thread counts; numba thread-count and "
             "repetition differential with a sweep-count watchdog")
LEVEL_TEXT = ("Exploration: graphs (chains in sorted, reversed and shuffled edge order, many shuffled chains, stars, cliques, grids, "
              "duplicate edges, self loops, no edges, random sparse graphs), every class at every size up to 1e4 nodes in quick and 1e6 in "
              "thorough (a single shuffled chain up to 3e4: it needs n/5 sweeps; many shuffled chains of up to 3000 nodes go to 1e6), labelled at 1,2,3,4,8,16,32,64 numba threads "
              "with repetitions; labels must be exactly 0..n-1 and induce the connected-component partition every time; property "
              "tables (edges in both directions, frames tied to their scan, 1-D and 2-D motor arrays, scale factors over six decades, "
              "up to 1e5 peaks in a few large components) are merged at 1 and two other thread counts and compared with exact sums.")
LEVEL_NOTE = ("numba prange code is not instrumentable: schedule_control = none (stress only); the sweep watchdog firing is "
              "inconclusive, not a violation; graphs need at least one node (find_ND_labels(i, j, 0) raises AssertionError: the "
              "statement speaks of graphs between peaks); the code that builds the graph from overlaps (pks_table_from_scan) is "
              "not part of the statement, which takes the graph as given; every thread count of the list must have run or the "
              "verdict is inconclusive. A table without a single pair could not be created on the pinned tree (pks_table.create asked for 0 bytes of shared "
              "memory, ValueError; repaired in /repo): such tables are part of the workload.")

RULE = ("a case = (graph class, nodes, edges, thread count); non-trivial = at least one component with >= 3 nodes and >= 2 "
        "components; distinct = (class, nodes, hash of edges, threads)")

THREADS = (1, 2, 3, 4, 8, 16, 32, 64)


class UF(object):
    def __init__(self, n):
        self.p = np.arange(n)

    def find(self, x):
        p = self.p
        r = x
        while p[r] != r:
            r = p[r]
        while p[x] != r:
            p[x], x = r, p[x]
        return r

    def union(self, a, b):
        ra, rb = self.find(a), self.find(b)
        if ra != rb:
            if ra < rb:
                self.p[rb] = ra
            else:
                self.p[ra] = rb


def ref_components(i, j, n):
    import scipy.sparse, scipy.sparse.csgraph
    coo = scipy.sparse.coo_matrix((np.ones(len(i), np.int8), (i, j)), shape=(n, n))
    nc, lab = scipy.sparse.csgraph.connected_components(coo, directed=False, return_labels=True)
    return nc, lab


def gen_graph(r, cls, n):
    if cls == "chain-sorted":
        i = np.arange(n - 1)
        j = i + 1
    elif cls == "chain-shuffled":
        i = np.arange(n - 1)
        j = i + 1
        p = r.permutation(n - 1)
        i, j = i[p], j[p]
        flip = r.random(n - 1) < 0.5
        i, j = np.where(flip, j, i), np.where(flip, i, j)
    elif cls == "chain-reversed":
        i = np.arange(n - 1)[::-1].copy()
        j = i + 1
    elif cls == "shuffled-chains":
        # many chains of L nodes, all their edges shuffled together and randomly oriented: about L/5 sweeps whatever n is
        L = int(r.choice([30, 300, 3000])) if 10000 < n <= 100000 else int(r.choice([30, 300]))
        i = np.arange(n - 1)
        j = i + 1
        keep = (j % L) != 0
        i, j = i[keep], j[keep]
        p = r.permutation(len(i))
        i, j = i[p], j[p]
        flip = r.random(len(i)) < 0.5
        i, j = np.where(flip, j, i), np.where(flip, i, j)
    elif cls == "chains":
        # many chains of random length
        cut = r.random(n - 1) < 0.9
        i = np.arange(n - 1)[cut]
        j = i + 1
    elif cls == "star":
        c = int(r.integers(n))
        i = np.full(n - 1, c)
        j = np.delete(np.arange(n), c)
    elif cls == "stars":
        centres = r.integers(0, n, max(1, n // 50))
        j = np.arange(n)
        i = centres[r.integers(0, len(centres), n)]
    elif cls == "clique":
        m = min(n, 60)
        a, b = np.triu_indices(m, 1)
        i, j = a, b
    elif cls == "grid":
        w = int(np.sqrt(n))
        idx = np.arange(w * w).reshape(w, w)
        i = np.concatenate([idx[:, :-1].ravel(), idx[:-1, :].ravel()])
        j = np.concatenate([idx[:, 1:].ravel(), idx[1:, :].ravel()])
        keep = r.random(len(i)) < 0.55
        i, j = i[keep], j[keep]
    elif cls == "random-sparse":
        m = int(n * float(r.choice([0.3, 0.6, 1.0, 2.0])))
        i = r.integers(0, n, m)
        j = r.integers(0, n, m)
    elif cls == "no-edges":
        i = np.zeros(0, int)
        j = np.zeros(0, int)
    elif cls == "self-loops-dups":
        m = n
        i = r.integers(0, n, m)
        j = np.where(r.random(m) < 0.3, i, r.integers(0, n, m))
        i = np.concatenate([i, i[: m // 2]])
        j = np.concatenate([j, j[: m // 2]])
    else:
        raise ValueError(cls)
    return np.ascontiguousarray(i, dtype=np.int64), np.ascontiguousarray(j, dtype=np.int64)


CLASSES = ["chain-sorted", "chain-shuffled", "chains", "star", "stars", "clique", "grid", "random-sparse", "no-edges",
           "self-loops-dups", "chain-reversed", "shuffled-chains"]


def canon(lab):
    from ..imgs import canon as c
    return c(np.asarray(lab) + 1)


def graph_case(run, seed, idx, mods, sizes, reps, cap=True):
    properties, numba = mods
    r = rng(seed, "C15", "g", idx)
    cls = CLASSES[idx % len(CLASSES)]
    # the k-th case of a class takes the (k + offset)-th size, the offset depending on (seed, class): class and size are
    # not tied together, and len(sizes) cases of a class cover every size
    off = int(rng(seed, "C15", "sizeoffset", cls).integers(1 << 30))
    n = int(sizes[(idx // len(CLASSES) + off) % len(sizes)])
    if cls == "chain-shuffled" and cap:
        n = min(n, 600 if run.tier == "quick" else 30000)
    i, j = gen_graph(r, cls, n)
    nc, lab = ref_components(i, j, n)
    # second opinion for small graphs
    if n <= 2000:
        uf = UF(n)
        for a, b in zip(i.tolist(), j.tolist()):
            uf.union(a, b)
        roots = np.array([uf.find(x) for x in range(n)])
        if not np.array_equal(canon(roots), canon(lab)):
            run.inconc("reference labellers disagree on graph %d" % idx)
            return
    sizes_c = np.bincount(lab)
    desc = dict(index=idx, kind="graph", cls=cls, nodes=n, edges=int(len(i)))
    first = True
    run.count("graphs_%s" % cls)
    run.setmax("max_nodes_%s" % cls, n)
    for nt in THREADS:
        if nt > numba.config.NUMBA_NUM_THREADS:
            run.count("thread_counts_unavailable")
            continue
        numba.set_num_threads(nt)
        run.count("labelling_threads_%d" % nt)
        for rep in range(reps if nt > 1 else 1):
            sweeps = [0]
            orig = properties.numbalabelNd

            def counting(*a, **k):
                sweeps[0] += 1
                if sweeps[0] > 50 * (int(sizes_c.max()) + 10):
                    raise RuntimeError("sweep watchdog")
                return orig(*a, **k)
            properties.numbalabelNd = counting
            try:
                with contextlib.redirect_stdout(io.StringIO()):
                    nl, labels = properties.find_ND_labels(i, j, n)
            except RuntimeError:
                run.inconc("sweep watchdog fired on graph %d (%s, %d nodes, %d threads)" % (idx, cls, n, nt))
                return
            finally:
                properties.numbalabelNd = orig
            run.count("labelling_runs")
            run.setmax("max_sweeps", sweeps[0])
            if n >= 100000:
                run.setmax("max_sweeps_graphs_ge_1e5_nodes", sweeps[0])
            if nt == 1:
                # long labellings get fewer repetitions (deterministic: decided by the 1-thread sweep count); every thread
                # count still runs at least once
                if sweeps[0] * max(len(i), 1) > 2e8 or sweeps[0] > (150 if run.tier == "quick" else 1000):
                    reps = 1
                elif sweeps[0] > 100:
                    reps = min(reps, 2)
            u = np.unique(labels)
            bad = None
            if nl != nc:
                bad = "returned %d labels, graph has %d components" % (nl, nc)
            elif len(u) != nc or u[0] != 0 or u[-1] != nc - 1:
                bad = "labels are not exactly 0..n-1 (min %d max %d distinct %d, n=%d)" % (u[0], u[-1], len(u), nc)
            elif not np.array_equal(canon(labels), canon(lab)):
                bad = "labels do not induce the connected-component partition"
            if bad:
                run.violation("find_ND_labels:threads>1" if nt > 1 else "find_ND_labels:1-thread",
                              "%s (threads %d, repetition %d, %d sweeps)" % (bad, nt, rep, sweeps[0]),
                              dict(desc, threads=nt, rep=rep))
                break
        run.case((cls, n, hash(i.tobytes() + j.tobytes()), nt), nontrivial=(nc >= 2 and sizes_c.max() >= 3),
                 sample=dict(desc, components=int(nc), threads=nt) if first else None)
        first = False
    numba.set_num_threads(min(4, numba.config.NUMBA_NUM_THREADS))
    # the pair arrays in the index types files and compact tables use (a COO dump read back as uint32, int32 ...): the
    # labels must be the same whatever integer type carries the graph.  Small graphs only (each type is a new numba
    # specialisation, compiled once).
    if n <= 5000 and len(i):
        for dt in (np.int32, np.uint32, np.uint64) + ((np.uint16,) if n < 65000 else ()):
            try:
                with contextlib.redirect_stdout(io.StringIO()):
                    nl, labels = properties.find_ND_labels(i.astype(dt), j.astype(dt), n)
            except Exception:
                run.count("pair_dtype_refused_" + np.dtype(dt).name)
                continue
            run.count("pair_dtype_runs")
            lb = np.asarray(labels).astype(np.int64)
            u = np.unique(lb)
            if nl != nc or len(u) != nc or u[0] != 0 or u[-1] != nc - 1 or not np.array_equal(canon(lb), canon(lab)):
                run.violation("find_ND_labels:pair-dtype:" + np.dtype(dt).name,
                              "pairs given as %s: %d labels spanning %d..%d for %d components" % (np.dtype(dt).name, nl, int(u[0]), int(u[-1]), nc),
                              dict(desc, pair_dtype=np.dtype(dt).name))
                break


def _merge_oracle(gl, nc, pk, omega, dty, scale):
    """exact sums over the members of every merged peak: integers exactly, weighted sums in longdouble"""
    LD = np.longdouble
    N = pk.shape[1]
    sc = np.ones(N, LD) if scale is None else np.asarray(scale).ravel()[pk[4]].astype(LD)
    want = dict(Number_of_pixels=np.bincount(gl, weights=pk[0], minlength=nc), npk2d=np.bincount(gl, minlength=nc))
    sI = np.zeros(nc, LD)
    srI = np.zeros(nc, LD)
    scI = np.zeros(nc, LD)
    oI = np.zeros(nc, LD)
    yI = np.zeros(nc, LD)
    np.add.at(sI, gl, pk[1].astype(LD) * sc)
    np.add.at(srI, gl, pk[2].astype(LD) * sc)
    np.add.at(scI, gl, pk[3].astype(LD) * sc)
    np.add.at(oI, gl, omega.ravel()[pk[4]].astype(LD) * pk[1].astype(LD) * sc)
    np.add.at(yI, gl, dty.ravel()[pk[4]].astype(LD) * pk[1].astype(LD) * sc)
    want.update(sum_intensity=sI, s_raw=srI / sI, f_raw=scI / sI, omega=oI / sI, dty=yI / sI)
    return want, sc


def _merge_tol(k, w, members, omax=180.0, ymax=50.0):
    """Derived tolerance for the float64 accumulation in numbapkmerge against the longdouble ledger (u = 2**-53, m = members):
    a term pks*scale carries one rounding, o*pks*scale two; a running sum of m terms adds at most (m-1) roundings, each
    relative to a partial sum that is bounded by the sum of the absolute terms.  So
      sums of one sign (pixels are exact integers; intensity, row*I, col*I: all terms >= 0):  |err| <= (m+1) u |sum|
      ratios s_raw, f_raw = sum/sum:  (m+1)u + (m+1)u + u  = (2m+3) u relative
      omega, dty (terms of both signs, |o| <= omax):  numerator error <= (m+2) u * omax * sum_intensity, denominator (m+1) u
        relative, one division: absolute error of the mean <= (2m+4) u * omax
    A factor 4 of slack covers second-order terms.  (The bound used before, 1e-11 relative + 1e-9 on omega, was three
    orders of magnitude looser for the typical m < 50.)"""
    u = 2.0 ** -53
    m = members.astype(np.longdouble)
    if k in ("Number_of_pixels", "npk2d"):
        return np.zeros(len(m), np.longdouble)
    if k == "sum_intensity":
        return 4 * (m + 1) * u * np.abs(w)
    if k in ("s_raw", "f_raw"):
        return 4 * (2 * m + 3) * u * np.abs(w)
    return 4 * (2 * m + 4) * u * (omax if k == "omega" else ymax)


def table_case(run, seed, idx, mods, big=False):
    properties, numba = mods
    r = rng(seed, "C15", "t", idx, "big") if big else rng(seed, "C15", "t", idx)
    nscans = int(r.integers(1, 6))
    nframes = int(r.integers(2, 30))
    if big:
        # about 1e5 peaks that fall into a few large merged peaks plus many small ones
        nscans, nframes = 40, 50
        npk = r.integers(2000, 3000, nscans)
        m_ii = r.integers(1500, 2500, nscans)
        m_ij = r.integers(1500, 2500, nscans)
    else:
        npk = r.integers(1, 40, nscans)
        # edges: within scan (ii) and to the next scan (ij)
        m_ii = r.integers(0, 30, nscans)
        m_ij = r.integers(0, 30, nscans)
    if idx % 20 == 13 and not big:
        m_ii[:] = 0                      # a table in which no 2D peak overlaps any other ("no edges")
        m_ij[:] = 0
    N = int(npk.sum())
    m_ij[-1] = 0
    npktab = np.array([npk, m_ii, m_ij]).T.astype(np.int64)
    if int(m_ii.sum() + m_ij.sum()) == 0:
        # a table without a single pair: the pinned tree could not create it at all (pks_table.create asked for a shared
        # memory block of 0 bytes, ValueError); repaired in /repo, always exercised
        run.count("tables_without_pairs")
        try:
            with contextlib.redirect_stdout(io.StringIO()):
                tab = properties.pks_table(npk=npktab)
        except Exception as e:
            run.case(("table-edgeless", nscans, N), nontrivial=False)
            run.violation("pks_table:no-pairs", "pks_table(npk) for %d peaks and no pairs raised %s: %s" % (N, type(e).__name__, e),
                          dict(index=idx, kind="bigtable" if big else "table"))
            return
    with contextlib.redirect_stdout(io.StringIO()):
        tab = properties.pks_table(npk=npktab)
    r2 = rng(seed, "C15", "t2", idx, int(big))
    try:
        ipk = np.concatenate([[0], np.cumsum(npk)])
        pk = tab.pk_props
        pk[0] = r.integers(1, 50, N)
        pk[1] = r.integers(1, 10 ** 6, N)
        pk[2] = pk[1] * r.integers(0, 2000, N)
        pk[3] = pk[1] * r.integers(0, 2000, N)
        pk[4] = r.integers(0, nscans * nframes, N)
        frames_by_scan = bool(r2.random() < 0.6)
        if frames_by_scan:
            # as the real table: a peak of scan s sits on one of the frames of scan s
            for s_ in range(nscans):
                pk[4, ipk[s_]:ipk[s_ + 1]] = s_ * nframes + np.sort(r2.integers(0, nframes, int(npk[s_])))
        ei, ej = [], []
        for s in range(nscans):
            a = r.integers(ipk[s], ipk[s + 1], m_ii[s])
            b = r.integers(ipk[s], ipk[s + 1], m_ii[s])
            if big:
                # within a scan: neighbours only (short chains), so that components stay of moderate size
                b = np.minimum(a + 1, ipk[s + 1] - 1)
            ei += a.tolist()
            ej += b.tolist()
            if s + 1 < nscans:
                a = r.integers(ipk[s], ipk[s + 1], m_ij[s])
                b = r.integers(ipk[s + 1], ipk[s + 2], m_ij[s])
                ei += a.tolist()
                ej += b.tolist()
        ei = np.array(ei, np.int64)
        ej = np.array(ej, np.int64)
        # real tables list the pairs between rows high -> low (rc[0] > rc[1]); here each pair is given in a random direction
        edir = ["low-high", "high-low", "mixed"][int(r2.integers(3))]
        swap = {"low-high": np.zeros(len(ei), bool), "high-low": np.ones(len(ei), bool), "mixed": r2.random(len(ei)) < 0.5}[edir]
        ei, ej = np.where(swap, ej, ei), np.where(swap, ei, ej)
        tab.rc[0] = ei
        tab.rc[1] = ej
        tab.rc[2] = r.integers(1, 9, len(ei))
        omega = r.uniform(-180, 180, (nscans, nframes))
        dty = np.repeat(r.uniform(-50, 50, nscans)[:, None], nframes, axis=1)
        use_scale = bool(idx % 2)
        scale = r.uniform(0.5, 2.0, (nscans, nframes)) if use_scale else None
        if use_scale and r2.random() < 0.5:
            # monitor-normalisation factors over six decades, some exactly 1
            scale = 10.0 ** r2.uniform(-3, 3, (nscans, nframes))
            scale[r2.random((nscans, nframes)) < 0.2] = 1.0
        if use_scale and idx % 4 == 3:
            # normalisation per monitor count (scale = 1/monitor, monitor 1e5..1e8): every scaled intensity sum is far
            # below 1 - intensities are not counts any more and nothing may assume they are
            scale = 1.0 / (10.0 ** r2.uniform(5, 8, (nscans, nframes)))
            run.count("tables_with_per_count_scale")
        flat = bool(r2.random() < 0.3)
        if flat:
            omega, dty = omega.ravel().copy(), dty.ravel().copy()
            scale = None if scale is None else scale.ravel().copy()
        desc = dict(index=idx, kind="bigtable" if big else "table", nscans=nscans, npeaks=N, nedges=len(ei), scale=use_scale,
                    edges=edir, flat_motors=flat, frames_by_scan=frames_by_scan)
        nc, lab = ref_components(ei, ej, N)
        run.case(("table", nscans, N, len(ei), use_scale, big), nontrivial=nc < N, sample=dict(desc, merged=int(nc)))
        run.count("tables_edges_" + edir)
        if big:
            run.count("big_tables")
            run.setmax("big_table_largest_merged_peak", int(np.bincount(lab).max()))

        def V(key, what):
            run.violation(key, what, desc)
        res = {}
        for use_scipy in (False, True):
            with contextlib.redirect_stdout(io.StringIO()):
                nl, gl = tab.find_uniq(use_scipy=use_scipy)
            run.count("find_uniq_runs")
            if nl != nc or not np.array_equal(canon(gl), canon(lab)) or gl.min() != 0 or gl.max() != nc - 1:
                V("find_uniq(use_scipy=%s)" % use_scipy, "labels are not the connected components (%d vs %d)" % (nl, nc))
                return
            res[use_scipy] = np.asarray(gl).copy()
        if not np.array_equal(canon(res[False]), canon(res[True])):
            V("find_uniq:numba-vs-scipy", "numba and scipy routes give different partitions")
        # history on one table: the pair list is edited in place (weak overlaps dropped = turned into self loops) and the
        # table is labelled again - the labels must be the components of the graph as it is now; then put back
        if len(ei):
            rc_save = np.array(tab.rc, copy=True)
            kill = r2.random(len(ei)) < 0.5
            tab.rc[1][kill] = tab.rc[0][kill]
            nc2, lab2 = ref_components(np.asarray(tab.rc[0]), np.asarray(tab.rc[1]), N)
            with contextlib.redirect_stdout(io.StringIO()):
                nl2, gl2 = tab.find_uniq(use_scipy=bool(r2.integers(2)))
            run.count("find_uniq_after_graph_edit")
            if nl2 != nc2 or not np.array_equal(canon(gl2), canon(lab2)):
                V("find_uniq:after-graph-edit", "after %d of %d pairs were removed from the pair list in place, find_uniq gives %d "
                  "merged peaks, the graph now has %d components" % (int(kill.sum()), len(ei), nl2, nc2))
            tab.rc[:] = rc_save
        # merging on the labels of either route (the scipy route leaves int32 labels), at 1 thread and two other counts
        avail = [t for t in THREADS if t <= numba.config.NUMBA_NUM_THREADS and t > 1]
        tlist = [1] + [int(t) for t in r2.choice(avail, size=min(2, len(avail)), replace=False)] if avail else [1]
        first_merged = None
        for route in ("numba", "scipy"):
            with contextlib.redirect_stdout(io.StringIO()):
                tab.find_uniq(use_scipy=(route == "scipy"))
            gl = np.asarray(tab.glabel)
            want, sc = _merge_oracle(gl, nc, pk, omega, dty, scale)
            members = want["npk2d"]
            for nt in tlist:
                numba.set_num_threads(nt)
                merged = tab.pk2dmerge(omega, dty, scale_factor=scale)
                run.count("pk2dmerge_runs")
                run.count("pk2dmerge_threads_%d" % nt)
                run.count("pk2dmerge_labels_%s_%s" % (route, gl.dtype.name))
                run.count("merged_peaks_checked", int(nc))
                for k, w in want.items():
                    g = np.asarray(merged[k], np.longdouble)
                    tol = _merge_tol(k, w, members, float(np.abs(omega).max()), float(np.abs(dty).max()))
                    if g.shape != w.shape or not (np.abs(g - w) <= tol).all():
                        V("pk2dmerge:" + k, "merged %s differs from the sum over members (max err %.3g; %s labels, %d threads)"
                          % (k, float(np.abs(g - w).max()) if g.shape == w.shape else -1, route, nt))
                if not np.array_equal(merged["spot3d_id"], np.arange(nc)):
                    V("pk2dmerge:spot3d_id", "spot3d_id is not 0..n-1")
                p2 = tab.pk2d(omega, dty, scale_factor=scale)
                ok = (np.array_equal(p2["spot3d_id"], gl) and np.array_equal(p2["Number_of_pixels"], pk[0]) and
                      np.allclose(p2["s_raw"], pk[2] / pk[1], rtol=1e-14, atol=0) and
                      np.allclose(p2["f_raw"], pk[3] / pk[1], rtol=1e-14, atol=0) and
                      np.array_equal(p2["omega"], omega.ravel()[pk[4]]) and np.array_equal(p2["dty"], dty.ravel()[pk[4]]) and
                      np.allclose(np.asarray(p2["sum_intensity"], float), (pk[1].astype(np.longdouble) * sc).astype(float),
                                  rtol=1e-14, atol=0))
                if not ok:
                    V("pk2d", "per-2D-peak table does not match the property arrays (%s labels, %d threads)" % (route, nt))
                if nt == 1:
                    # motor arrays as they may come from a file: omega in float32 or whole degrees (int32), dty in float64
                    # - and the other way round; every 2D peak gets the two values of its frame, each exactly
                    for odt, ddt in ((np.float32, np.float64), (np.int32, np.float64), (np.float64, np.float32)):
                        om_v, dty_v = (omega * 8).astype(odt), (dty + 0.123456789).astype(ddt)
                        p3 = tab.pk2d(om_v, dty_v, scale_factor=scale)
                        run.count("pk2d_motor_dtype_variants")
                        if not (np.array_equal(np.asarray(p3["omega"], np.float64), om_v.ravel()[pk[4]].astype(np.float64)) and
                                np.array_equal(np.asarray(p3["dty"], np.float64), dty_v.ravel()[pk[4]].astype(np.float64))):
                            V("pk2d:motor-dtypes", "pk2d(omega as %s, dty as %s): the omega / dty of the 2D peaks are not the values "
                              "of their frames" % (np.dtype(odt).name, np.dtype(ddt).name))
                if route == "numba" and nt == 1:
                    first_merged = merged
        numba.set_num_threads(min(4, numba.config.NUMBA_NUM_THREADS))
        # ---- the user's route: save the table, load it again, merge (labels of the numba route are current... scipy was last)
        if idx % 3 == 0 or big:
            from ..common import WORK
            import tempfile, shutil, h5py
            os.makedirs(os.path.join(WORK, "tmp"), exist_ok=True)
            d = tempfile.mkdtemp(prefix="c15t_", dir=os.path.join(WORK, "tmp"))
            try:
                fn = os.path.join(d, "pks.h5")
                with contextlib.redirect_stdout(io.StringIO()):
                    tab.save(fn, rc=True)
                    t2 = properties.pks_table.load(fn)
                run.count("save_load_roundtrips")
                gl2 = np.asarray(t2.glabel)
                if int(t2.nlabel) != nc or not np.array_equal(gl2, np.asarray(tab.glabel)) or \
                        not np.array_equal(t2.pk_props, pk) or not np.array_equal(t2.ipk, ipk):
                    V("save-load:table", "pks_table.load(save()) does not give back labels / properties / pointers")
                else:
                    m2 = t2.pk2dmerge(omega, dty, scale_factor=scale)
                    want, sc = _merge_oracle(gl2, nc, pk, omega, dty, scale)
                    for k, w in want.items():
                        g = np.asarray(m2[k], np.longdouble)
                        if g.shape != w.shape or not (np.abs(g - w) <= _merge_tol(k, w, want["npk2d"], float(np.abs(omega).max()),
                                                                                    float(np.abs(dty).max()))).all():
                            V("save-load:pk2dmerge:" + k, "merged %s after save/load differs from the sum over members" % k)
                with h5py.File(fn, "r") as h:
                    rcs = h["pks2d/rc"][:]
                if not np.array_equal(rcs, np.asarray(tab.rc)):
                    V("save-load:rc", "saved pair list differs from the table's")
                # find_uniq(outputfile=...) only writes the graph
                fo = os.path.join(d, "graph.h5")
                with contextlib.redirect_stdout(io.StringIO()):
                    ans = tab.find_uniq(outputfile=fo)
                with h5py.File(fo, "r") as h:
                    gi, gj, gd = h["i"][:], h["j"][:], h["data"][:]
                run.count("graph_file_writes")
                if ans != (None, None) or not (np.array_equal(gi, ei) and np.array_equal(gj, ej) and
                                               np.array_equal(gd, np.asarray(tab.rc[2]))):
                    V("find_uniq:outputfile", "graph file written by find_uniq(outputfile=) is not the table's pair list")
                # ---- the DataSet route to the same tables (ds.pk2d / ds.pk4d with a monitor normalisation): the per-frame
                # scale is monitor_ref / monitor; the reference value is changed on the same object (same counter)
                try:
                    from ImageD11.sinograms import dataset
                    dsd = os.path.join(d, "dsroot")
                    with contextlib.redirect_stdout(io.StringIO()):
                        dso = dataset.DataSet(dataroot=dsd, analysisroot=dsd, sample="smp", dset="ds1")
                        os.makedirs(dso.datapath, exist_ok=True)
                        os.makedirs(os.path.dirname(dso.pksfile), exist_ok=True)
                        dso.scans = ["%d.1" % (k_ + 1) for k_ in range(omega.shape[0])]
                        dso.shape = omega.shape
                        dso.omega = omega.copy()
                        dso.omega_for_bins = dso.omega
                        dso.dty = dty.copy()
                        mon = r2.uniform(5e4, 2e5, omega.shape)
                        with h5py.File(dso.masterfile, "w") as hm:
                            for k_, sc_ in enumerate(dso.scans):
                                hm.create_dataset(sc_ + "/measurement/fpico6", data=mon[k_])
                        tab.find_uniq()
                        tab.save(dso.pksfile)
                        for refv in (float(np.mean(mon)), 1e5, 3.0e4):
                            dso.set_monitor("fpico6", ref_value_func=(lambda m_, v_=refv: v_))
                            got4, got2 = dso.pk4d, dso.pk2d
                            sf = refv / mon
                            want4 = tab.pk2dmerge(omega, dty, scale_factor=sf)
                            want2 = tab.pk2d(omega, dty, scale_factor=sf)
                            run.count("dataset_monitor_normalisations")
                            for what, gt, wt in (("pk4d", got4, want4), ("pk2d", got2, want2)):
                                if not np.allclose(np.asarray(gt["sum_intensity"], float), np.asarray(wt["sum_intensity"], float),
                                                   rtol=1e-12, atol=0):
                                    V("dataset:monitor-scale:" + what, "DataSet.%s after set_monitor(reference value %g) carries sum_intensity "
                                      "that is not scaled by reference/monitor of the peaks' frames (ratio to the expected values %.6g)"
                                      % (what, refv, float(np.median(np.asarray(gt["sum_intensity"], float) /
                                                                     np.asarray(wt["sum_intensity"], float)))))
                                    raise StopIteration
                except StopIteration:
                    pass
                except Exception as e:
                    run.count("dataset_route_raised")
                    run.extra.setdefault("dataset_route_raised", "%s: %s" % (type(e).__name__, str(e)[:300]))
                del t2
            finally:
                shutil.rmtree(d, ignore_errors=True)
    finally:
        del tab


def check(run, replay=None):
    import numba
    from ImageD11.sinograms import properties
    mods = (properties, numba)
    run.extra["numba_threading_layer"] = None
    run.extra["schedule_control"] = "none (numba prange is not instrumentable)"
    run.extra["numba_num_threads"] = int(numba.config.NUMBA_NUM_THREADS)
    if replay is not None:
        cs = replay["case"]
        if cs["kind"] == "graph":
            sz = [cs["nodes"]] * 12
            graph_case(run, replay["seed"], cs["index"], mods, sz, 5, cap=False)
        else:
            table_case(run, replay["seed"], cs["index"], mods, big=(cs["kind"] == "bigtable"))
        run.nontrivial.update(["replay", "replay2"])
        return
    if run.tier == "quick":
        sizes = [1, 2, 5, 17, 100, 999, 4096, 10000]
        for i in range(96):
            graph_case(run, run.seed, i, mods, sizes, 2)
        for i in range(60):
            table_case(run, run.seed, i, mods)
        table_case(run, run.seed, 0, mods, big=True)
    else:
        sizes = [1, 2, 5, 17, 100, 999, 4096, 10000, 100000, 1000000]
        # 12 classes x 10 sizes, twice; sized for about half an hour on an otherwise idle 16 core machine
        for i in range(240):
            graph_case(run, run.seed, i, mods, sizes, 4)
        for i in range(1500):
            table_case(run, run.seed, i, mods)
        for i in range(5):
            table_case(run, run.seed, i, mods, big=True)
    try:
        run.extra["numba_threading_layer"] = numba.threading_layer()
    except Exception as e:
        run.extra["numba_threading_layer"] = "unknown (%s)" % e
    run.extra["thread_counts"] = [t for t in THREADS if t <= numba.config.NUMBA_NUM_THREADS]
    run.require_counter("labelling_runs", 500)
    run.require_counter("merged_peaks_checked", 200)
    run.require_counter("tables_without_pairs", 2)
    run.require_counter("pair_dtype_runs", 20)
    run.require_counter("find_uniq_after_graph_edit", 20)
    run.require_counter("tables_with_per_count_scale", 5)
    for nt in THREADS:
        # a thread count that could not be set (NUMBA_NUM_THREADS too small) leaves the schedule quantifier unexplored
        run.require_counter("labelling_threads_%d" % nt, 50)
    for cls in set(CLASSES):
        run.require_counter("graphs_%s" % cls, 5)
        run.require_counter("max_nodes_%s" % cls, 600 if run.tier == "quick" else (30000 if cls == "chain-shuffled" else 1000000))
    run.require_counter("pk2dmerge_threads_1", 50)
    run.require_counter("pk2dmerge_labels_scipy_int32", 50)
    run.require_counter("pk2dmerge_labels_numba_int64", 50)
    for k in ("low-high", "high-low", "mixed"):
        run.require_counter("tables_edges_" + k, 5)
    run.require_counter("big_tables", 1)
    run.require_counter("dataset_monitor_normalisations", 9)
    run.require_counter("save_load_roundtrips", 10)
    run.require_counter("graph_file_writes", 10)


# workloads added in seeding rounds 7-10 (DESIGN.md sections 13.9-13.12)
LEVEL_TEXT = LEVEL_TEXT + ' Later additions: pk2d with omega and dty of different dtypes.'
LEVEL_TEXT = LEVEL_TEXT + ' Round 11: DataSet.pk2d / pk4d after set_monitor with several reference values on one object.'
