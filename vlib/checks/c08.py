"""C08 - the indexer reports only genuine grains and finds all of them on ideal data.

Soundness monitor on every reported UBI (any input): indexes > minpks supplied
g-vectors at hkl_tol (reference count, margin), right-handed, cell within the
tolerance-implied band, no two reports describing the same lattice.
Completeness on ideal data: every simulated grain matched exactly once.
"""
import contextlib, io, logging
import numpy as np
from .. import xtal, sim
from ..common import rng
from .c06 import ref_drlv2, band

TECHNIQUE = ("runtime soundness monitor on indexer.ubis/scores/ga after score_all_pairs / index / do_index (reference "
             "peak count with margin, handedness, cell band, pairwise lattice-equivalence) + completeness oracle against "
             "harness-simulated ground-truth grains (lattice equivalence, exactly-once matching)")
LEVEL_TEXT = ("Exploration: scenarios of 1..8 random well-separated grains x {cubic P/I/F, hexagonal, tetragonal, orthorhombic, "
              "monoclinic, rhombohedral} x tolerance sets; ideal g-vectors for completeness; noisy g-vectors with spurious on-ring "
              "peaks and missing peaks for soundness; every reported orientation is judged. d* limits are bounded so that <= ~10 "
              "rings are occupied (search cost), the all-ring-pairs search itself is kept.")
LEVEL_NOTE = ("Trusts the harness lattice enumeration and equivalence test; 'same lattice' for two reports = integer unimodular "
              "M within 0.5*hkl_tol/hmax; cell band 3*hkl_tol relative (3*hkl_tol rad for angles).")

RULE = ("a scenario = (lattice class, centring, n grains, tolerances, noise class); non-trivial = >= 2 grains or noisy/spurious "
        "input; distinct = (lattice class, centring, ngrains, minpks, hkl_tol, cosine_tol, ds_tol, noise class, route)")

LATT = [("cubic", "P"), ("cubic", "I"), ("cubic", "F"), ("hexagonal", "P"), ("tetragonal", "P"),
        ("orthorhombic", "P"), ("monoclinic", "P"), ("rhombohedral", "P"), ("tetragonal", "I"), ("orthorhombic", "C")]


def quiet():
    return contextlib.redirect_stdout(io.StringIO())


def count_indexed(ubi, gv, tol):
    d2, ih, h = ref_drlv2(ubi, gv)
    hm = float(np.abs(h).max()) if len(gv) else 0.0
    bw = band(tol, hm)
    t2 = np.longdouble(tol) ** 2
    lo = int((d2 < t2 - bw).sum())
    hi = int((d2 < t2 + bw).sum())
    return lo, hi


def soundness(run, V, ubis, gv_all, minpks, hkl_tol, cell, hmax, route):
    G0 = xtal.metric(cell)
    cell0 = np.array(cell, float)
    for k, u in enumerate(ubis):
        u = np.asarray(u, float)
        run.count("reported_ubis_judged")
        lo, hi = count_indexed(u, gv_all, hkl_tol)
        if hi <= minpks:
            V(route + ":too-few-peaks", "reported UBI #%d indexes %d..%d supplied g-vectors at hkl_tol=%g, not more than minpks=%g"
              % (k, lo, hi, hkl_tol, minpks), k)
        if not np.linalg.det(u) > 0:
            V(route + ":left-handed", "reported UBI #%d is left handed" % k, k)
        c = xtal.cell_from_metric(u @ u.T)
        rel = np.abs(c[:3] - cell0[:3]) / cell0[:3]
        dang = np.abs(c[3:] - cell0[3:])
        if rel.max() > 3 * hkl_tol + 1e-6 or dang.max() > np.degrees(3 * hkl_tol) + 1e-6:
            V(route + ":cell", "reported UBI #%d has cell %r, supplied %r (hkl_tol %g)" % (k, c.tolist(), cell, hkl_tol), k)
    thr = 0.5 * hkl_tol / max(1.0, hmax)
    for a in range(len(ubis)):
        for b in range(a + 1, len(ubis)):
            M = np.asarray(ubis[a]) @ np.linalg.inv(np.asarray(ubis[b]))
            Mi = np.round(M)
            if np.abs(M - Mi).max() < thr and abs(abs(np.linalg.det(Mi)) - 1) < 1e-9:
                V(route + ":duplicate-grain", "reported UBIs #%d and #%d describe the same lattice (|M-int| %.3g)"
                  % (a, b, np.abs(M - Mi).max()), a)


def make_scenario(r, idx, tier):
    kind, sym = LATT[idx % len(LATT)]
    cell = xtal.random_cell(r, kind, 3.0, 7.5)
    V = np.sqrt(np.linalg.det(xtal.metric(cell)))
    mult = {"P": 1, "I": 2, "F": 4, "C": 2}[sym]
    npts = float(r.uniform(70, 150))
    dsmax = float((npts * mult / (4.19 * V)) ** (1 / 3.0))
    hk, ds = sim.make_hkls(cell, sym, dsmax)
    ngr = int([1, 2, 3, 4, 5, 8][idx % 6])
    B = xtal.Bmat(cell)
    UBs = []
    tries = 0
    while len(UBs) < ngr and tries < 200:
        tries += 1
        U = xtal.random_rotation(r)
        UB = U @ B
        # well separated: not lattice-equivalent within 0.05 to any previous
        ok = True
        for v in UBs:
            M = np.linalg.inv(UB) @ v
            if np.abs(M - np.round(M)).max() < 0.08:
                ok = False
        if ok:
            UBs.append(UB)
    return kind, sym, cell, dsmax, hk, ds, UBs


def one_scenario(run, seed, idx, mods, noisy):
    indexing, unitcell, columnfile, parameters = mods
    r = rng(seed, "C08", "n" if noisy else "i", idx)
    kind, sym, cell, dsmax, hk, ds, UBs = make_scenario(r, idx, run.tier)
    ngr = len(UBs)
    nper = len(hk)
    if nper < 12:
        run.count("scenarios_skipped_few_reflections")
        return
    hkl_tol = float(r.choice([0.01, 0.02, 0.05]))
    cosine_tol = float(r.choice([0.002, 0.005, np.cos(np.radians(90 - 0.25))]))
    ds_tol = float(r.choice([0.002, 0.005, 0.01]))
    uniq = float(r.choice([0.5, 0.3, 0.7]))
    minpks = int(max(3, nper * float(r.uniform(0.25, 0.5))))
    boundary = (not noisy) and idx % 4 == 3
    gvs = [hk @ UB.T for UB in UBs]
    gid = np.concatenate([np.full(nper, i) for i in range(ngr)])
    gv = np.concatenate(gvs)
    ncls = "ideal"
    hmax = float(np.abs(hk).max())
    if noisy:
        ncls = ["noise", "noise+spurious", "noise+missing", "spurious", "all"][idx % 5]
        dmin = float(ds.min())
        if "noise" in ncls or ncls == "all":
            sig = float(r.uniform(0.05, 0.3)) * hkl_tol * dmin
            gv = gv + r.normal(0, sig, gv.shape)
        if "missing" in ncls or ncls == "all":
            keep = r.random(len(gv)) > float(r.uniform(0.05, 0.3))
            gv, gid = gv[keep], gid[keep]
        if "spurious" in ncls or ncls == "all":
            ns = int(len(gv) * float(r.uniform(0.1, 0.5)))
            v = r.normal(size=(ns, 3))
            v /= np.sqrt((v * v).sum(axis=1))[:, None]
            rr = r.choice(ds, ns) + r.normal(0, ds_tol / 4, ns)
            gv = np.concatenate([gv, v * rr[:, None]])
            gid = np.concatenate([gid, np.full(ns, -1)])
    perm = r.permutation(len(gv))
    gv, gid = np.ascontiguousarray(gv[perm]), gid[perm]
    if boundary:
        # "more than minpks" boundary: ask for exactly as many peaks as the best grain can give; nothing that indexes
        # only that many may be reported (completeness is not claimed for this class)
        counts = [count_indexed(np.linalg.inv(UB), gv, hkl_tol)[0] for UB in UBs]
        minpks = int(max(counts)) - int(idx % 8 == 7)
        ncls = "ideal-boundary-minpks"
        run.count("boundary_minpks_scenarios")
    route = ["score_all_pairs", "score_all_pairs", "score_all_pairs", "index", "do_index"][idx % 5]
    if boundary and route == "do_index":
        route = "score_all_pairs"      # do_index chooses its own minpks
    desc = dict(index=idx, noisy=noisy, kind=kind, sym=sym, cell=cell, ngrains=ngr, peaks_per_grain=nper, npeaks=len(gv),
                dsmax=dsmax, hkl_tol=hkl_tol, cosine_tol=cosine_tol, ds_tol=ds_tol, minpks=minpks, uniqueness=uniq,
                noise_class=ncls, route=route)

    def V(key, what, k=None):
        run.violation(key, what, dict(desc, ubi_index=k))

    uc = unitcell.unitcell(cell, sym)
    logging.disable(logging.CRITICAL)
    try:
        with quiet(), contextlib.redirect_stderr(io.StringIO()):
            if route == "score_all_pairs":
                ix = indexing.indexer(unitcell=uc, gv=gv, cosine_tol=cosine_tol, minpks=minpks, hkl_tol=hkl_tol,
                                      ds_tol=ds_tol, wavelength=0.1, uniqueness=uniq, max_grains=100)
                ix.score_all_pairs()
                ubis = [np.array(u) for u in ix.ubis]
            else:
                cf = columnfile.colfile_from_dict({"gx": gv[:, 0].copy(), "gy": gv[:, 1].copy(), "gz": gv[:, 2].copy(),
                                                   "omega": r.uniform(-180, 180, len(gv))})
                pr = {"cell__a": cell[0], "cell__b": cell[1], "cell__c": cell[2], "cell_alpha": cell[3],
                      "cell_beta": cell[4], "cell_gamma": cell[5], "cell_lattice_[P,A,B,C,I,F,R]": sym,
                      "wavelength": 0.1}
                cf.parameters = parameters.parameters(**pr)
                if route == "index":
                    ix = indexing.index(cf, npk_tol=[(minpks, hkl_tol)], cosine_tol=cosine_tol, ds_tol=ds_tol,
                                        max_grains=100, rmulmax=None, log_level=0)
                    ubis = [np.array(u) for u in ix.ubis]
                else:
                    uc.makerings(dsmax, ds_tol)
                    nring = len(uc.ringds)
                    res = indexing.do_index(cf, dstol=ds_tol, hkl_tols=(hkl_tol,), fracs=(0.45,), cosine_tol=cosine_tol,
                                            max_grains=100, forgen=list(range(min(nring, 4))), foridx=list(range(nring)))
                    grains, ix = res
                    ubis = [np.array(g.ubi) for g in grains]
                    # do_index sets its own minpks = n_peaks_expected*frac
                    minpks = ix.minpks
    finally:
        logging.disable(logging.NOTSET)
    run.count("indexer_runs")
    run.case((kind, sym, ngr, int(minpks), hkl_tol, round(cosine_tol, 4), ds_tol, ncls, route),
             nontrivial=(ngr >= 2 or noisy), sample=dict(desc, n_reported=len(ubis)))
    # for the do_index route the indexer sees only peaks on rings in foridx (all of them here)
    soundness(run, V, ubis, ix.gv if hasattr(ix, "gv") and ix.gv is not None else gv, minpks, float(ix.hkl_tol),
              cell, hmax, route)
    if len(ix.scores) != len(ix.ubis):
        V(route + ":scores-length", "len(scores) != len(ubis)")
    # completeness on ideal data
    if not noisy and not boundary:
        matched = [[] for _ in UBs]
        for k, u in enumerate(ubis):
            for g, UB in enumerate(UBs):
                M = u @ UB
                Mi = np.round(M)
                # the reported matrix is least-squares refined on every peak it indexes, which
                # includes accidental peaks of the other grains (error < hkl_tol), so it may
                # sit up to a fraction of hkl_tol from the generating lattice
                if np.abs(M - Mi).max() < 0.5 * hkl_tol and abs(np.linalg.det(Mi) - 1) < 1e-9:
                    matched[g].append(k)
        run.count("truth_grains_checked", ngr)
        for g, m in enumerate(matched):
            if len(m) == 0:
                V(route + ":grain-missed", "simulated grain %d of %d (ideal data, %d peaks each, minpks %g) was not reported"
                  % (g, ngr, nper, minpks), g)
            elif len(m) > 1:
                V(route + ":grain-twice", "simulated grain %d reported %d times" % (g, len(m)), g)
        extra = [k for k in range(len(ubis)) if not any(k in m for m in matched)]
        run.count("unmatched_reports_ideal", len(extra))


def check(run, replay=None):
    from ImageD11 import indexing, unitcell, columnfile, parameters
    mods = (indexing, unitcell, columnfile, parameters)
    if replay is not None:
        cs = replay["case"]
        one_scenario(run, replay["seed"], cs["index"], mods, cs["noisy"])
        run.nontrivial.update(["replay", "replay2"])
        return
    ni, nn = (24, 16) if run.tier == "quick" else (400, 300)
    for i in range(ni):
        one_scenario(run, run.seed, i, mods, False)
    for i in range(nn):
        one_scenario(run, run.seed, i, mods, True)
    run.require_counter("reported_ubis_judged", 20)
    run.require_counter("truth_grains_checked", 20)
    run.require_counter("boundary_minpks_scenarios", 3)
