"""C08 - the indexer reports only genuine grains and finds all of them on ideal data.

Soundness monitor on every reported UBI (any input): indexes > minpks supplied
g-vectors at hkl_tol (reference count, margin), right-handed, cell within the
tolerance-implied band, no two reports describing the same lattice.
Completeness on ideal data: every simulated grain matched exactly once.
"""
import contextlib, io, logging
import numpy as np
from .. import xtal, sim
from ..common import rng
from .c06 import ref_drlv2, band

TECHNIQUE = ("runtime soundness monitor on indexer.ubis/scores/ga after score_all_pairs / index / do_index (reference "
             "peak count with margin, handedness, cell band, pairwise lattice-equivalence) + completeness oracle against "
             "harness-simulated ground-truth grains (lattice equivalence, exactly-once matching)")
LEVEL_TEXT = ("Exploration: scenarios of 1..8 random well-separated grains x {cubic P/I/F, hexagonal, tetragonal, orthorhombic, "
              "monoclinic, rhombohedral} x tolerance sets (incl. cosine_tol < 0 = all candidates) x wavelengths, all drawn "
              "independently; ideal g-vectors for completeness; noisy g-vectors with spurious on-ring peaks, off-ring junk and "
              "missing peaks for soundness; a high-order class (|hkl| to 4-6, noise 0.2-0.25 of hkl_tol, orientations generated from "
              "the three lowest and three highest rings via rings_to_use) where a two-peak trial orientation is much worse than its "
              "fit; multi-pass drivers (index() with two (minpks, tol) passes, do_index with several hkl_tols/fracs) with the pass "
              "that produced each report recovered from a hook on indexer.scorethem. Every reported orientation is judged. d* limits "
              "are bounded so that <= ~10 rings are occupied in the all-ring-pairs scenarios (search cost).")
LEVEL_NOTE = ("Trusts the harness lattice enumeration and equivalence test. 'Same lattice': (i) two reports related by an integer "
              "unimodular M within 0.5*hkl_tol/hmax, or (ii) two reports that both give every reflection of one simulated grain its "
              "true (symmetry-equivalent) integer indices: |ubi.UB_true - M| < 1/(6 hmax). Cell band: for a report consistent with a "
              "simulated grain the rigorous bound ||E||_F <= sqrt(sum_i (tol+|noise_i|)^2)/sigma_min(H) over the peaks it certainly "
              "indexes (E = ubi.UB_true - M), else 3*hkl_tol relative. Completeness is claimed for noise-free data only.")

RULE = ("a scenario = (lattice class, centring, n grains, tolerances, noise class, route); non-trivial = >= 2 grains or "
        "noisy/spurious input; distinct = (lattice class, centring, ngrains, minpks, hkl_tol, cosine_tol, ds_tol, noise class, route)")

LATT = [("cubic", "P"), ("cubic", "I"), ("cubic", "F"), ("hexagonal", "P"), ("tetragonal", "P"),
        ("orthorhombic", "P"), ("monoclinic", "P"), ("rhombohedral", "P"), ("tetragonal", "I"), ("orthorhombic", "C")]


def quiet():
    return contextlib.redirect_stdout(io.StringIO())


def count_indexed(ubi, gv, tol):
    d2, ih, h = ref_drlv2(ubi, gv)
    hm = float(np.abs(h).max()) if len(gv) else 0.0
    bw = band(tol, hm)
    t2 = np.longdouble(tol) ** 2
    lo = int((d2 < t2 - bw).sum())
    hi = int((d2 < t2 + bw).sum())
    return lo, hi


def consistent_with(u, UB, hmax):
    """(M, dev) when ubi u gives every reflection (|h| <= hmax) of the lattice UB the indices M.h with M a proper
    symmetry operation of that lattice (integer, det +1, metric preserving), else None.  A pseudo-symmetric cell
    (a ~ b) also admits integer M that do not preserve the metric: those are another (wrong) indexing, not the same
    description, and are left to the cell-band test."""
    M = u @ UB
    Mi = np.round(M)
    dev = float(np.abs(M - Mi).max())
    if dev * 3 * max(1.0, hmax) < 0.5 and abs(np.linalg.det(Mi) - 1) < 1e-9:
        G = UB.T @ UB                      # reciprocal metric; h -> Mi.h keeps |g| iff Mi^T G' Mi = G' with ...
        Gi = np.linalg.inv(G)              # direct metric: rows of ubi transform with Mi
        if np.abs(Mi @ Gi @ Mi.T - Gi).max() < 1e-9 * np.abs(Gi).max():
            return Mi, dev
    return None


def soundness(run, V, ubis, passes, gv_all, cell, hmax, route, truth=None, refines=None):
    """ubis[k] was accepted while the indexer had (minpks, hkl_tol) = passes[k].  truth = (UBs, gid, noise) or None"""
    cell0 = np.array(cell, float)
    cons = {}
    for k, u in enumerate(ubis):
        u = np.asarray(u, float)
        minpks, hkl_tol = passes[k]
        run.count("reported_ubis_judged")
        lo, hi = count_indexed(u, gv_all, hkl_tol)
        if hi <= minpks:
            # which mechanism?  The gate in scorethem counts the peaks of the two-peak TRIAL orientation, the report is its
            # least-squares fit.  When the trial certainly had more than minpks peaks and the fit has not, the count was lost
            # in the refinement step (documented known finding); anything else is a report that never qualified.
            key = route + ":too-few-peaks"
            for before, after in (refines or []):
                if np.array_equal(after, u):
                    blo, bhi = count_indexed(before, gv_all, hkl_tol)
                    if blo > minpks:
                        key = "too-few-peaks:count-lost-in-refinement"
                    break
            V(key, "reported UBI #%d indexes %d..%d supplied g-vectors at hkl_tol=%g, not more than minpks=%g"
              % (k, lo, hi, hkl_tol, minpks), k)
        if not np.linalg.det(u) > 0:
            V(route + ":left-handed", "reported UBI #%d is left handed" % k, k)
        c = xtal.cell_from_metric(u @ u.T)
        rel = np.abs(c[:3] - cell0[:3]) / cell0[:3]
        dang = np.abs(c[3:] - cell0[3:])
        if rel.max() > 3 * hkl_tol + 1e-6 or dang.max() > np.degrees(3 * hkl_tol) + 1e-6:
            V(route + ":cell", "reported UBI #%d has cell %r, supplied %r (hkl_tol %g)" % (k, c.tolist(), cell, hkl_tol), k)
        if truth is None:
            continue
        UBs, gid, noise = truth
        for g, UB in enumerate(UBs):
            cw = consistent_with(u, UB, hmax)
            if cw is None:
                continue
            Mi, dev = cw
            # ... and it must really index the grain: at least half of the grain's supplied peaks within the tolerance of
            # its pass, with the true (symmetry-equivalent) indices.  With few low-order reflections (single-ring data,
            # hmax = 1) the rounding test above alone would accept an orientation 9 degrees away (witness: thorough seed 1,
            # tetragonal P, three grains on the {111} ring, two of them 9 degrees apart modulo 4/mmm).
            selg = np.flatnonzero(gid == g)
            if len(selg) == 0:
                continue
            hg = u @ gv_all[selg].T                                        # 3 x n
            htrue = np.round(np.linalg.inv(UB) @ (gv_all[selg] - noise[selg]).T)
            good = (np.abs(hg - Mi @ htrue).max(axis=0) < 0.5) & (((hg - np.round(hg)) ** 2).sum(axis=0) < hkl_tol ** 2)
            if good.mean() < 0.5:
                continue
            cons.setdefault(g, []).append(k)
            # what the tolerance allows for THIS report: every peak i of grain g that it certainly indexes obeys
            # |(Mi+E).h_i + u.noise_i - Mi.h_i|_2 < tol, so |E.h_i| < tol + |u.noise_i| and
            # ||E||_F <= ||E.H||_F / sigma_min(H).  Rows of ubi are the cell vectors: ubi = (Mi+E).A with A = inv(UB).
            sel = np.flatnonzero(gid == g)
            d2, ih, hh = ref_drlv2(u, gv_all[sel])
            sure = np.asarray(d2 < np.longdouble(hkl_tol) ** 2 * 0.98, bool)
            if sure.sum() < 3:
                continue
            A = np.linalg.inv(UB)
            H = (A @ (gv_all[sel][sure] - noise[sel][sure]).T)            # true hkl, 3 x n
            smin = np.linalg.svd(H, compute_uv=False)[-1]
            if smin < 1e-6:
                continue
            un = np.sqrt(((noise[sel][sure] @ u.T) ** 2).sum(axis=1))
            eb = float(np.sqrt(((hkl_tol + un) ** 2).sum()) / smin) * 1.02 + 1e-9
            E = u @ UB - Mi
            ef = float(np.sqrt((E * E).sum()))
            run.count("cell_bound_evaluated")
            run.setmax("max_E_over_bound", ef / eb)
            ref = Mi @ A
            cref = xtal.cell_from_metric(ref @ ref.T)
            if np.abs(cref[:3] - cell0[:3]).max() > 1e-6 * cell0[:3].max() or np.abs(cref[3:] - cell0[3:]).max() > 1e-5:
                run.count("harness_metric_preserving_M_changed_cell")       # cannot happen; counted, not judged
            elif ef > eb:
                V(route + ":cell-beyond-tolerance", "reported UBI #%d: |ubi.UB_true - M|_F = %.3g but the %d peaks it indexes "
                  "within hkl_tol=%g allow at most %.3g" % (k, ef, int(sure.sum()), hkl_tol, eb), k)
    grouped = set()
    for g, ks in cons.items():
        grouped.update((a, b) for a in ks for b in ks if a < b)     # judged by the truth-based rule below
    for a in range(len(ubis)):
        thr = 0.5 * min(passes[a][1], 1e9) / max(1.0, hmax)
        for b in range(a + 1, len(ubis)):
            if (a, b) in grouped:
                continue
            M = np.asarray(ubis[a]) @ np.linalg.inv(np.asarray(ubis[b]))
            Mi = np.round(M)
            if np.abs(M - Mi).max() < min(thr, 0.5 * passes[b][1] / max(1.0, hmax)) and abs(abs(np.linalg.det(Mi)) - 1) < 1e-9:
                kk = route + (":duplicate-grain" if passes[a] == passes[b] else ":duplicate-grain-across-passes")
                # one of the two describes a simulated grain (the other indexes less than half of that grain's peaks with the
                # true indices, so the truth-based rule below does not see the pair): the same classification applies - when
                # the earlier report, at the tolerance of its own pass, certainly indexes < 85 % of the grain's supplied
                # peaks, the left-over peaks seeded the second report (documented known finding)
                gk = [g_ for g_, ks_ in cons.items() if a in ks_ or b in ks_]
                if gk and truth is not None:
                    sel_ = np.flatnonzero(truth[1] == gk[0])
                    d2_, _, _ = ref_drlv2(np.asarray(ubis[a], float), gv_all[sel_])
                    f_ = float(np.asarray(d2_ < np.longdouble(passes[a][1]) ** 2 * 0.98, bool).mean()) if len(sel_) else 1.0
                    if f_ < 0.85:
                        kk = "same-grain-twice:leftover-peaks-outside-tolerance"
                V(kk, "reported UBIs #%d and #%d describe the same lattice (|M-int| %.3g)"
                  % (a, b, np.abs(M - Mi).max()), a)
    # two reports that both index one simulated grain with its true integer indices describe the same lattice
    for g, ks in cons.items():
        if len(ks) > 1:
            # Which mechanism?  A report is accepted only if more than `uniqueness` (>= 0.3) of the peaks it indexes are
            # still free.  When the first report of this grain, at the tolerance of its own pass, certainly indexes
            # >= 85 % of the grain's supplied peaks, less than 15 % of them can be free afterwards and a second
            # acceptance cannot come from the data.  Otherwise a large part of the grain lies outside the tolerance the
            # first report was accepted with (noise comparable with hkl_tol, or a later pass with a looser hkl_tol) and
            # those left-over peaks seed the second report: the documented known finding.
            UBs, gid, noise = truth
            sel = np.flatnonzero(gid == g)
            d2, ih, hh = ref_drlv2(np.asarray(ubis[ks[0]], float), gv_all[sel])
            f = float(np.asarray(d2 < np.longdouble(passes[ks[0]][1]) ** 2 * 0.98, bool).mean()) if len(sel) else 0.0
            kk = route + ":same-grain-twice" if f >= 0.85 else "same-grain-twice:leftover-peaks-outside-tolerance"
            V(kk, "simulated grain %d is described by %d reported orientations %r (passes %r); the first "
              "indexes %.0f%% of the grain's %d supplied peaks at its own tolerance"
              % (g, len(ks), ks, [passes[k] for k in ks], 100 * f, len(sel)), ks[0])
    run.count("truth_duplicate_checks", len(cons))
    return cons


def well_separated(r, B, ngr):
    UBs = []
    tries = 0
    while len(UBs) < ngr and tries < 200:
        tries += 1
        UB = xtal.random_rotation(r) @ B
        ok = True
        for v in UBs:
            M = np.linalg.inv(UB) @ v
            if np.abs(M - np.round(M)).max() < 0.08:
                ok = False
        if ok:
            UBs.append(UB)
    return UBs


def make_scenario(r, idx, mode):
    if mode == "hiorder":
        kind, sym, hm = [("cubic", "P", 4.2), ("cubic", "F", 6.5), ("cubic", "I", 5.2), ("tetragonal", "P", 4.2),
                         ("hexagonal", "P", 4.2), ("orthorhombic", "P", 4.2), ("tetragonal", "I", 5.2)][idx % 7]
        cell = xtal.random_cell(r, kind, 3.5, 4.8)
        dsmax = hm / max(cell[:3])
        ngr = int(r.choice([2, 3]))
    else:
        kind, sym = LATT[idx % len(LATT)]
        cell = xtal.random_cell(r, kind, 3.0, 7.5)
        V = np.sqrt(np.linalg.det(xtal.metric(cell)))
        mult = {"P": 1, "I": 2, "F": 4, "C": 2}[sym]
        npts = float(r.uniform(70, 150))
        dsmax = float((npts * mult / (4.19 * V)) ** (1 / 3.0))
        ngr = int(r.choice([1, 2, 3, 4, 5, 8]))
    hk, ds = sim.make_hkls(cell, sym, dsmax)
    UBs = well_separated(r, xtal.Bmat(cell), ngr)
    return kind, sym, cell, dsmax, hk, ds, UBs


class PassLog(object):
    """hook on indexer.scorethem: which (minpks, hkl_tol) was in force when each ubi was appended"""

    def __init__(self, indexing):
        self.indexing = indexing
        self.passes = []

    def __enter__(self):
        log = self
        self.orig = orig = self.indexing.indexer.scorethem

        def scorethem(ix, *a, **k):
            n0 = len(ix.ubis)
            try:
                return orig(ix, *a, **k)
            finally:
                log.passes.extend([(float(ix.minpks), float(ix.hkl_tol))] * (len(ix.ubis) - n0))
        self.indexing.indexer.scorethem = scorethem
        # the least-squares step between the acceptance gate (count of the TRIAL orientation) and the report
        self.refines = []
        self.orig_sr = orig_sr = self.indexing.cImageD11.score_and_refine

        def score_and_refine(ubi, gv, tol):
            before = np.array(ubi, copy=True)
            out = orig_sr(ubi, gv, tol)
            log.refines.append((before, np.array(ubi, copy=True)))
            return out
        self.indexing.cImageD11.score_and_refine = score_and_refine
        return self

    def __exit__(self, *a):
        self.indexing.indexer.scorethem = self.orig
        self.indexing.cImageD11.score_and_refine = self.orig_sr


def one_scenario(run, seed, idx, mods, mode):
    indexing, unitcell, columnfile, parameters = mods
    if mode is True:
        mode = "noisy"
    elif mode is False:
        mode = "ideal"
    noisy = mode != "ideal"
    r = rng(seed, "C08", {"ideal": "i2", "noisy": "n2", "hiorder": "h"}[mode], idx)
    kind, sym, cell, dsmax, hk, ds, UBs = make_scenario(r, idx, mode)
    ngr = len(UBs)
    nper = len(hk)
    if nper < 12:
        run.count("scenarios_skipped_few_reflections")
        return
    hkl_tol = float(r.choice([0.01, 0.02, 0.05]))
    cosine_tol = float(r.choice([0.002, 0.005, np.cos(np.radians(90 - 0.25)), -1.0], p=[0.3, 0.3, 0.3, 0.1]))
    ds_tol = float(r.choice([0.002, 0.005, 0.01]))
    uniq = float(r.choice([0.5, 0.3, 0.7]))
    wavelength = float(r.choice([0.1, 0.3, 0.7093, 1.5406]))
    minpks = int(max(3, nper * float(r.uniform(0.25, 0.5))))
    boundary = mode == "ideal" and r.random() < 0.25
    single_ring = False
    force_reset = mode == "ideal" and idx % 5 == 2 and idx % 6 != 4
    if force_reset:
        boundary = False
    if mode == "ideal" and idx % 6 == 4:
        # all supplied g-vectors lie on ONE powder ring (a low d* cut-off): the only ring pair is that ring with itself.
        # Use a ring with >= 8 members (non-collinear pairs exist for every grain), few grains, and ask for nearly all of a
        # grain's peaks so that no accidental orientation can qualify.
        dsu = np.unique(np.round(ds, 9))
        cand = [d for d in dsu if int((np.abs(ds - d) < 1e-9).sum()) >= 6]
        if cand:
            # (rings of six, e.g. {100} of a primitive cubic cell, allow a single interplanar cosine: the leanest input the
            # pair search can work from)
            d0 = cand[int(r.integers(0, min(3, len(cand))))]
            if idx % 12 == 10:
                d0 = min(cand, key=lambda d: (int((np.abs(ds - d) < 1e-9).sum()), d))    # the leanest ring ({100} for cubic P)
            sel = np.abs(ds - d0) < 1e-9
            hk, ds = hk[sel], ds[sel]
            nper = len(hk)
            UBs = UBs[:min(len(UBs), 5)]
            ngr = len(UBs)
            minpks = nper - 2
            hkl_tol = float(r.choice([0.01, 0.02]))
            boundary = False
            single_ring = True
            run.count("single_ring_scenarios")
    gvs = [hk @ UB.T for UB in UBs]
    gid = np.concatenate([np.full(nper, i) for i in range(ngr)])
    gv0 = np.concatenate(gvs)
    noise = np.zeros_like(gv0)
    ncls = "ideal"
    hmax = float(np.abs(hk).max())
    route = str(r.choice(["score_all_pairs", "index", "do_index", "index2", "do_index2"], p=[0.4, 0.15, 0.15, 0.15, 0.15]))
    if force_reset:
        route = "score_all_pairs"
    if single_ring:
        route = str(r.choice(["score_all_pairs", "index"]))
        ncls = "ideal-single-ring"
    rings_to_use = None
    if mode == "hiorder":
        # noise sigma 0.2-0.25 of hkl_tol in hkl units (comfortably inside the tolerance for a fitted orientation) but
        # reflections out to |h| ~ 4-6: an orientation made from two low-order peaks misses the high orders
        ncls = "hiorder-noise"
        hkl_tol = float(r.choice([0.05, 0.03]))
        cosine_tol, ds_tol, uniq = 0.01, 0.01, 0.5
        minpks = int(0.3 * nper)
        noise = r.normal(0, float(r.uniform(0.2, 0.25)) * hkl_tol / max(cell[:3]), gv0.shape)
        route = "score_all_pairs"
        rings_to_use = "ends"
    elif noisy:
        ncls = str(r.choice(["noise", "noise+spurious", "noise+missing", "spurious", "junk", "all", "noise-wide"]))
        if idx % 8 == 5:
            ncls = "shell"
        dmin = float(ds.min())
        if ncls == "shell":
            # 40-50 % of every grain's peaks sit just OUTSIDE the tolerance sphere in hkl space (|dh| = 1.1-1.3 hkl_tol with
            # every single component, and every pair of components, inside the tolerance); minpks lies between the number
            # of peaks really indexed and the number a per-axis test would count: nothing may be reported with <= minpks
            frac = float(r.uniform(0.4, 0.5))
            out = r.random(len(gv0)) < frac
            e = r.choice([-1.0, 1.0], (len(gv0), 3)) * r.uniform(0.9, 1.1, (len(gv0), 3))
            e *= (float(r.uniform(1.1, 1.3)) * hkl_tol / np.sqrt((e * e).sum(axis=1)))[:, None]
            e[~out] = 0.0
            noise = np.concatenate([e[gid == g] @ UBs[g].T for g in range(ngr)])
            minpks = int(nper * (1.0 - 0.5 * frac))
            route = "score_all_pairs"
            run.count("noise_shell_scenarios")
        elif ncls == "noise-wide":
            # errors comparable with the (first) tolerance: many peaks of a grain lie between a tight and a loose pass
            noise = r.normal(0, float(r.uniform(0.5, 0.9)) * hkl_tol / max(cell[:3]), gv0.shape)
        elif "noise" in ncls or ncls == "all":
            sig = float(r.uniform(0.05, 0.3)) * hkl_tol * dmin
            noise = r.normal(0, sig, gv0.shape)
    gv = gv0 + noise
    if noisy and mode != "hiorder":
        if "missing" in ncls or ncls == "all":
            keep = r.random(len(gv)) > float(r.uniform(0.05, 0.3))
            gv, gid, noise = gv[keep], gid[keep], noise[keep]
        if "spurious" in ncls or ncls == "all":
            ns = int(len(gv) * float(r.uniform(0.1, 0.5)))
            v = r.normal(size=(ns, 3))
            v /= np.sqrt((v * v).sum(axis=1))[:, None]
            rr = r.choice(ds, ns) + r.normal(0, ds_tol / 4, ns)
            gv = np.concatenate([gv, v * rr[:, None]])
            gid = np.concatenate([gid, np.full(ns, -1)])
            noise = np.concatenate([noise, np.zeros((ns, 3))])
        if ncls in ("junk", "all"):
            # peaks anywhere in the d* ball (mostly not on any ring), plus a few exact duplicates of real peaks
            ns = int(len(gv) * float(r.uniform(0.1, 0.3)))
            v = r.normal(size=(ns, 3))
            v *= (dsmax * r.random(ns) ** (1 / 3.0) / np.sqrt((v * v).sum(axis=1)))[:, None]
            dup = gv[r.integers(0, len(gv), 3)]
            gv = np.concatenate([gv, v, dup])
            gid = np.concatenate([gid, np.full(ns + 3, -1)])
            noise = np.concatenate([noise, np.zeros((ns + 3, 3))])
    perm = r.permutation(len(gv))
    gv, gid, noise = np.ascontiguousarray(gv[perm]), gid[perm], noise[perm]
    if boundary:
        # "more than minpks" boundary: ask for exactly as many peaks as the best grain can give; nothing that indexes
        # only that many may be reported (completeness is not claimed for this class)
        counts = [count_indexed(np.linalg.inv(UB), gv, hkl_tol)[0] for UB in UBs]
        minpks = int(max(counts)) - int(r.random() < 0.5)
        ncls = "ideal-boundary-minpks"
        run.count("boundary_minpks_scenarios")
        if route in ("do_index", "do_index2", "index2"):
            route = "score_all_pairs"      # do_index chooses its own minpks
    # second, looser pass for the multi-pass drivers
    tol2 = float(min(0.05, hkl_tol * float(r.choice([2.0, 2.5]))))
    minpks2 = int(max(3, minpks * float(r.uniform(0.6, 1.0))))
    desc = dict(index=idx, noisy=noisy, mode=mode, kind=kind, sym=sym, cell=cell, ngrains=ngr, peaks_per_grain=nper,
                npeaks=len(gv), dsmax=dsmax, hkl_tol=hkl_tol, cosine_tol=cosine_tol, ds_tol=ds_tol, minpks=minpks,
                uniqueness=uniq, noise_class=ncls, route=route, wavelength=wavelength)

    def V(key, what, k=None):
        run.violation(key, what, dict(desc, ubi_index=k))

    uc = unitcell.unitcell(cell, sym)
    skip_passes, reset_dirty = 0, None
    logging.disable(logging.CRITICAL)
    try:
        with quiet(), contextlib.redirect_stderr(io.StringIO()), PassLog(indexing) as plog:
            import warnings
            warnings.simplefilter("ignore")
            if route == "score_all_pairs":
                ix = indexing.indexer(unitcell=uc, gv=gv, cosine_tol=cosine_tol, minpks=minpks, hkl_tol=hkl_tol,
                                      ds_tol=ds_tol, wavelength=wavelength, uniqueness=uniq, max_grains=100)
                if rings_to_use == "ends":
                    ix.assigntorings()
                    occ = sorted(int(q) for q in set(ix.ra.tolist()) if q >= 0)
                    ix.score_all_pairs(rings_to_use=occ[:3] + occ[-3:])
                    route = "score_all_pairs:rings_to_use"
                else:
                    ix.score_all_pairs()
                    rh = rng(seed, "C08", "reset", mode, idx)
                    if mode == "ideal" and not boundary and not single_ring and (force_reset or rh.random() < 0.4):
                        # one indexer object, two searches: reset() must give back an empty indexer, and a second search
                        # asking for (nearly) complete grains must be judged on its own
                        ix.reset()
                        run.count("reset_histories")
                        if len(ix.ubis) or len(ix.scores) or (np.asarray(ix.ga) != -1).any():
                            reset_dirty = "after reset() the indexer still holds %d orientations, %d scores, %d assigned peaks" \
                                % (len(ix.ubis), len(ix.scores), int((np.asarray(ix.ga) != -1).sum()))
                        skip_passes = len(plog.passes)
                        minpks = nper - 1
                        ix.minpks = minpks
                        ix.score_all_pairs()
                        route = "score_all_pairs:after-reset"
                ubis = [np.array(u) for u in ix.ubis]
            else:
                om_col = r.uniform(-180, 180, len(gv))
                # do_index sets minpks = frac x (multiplicity x covered omega range / 180).  The simulated grains supply
                # every reflection once = what a half-turn scan gives.  Half of the do_index runs therefore say so in the
                # omega column (a 180 degree scan starting anywhere, also one that passes through 0 = 360, as motor positions
                # -90..90 or 270..450) and ask for twice the fraction; the others keep the full turn and the small fraction.
                rs = rng(seed, "C08", "scan", mode, idx)
                half_turn = route in ("do_index", "do_index2") and bool(rs.random() < 0.6)
                if half_turn:
                    start = float([-90.0, 270.0, -45.0, 300.0, 0.0, -180.0, 135.0, float(rs.uniform(-360, 360))][int(rs.integers(8))])
                    om_col = start + rs.uniform(0, 180, len(gv))
                    run.count("do_index_half_turn_scans")
                    if (np.floor(om_col / 360.0).min() != np.floor(om_col / 360.0).max()):
                        run.count("do_index_half_turn_scans_through_zero")
                        run.count("do_index_half_turn_scans_through_zero:" + mode)
                    desc["omega_scan"] = [start, start + 180.0]
                cf = columnfile.colfile_from_dict({"gx": gv[:, 0].copy(), "gy": gv[:, 1].copy(), "gz": gv[:, 2].copy(),
                                                   "omega": om_col})
                pr = {"cell__a": cell[0], "cell__b": cell[1], "cell__c": cell[2], "cell_alpha": cell[3],
                      "cell_beta": cell[4], "cell_gamma": cell[5], "cell_lattice_[P,A,B,C,I,F,R]": sym,
                      "wavelength": wavelength}
                cf.parameters = parameters.parameters(**pr)
                if route in ("index", "index2"):
                    npk_tol = [(minpks, hkl_tol)] if route == "index" else [(minpks, hkl_tol), (minpks2, tol2)]
                    ix = indexing.index(cf, npk_tol=npk_tol, cosine_tol=cosine_tol, ds_tol=ds_tol,
                                        max_grains=100, rmulmax=None, log_level=0)
                    ubis = [np.array(u) for u in ix.ubis]
                else:
                    uc.makerings(dsmax, ds_tol)
                    nring = len(uc.ringds)
                    tols, fr = ((hkl_tol,), (0.45,)) if route == "do_index" else ((hkl_tol, tol2), (0.6, 0.4))
                    if half_turn:
                        fr = tuple(2 * f for f in fr) if route == "do_index" else (0.95, 0.8)
                    res = indexing.do_index(cf, dstol=ds_tol, hkl_tols=tols, fracs=fr, cosine_tol=cosine_tol,
                                            max_grains=100, forgen=list(range(min(nring, 4))), foridx=list(range(nring)))
                    grains, ix = res
                    ubis = [np.array(g.ubi) for g in grains]
    except (IndexError, AssertionError, ZeroDivisionError, ValueError, np.linalg.LinAlgError) as e:
        # the search itself died: nothing is reported, so nothing of the statement can be judged
        logging.disable(logging.NOTSET)
        import traceback
        tb = traceback.extract_tb(e.__traceback__)[-1]
        run.count("indexer_exceptions")
        run.extra.setdefault("indexer_exceptions", []).append(
            dict(desc, error="%s: %s at %s:%d" % (type(e).__name__, e, tb.filename.split("/")[-1], tb.lineno)))
        return
    finally:
        logging.disable(logging.NOTSET)
    passes = list(plog.passes)[skip_passes:]
    if reset_dirty:
        V("reset:not-empty", reset_dirty)
    run.count("indexer_runs")
    if len(passes) != len(ubis):
        run.count("pass_log_mismatch")
        V(route + ":hook", "scorethem hook saw %d accepted orientations but %d are reported" % (len(passes), len(ubis)))
        return
    run.count("multi_pass_runs", int(route in ("index2", "do_index2")))
    run.count("runs_reporting_from_two_passes", int(len(set(passes)) > 1))
    desc["route"] = route
    desc["passes"] = sorted(set(passes))
    run.case((kind, sym, ngr, int(minpks), hkl_tol, round(cosine_tol, 4), ds_tol, ncls, route),
             nontrivial=(ngr >= 2 or noisy), sample=dict(desc, n_reported=len(ubis)))
    # the indexer sees only peaks on rings in foridx in the do_index route (all of them here) -> judge on ix.gv;
    # truth bookkeeping needs the same rows, so map through exact equality of the rows
    gv_seen = ix.gv if getattr(ix, "gv", None) is not None else gv
    truth = None
    if len(gv_seen) == len(gv) and np.array_equal(gv_seen, gv):
        truth = (UBs, gid, noise)
    else:
        key = {tuple(row): i for i, row in enumerate(gv.tolist())}
        rows = [key.get(tuple(row)) for row in np.asarray(gv_seen).tolist()]
        if all(q is not None for q in rows):
            rows = np.array(rows, int)
            truth = (UBs, gid[rows], noise[rows])
    if truth is None:
        run.count("truth_rows_unmapped")
    cons = soundness(run, V, ubis, passes, np.asarray(gv_seen, float), cell, hmax, route, truth, plog.refines)
    if len(ix.scores) != len(ix.ubis):
        V(route + ":scores-length", "len(scores) != len(ubis)")
    if mode == "hiorder":
        run.count("hiorder_scenarios")
    # completeness on ideal data
    if not noisy and not boundary:
        # every pass asks for <= the first pass' minpks at >= its tolerance: a grain of ideal data must be found
        tolmin = min(t for _, t in passes) if passes else hkl_tol
        # "reported, up to lattice symmetry": some report indexes EVERY supplied peak of the simulated grain at the
        # tolerance of its pass.  (Deciding this on the matrix ubi.UB_true would demand integer entries in the
        # conventional basis; for centred and pseudo-symmetric cells - orthorhombic C with b ~ sqrt(3) a - the indexer
        # legitimately returns the lattice turned by a (pseudo-)symmetry operation, whose matrix has half-integer entries
        # there.  The cell-parameter test of the soundness part already excludes sub- and super-lattices.)
        matched = [[] for _ in UBs]
        gseen = np.asarray(gv_seen, float)
        if truth is not None:
            tg = truth[1]
            for k, u in enumerate(ubis):
                d2, ih, hh = ref_drlv2(np.asarray(u, float), gseen)
                inside = np.asarray(d2 < np.longdouble(passes[k][1]) ** 2 * 1.02, bool)
                for g in range(len(UBs)):
                    sel = tg == g
                    if sel.any() and inside[sel].all():
                        matched[g].append(k)
        else:
            run.count("completeness_skipped_rows_unmapped")
            return
        run.count("truth_grains_checked", ngr)
        for g, m in enumerate(matched):
            if len(m) == 0:
                key = route + ":grain-missed"
                # Which mechanism?  scorethem gates on the orientation unitcell.orient gives in NEAREST mode and looks at the
                # other hkl assignments of the same angle (crange mode) only if that one already indexes more than minpks
                # peaks.  When for EVERY non-collinear pair of the grain's peaks the nearest-mode orientation fails the gate
                # while an alternative of the same angle class passes it, the grain cannot be found whatever pairs are
                # tried: the documented known finding.  Anything else (some pair passes in nearest mode) stays a violation.
                try:
                    selg = np.flatnonzero(tg == g)
                    ra_ = np.asarray(ix.ra)
                    tolp = passes[0][1] if passes else hkl_tol
                    if 0 < len(selg) <= 30 and len(ra_) == len(gseen):
                        # find() keeps, for every peak, the partner whose cosine is nearest to an allowed one; on exact data
                        # several partners tie at distance 0.  The mechanism holds for a peak if one of its best partners
                        # (within 1e-10 of the smallest distance) gives a nearest-mode orientation that fails the gate while
                        # another assignment of the same angle passes it; it explains the miss only if it holds for EVERY
                        # peak of the grain that is on a ring.
                        holds = []
                        for a_ in selg:
                            if ra_[a_] < 0:
                                continue
                            best = []
                            for b_ in selg:
                                if a_ == b_ or ra_[b_] < 0:
                                    continue
                                ga_, gb_ = gseen[a_], gseen[b_]
                                c_ = float(ga_ @ gb_ / np.sqrt((ga_ @ ga_) * (gb_ @ gb_)))
                                if abs(c_) > 0.98:
                                    continue
                                allowed = np.asarray(ix.unitcell.getanglehkls(int(ra_[a_]), int(ra_[b_]))[1], float)
                                best.append((float(np.abs(allowed - c_).min()) if len(allowed) else 9.0, b_))
                            if not best:
                                holds.append(False)
                                continue
                            dmin = min(d_ for d_, _ in best)
                            ok_ = False
                            for d_, b_ in best:
                                if d_ > dmin + 1e-10:
                                    continue
                                ix.unitcell.orient(int(ra_[a_]), gseen[a_], int(ra_[b_]), gseen[b_], verbose=0)
                                if count_indexed(np.array(ix.unitcell.UBI), gseen, tolp)[1] > minpks:
                                    continue
                                ix.unitcell.orient(int(ra_[a_]), gseen[a_], int(ra_[b_]), gseen[b_], verbose=0, crange=abs(cosine_tol))
                                if any(count_indexed(np.array(u_), gseen, tolp)[0] > minpks for u_ in ix.unitcell.UBIlist):
                                    ok_ = True
                                    break
                            holds.append(ok_)
                        if holds and all(holds):
                            key = "grain-missed:gate-applied-before-alternative-assignments"
                except Exception as e_:
                    run.extra.setdefault("missed_grain_classifier_raised", "%s: %s" % (type(e_).__name__, str(e_)[:200]))
                V(key, "simulated grain %d of %d (ideal data, %d peaks each, minpks %g) was not reported"
                  % (g, ngr, nper, minpks), g)
            elif len(m) > 1:
                V(route + ":grain-twice", "simulated grain %d reported %d times" % (g, len(m)), g)
        extra = [k for k in range(len(ubis)) if not any(k in m for m in matched)]
        run.count("unmatched_reports_ideal", len(extra))


def check(run, replay=None):
    from ImageD11 import indexing, unitcell, columnfile, parameters
    mods = (indexing, unitcell, columnfile, parameters)
    if replay is not None:
        cs = replay["case"]
        one_scenario(run, replay["seed"], cs["index"], mods, cs.get("mode", cs["noisy"]))
        run.nontrivial.update(["replay", "replay2"])
        return
    ni, nn, nh = (30, 24, 14) if run.tier == "quick" else (500, 400, 250)
    for i in range(ni):
        one_scenario(run, run.seed, i, mods, "ideal")
    for i in range(nn):
        one_scenario(run, run.seed, i, mods, "noisy")
    for i in range(nh):
        one_scenario(run, run.seed, i, mods, "hiorder")
    run.require_counter("reported_ubis_judged", 20)
    run.require_counter("truth_grains_checked", 20)
    run.require_counter("boundary_minpks_scenarios", 3)
    run.require_counter("hiorder_scenarios", 8)
    run.require_counter("single_ring_scenarios", 3)
    run.require_counter("noise_shell_scenarios", 2)
    run.require_counter("reset_histories", 2)
    run.require_counter("multi_pass_runs", 3)
    run.require_counter("do_index_half_turn_scans_through_zero:ideal", 1)
    run.require_counter("cell_bound_evaluated", 20)


# workloads added in seeding rounds 7-10 (DESIGN.md sections 13.9-13.12)
LEVEL_TEXT = LEVEL_TEXT + " Later additions: half-turn omega scans through 0 = 360 in do_index with the fraction such scans allow; noise class 'shell' (peaks just outside the tolerance sphere with every component inside)."
