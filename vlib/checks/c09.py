"""C09 - grain refinement recovers orientation, cell and position from simulated data.

Oracle: independent forward simulator (vlib.sim / vlib.geom): peaks with
ground-truth (grain id, hkl) from known strained grains at known positions, for
geometry classes with flips, tilts, wedge, chi, omegasign.  The real
refinegrains flow (files in, files out) is run from perturbed starts and the
refined values, labels and saved files are compared with the truth.
"""
import contextlib, io, os, shutil, subprocess, sys, tempfile
import numpy as np
from .. import xtal, sim, geom
from ..common import rng, WORK, PY, REPO

TECHNIQUE = ("runtime ground-truth monitor: harness forward simulator (closed-form Laue solution, ray/detector intersection) "
             "-> real refinegrains file flow (loadparameters/loadfiltered/readubis/generate_grains/refinepositions/refineubis/"
             "savegrains, and scripts/makemap.py) -> refined UBI/translation/labels/saved h,k,l compared with the generating values")
LEVEL_TEXT = ("Exploration: 1..5 strained grains (<=5e-3) at |t|<=500um, geometry classes of C01 (all flips, pixel signs, tilts, "
              "wedge, chi, omegasign), omega floated or as observed, starts perturbed by 0.1-0.5 deg and <=50um; exact (noise-free) "
              "peaks so the optimum is the truth. Every scenario checks the refined state against the truth on the optimiser's own objective (excess <= 2 in 1e6<drlv2>), UBI (1e-4 rel), translation (25um per grain; median <= 0.75um, p90 <= 2um over the run), per-peak label = "
              "generator, saved hkl = simulated hkl, saved files = in-memory values to print precision.")
LEVEL_NOTE = ("Trusts the harness simulator (cross-checked against the C01 model to 2e-15) and the stated optimiser tolerances "
              "(empirical: worst observed 6e-6 / 3.4um / 0.031; thresholds 3-10x above); peak files carry 4 decimals.")

RULE = ("a scenario = (geometry class bits+flip, n grains, OmFloat, perturbation); non-trivial = geometry has >= 2 switches on or "
        ">= 2 grains; distinct = (flip, bits, ngrains, omfloat)")


def quiet():
    return contextlib.redirect_stdout(io.StringIO())


def objective_terms(p, sc, fc, om, ubi, t, omfloat):
    """per-peak squared hkl error with the harness geometry model; with omfloat the component of the
    g error along the omega rotation direction (z x g) is removed first"""
    g = np.asarray(geom.forward(p, sc, fc, om, t)["g"], float)
    ubi = np.asarray(ubi, float)
    h = g @ ubi.T
    ih = np.rint(h)
    dg = g - ih @ np.linalg.inv(ubi).T
    if omfloat:
        e = np.cross(np.array([0, 0, 1.0]), g)
        nrm = np.sqrt((e * e).sum(axis=1))
        e = e / np.where(nrm > 0, nrm, 1)[:, None]
        dg = dg - (dg * e).sum(axis=1)[:, None] * e
    d = dg @ ubi.T
    return (d * d).sum(axis=1)


def one_scenario(run, seed, idx, mods, use_script=False):
    refinegrains, columnfile, parameters, grain = mods
    r = rng(seed, "C09", idx)
    bits = int(r.integers(2048)) & ~(0b111 << 6)
    if idx < 8:
        bits = [0, 0b11111, 1 << 5, (1 << 9) | (1 << 10), 0b11000, 0b00111, (1 << 5) | 0b11000, 0b11111 | (1 << 5) | (3 << 9)][idx]
    flip = idx % 8
    p = sim.default_pars(r, flip=flip, bits=bits)
    ng = int([1, 2, 3, 5, 1, 2][idx % 6])
    cell = xtal.random_cell(r, "cubic", 3.6, 4.2)
    B = xtal.Bmat(cell)
    grains = []
    for g in range(ng):
        S = xtal.random_sym_stretch(r, 5e-3)
        UB = xtal.random_rotation(r) @ S @ B
        t = r.uniform(-500, 500, 3)
        t[2] = r.uniform(-150, 150)
        grains.append((UB, t))
    dsm = min(sim.dsmax_on_detector(p), 1.15)
    hk, _ = sim.make_hkls(cell, "F", dsm)
    s = sim.simulate(p, grains, hk)
    if s is None or min(np.bincount(s["gid"], minlength=ng)) < 25:
        run.count("scenarios_skipped_few_peaks")
        return
    n = len(s["sc"])
    omfloat = bool(idx % 2)
    tol = 0.1
    desc = dict(index=idx, flip=flip, bits=bits, ngrains=ng, npeaks=n, omfloat=omfloat, pars=p, cell=cell,
                use_script=use_script)
    nsw = bin(bits).count("1")
    run.case((flip, bits, ng, omfloat, use_script), nontrivial=(nsw >= 2 or ng >= 2),
             sample=dict(index=idx, flip=flip, bits=bits, ngrains=ng, npeaks=n, omfloat=omfloat, use_script=use_script))

    def V(key, what, **kw):
        run.violation(key, what, dict(desc, **kw))

    tmp = tempfile.mkdtemp(prefix="c09_", dir=os.path.join(WORK, "tmp"))
    try:
        flt = os.path.join(tmp, "peaks.flt")
        par = os.path.join(tmp, "geo.par")
        ubi = os.path.join(tmp, "start.ubi")
        out = os.path.join(tmp, "out.map")
        perm = r.permutation(n)
        sc, fc, om, gid, hkl = s["sc"][perm], s["fc"][perm], s["omega"][perm], s["gid"][perm], s["hkl"][perm]
        cf = columnfile.colfile_from_dict({"sc": sc, "fc": fc, "omega": om,
                                           "Number_of_pixels": np.full(n, 10.0), "avg_intensity": np.full(n, 100.0)})
        cf.writefile(flt)
        # what the library will read back (4 decimals): the truth for label/hkl purposes is unchanged
        pp = parameters.parameters(**dict(p, fit_tolerance=0.5))
        pp.saveparameters(par)
        start = []
        for (UB, t) in grains:
            dR = xtal.rot_axis_angle(r.normal(size=3), np.radians(float(r.uniform(0.1, 0.5))))
            g = grain.grain(np.linalg.inv(dR @ UB), translation=t + r.uniform(-50, 50, 3))
            start.append(g)
        grain.write_grain_file(ubi, start)
        # Is the single-pass assignment well posed?  With the *starting* grains every peak must be
        # within tolerance of its generator and of no other grain; otherwise the flow (which fixes
        # labels before refining) cannot be expected to sort it out (DESIGN.md Corrections).
        amb = 0
        e_start = np.array([objective_terms(p, sc, fc, om, g_.ubi, g_.translation, False) for g_ in start])
        for g in range(ng):
            mine = gid == g
            others = np.delete(e_start, g, axis=0)[:, mine] if ng > 1 else np.full((1, int(mine.sum())), 9.0)
            amb += int(((e_start[g, mine] >= 0.9 * tol * tol) | (others.min(axis=0) < 1.1 * tol * tol)).sum())
        if amb:
            run.count("scenarios_ambiguous_at_start")
        if use_script:
            cmd = [PY, os.path.join(REPO, "scripts", "makemap.py"), "-p", par, "-u", ubi, "-U", out, "-f", flt,
                   "-t", str(tol), "--no_sort", "--omega_slop", "0.25"]
            if not omfloat:
                cmd.append("--omega_no_float")
            pr = subprocess.run(cmd, cwd=tmp, stdout=subprocess.PIPE, stderr=subprocess.STDOUT, timeout=600)
            run.count("makemap_script_runs")
            if pr.returncode != 0 or not os.path.exists(out):
                V("makemap:failed", "scripts/makemap.py failed: %s" % pr.stdout.decode(errors="replace")[-400:])
                return
            mem = None
        else:
            with quiet():
                o = refinegrains.refinegrains(tolerance=tol, OmFloat=omfloat, OmSlop=0.25)
                o.loadparameters(par)
                o.loadfiltered(flt)
                o.readubis(ubi)
                o.generate_grains()
                o.refinepositions()
                o.refineubis(quiet=True)
                o.savegrains(out, sort_npks=False)
                o.scandata[flt].writefile(flt + ".new")
            mem = o
        run.count("refinement_flows")
        saved = grain.read_grain_file(out)
        if len(saved) != ng:
            V("saved:grain-count", "saved %d grains, expected %d" % (len(saved), ng))
            return
        new = columnfile.columnfile(flt + ".new")
        lab = np.asarray(new.labels).astype(int)
        # --- labels vs generator (row order of the file is preserved)
        if new.nrows != n:
            V("saved:rows", "peak file rows %d != %d" % (new.nrows, n))
            return
        run.count("peaks_checked", n)
        if not np.array_equal(lab, gid) and amb:
            run.count("mislabelled_in_ambiguous_scenarios", int((lab != gid).sum()))
        elif not np.array_equal(lab, gid):
            k = int(np.nonzero(lab != gid)[0][0])
            V("labels:not-generator", "peak %d simulated from grain %d is labelled %d (%d of %d wrong)"
              % (k, gid[k], lab[k], int((lab != gid).sum()), n), peak=k)
        else:
            h = np.array([new.h, new.k, new.l]).T
            if not np.array_equal(np.round(h).astype(int), hkl):
                k = int(np.nonzero((np.round(h).astype(int) != hkl).any(axis=1))[0][0])
                V("saved:hkl", "peak %d saved hkl %r != simulated %r" % (k, h[k].tolist(), hkl[k].tolist()), peak=k)
        # --- recovered values.  "Within the optimiser's numerical tolerance": the position search is a
        # Nelder-Mead simplex capped at 100 iterations that starts with 0.2um steps and keeps the
        # last *evaluated* point; measured on the unchanged tree over 540 unambiguous grains from
        # starts 50um/0.5deg off: objective excess <= 0.031 (1e6.<drlv2>), translation <= 3.4um,
        # UBI <= 6e-6 relative.  Thorough run (1137 grains): 0.24 / 8.2um / 1.1e-5.  Per-grain caps are set ~3-8x above that
        # and the run is additionally judged on the median/90th percentile (DESIGN.md Corrections);
        # the worst values of every run are written to the evidence.
        okl = np.array_equal(lab, gid)
        for g in range(ng):
            UB_t, t_t = grains[g]
            ubi_t = np.linalg.inv(UB_t)
            got = saved[g]
            eu = np.abs(got.ubi - ubi_t).max() / np.abs(ubi_t).max()
            et = np.abs(np.asarray(got.translation) - t_t).max()
            mine = gid == g
            scr, fcr, omr = np.asarray(new.sc)[mine], np.asarray(new.fc)[mine], np.asarray(new.omega)[mine]
            f_ref = 1e6 * float(objective_terms(p, scr, fcr, omr, got.ubi, got.translation, omfloat).mean())
            f_tru = 1e6 * float(objective_terms(p, scr, fcr, omr, ubi_t, t_t, omfloat).mean())
            run.count("grains_checked")
            if amb or not okl:
                run.count("grains_in_ambiguous_scenarios")
                continue
            run.setmax("worst_ubi_rel_err", float(eu))
            run.setmax("worst_translation_err_um", float(et))
            run.setmax("worst_objective_excess", float(f_ref - f_tru))
            run.count("grains_judged")
            run.extra.setdefault("_terr", []).append(float(et))
            run.extra.setdefault("_uerr", []).append(float(eu))
            run.extra.setdefault("_oexc", []).append(float(f_ref - f_tru))
            if not f_ref <= f_tru + 2.0:
                V("recovered:objective", "grain %d: refined state has gof %.3g, truth %.3g (1e6.<drlv2>), excess > 2; "
                  "ubi rel err %.3g, translation err %.3g um" % (g, f_ref, f_tru, eu, et), grain=g)
            # saved real-valued hkl of this grain's peaks must be (nearly) the integers they were simulated from
            hr = np.array([new.hr, new.kr, new.lr]).T[mine]
            dh = float(np.abs(hr - hkl[mine]).max())
            run.setmax("worst_saved_hkl_real_err", dh)
            if not dh <= 5e-3:
                V("saved:hkl-real", "grain %d: saved hr,kr,lr differ from the simulated integers by %.3g" % (g, dh), grain=g)
            if not eu <= 1e-4:
                V("recovered:ubi", "grain %d UBI relative error %.3g > 1e-4" % (g, eu), grain=g)
            if not et <= 25.0:
                V("recovered:translation", "grain %d translation error %.3g um > 25 (got %r want %r)"
                  % (g, et, list(got.translation), t_t.tolist()), grain=g)
            if mem is not None:
                gm = mem.grains[(g, flt)]
                if np.abs(got.ubi - gm.ubi).max() > 1e-8 * np.abs(gm.ubi).max():
                    V("saved:ubi-precision", "saved UBI differs from in-memory refined value beyond 9 digits", grain=g)
                if np.abs(np.asarray(got.translation) - gm.translation).max() > 1e-5 * max(1.0, np.abs(gm.translation).max()):
                    V("saved:translation-precision", "saved translation differs from in-memory value beyond 6 digits",
                      grain=g)
                if int(got.npks) != int((lab == g).sum()):
                    V("saved:npks", "saved npks %s != labelled peaks %d" % (got.npks, int((lab == g).sum())), grain=g)
    finally:
        shutil.rmtree(tmp, ignore_errors=True)


def check(run, replay=None):
    from ImageD11 import refinegrains, columnfile, parameters, grain
    mods = (refinegrains, columnfile, parameters, grain)
    os.makedirs(os.path.join(WORK, "tmp"), exist_ok=True)
    if replay is not None:
        cs = replay["case"]
        one_scenario(run, replay["seed"], cs["index"], mods, cs.get("use_script", False))
        run.nontrivial.update(["replay", "replay2"])
        return
    n = 36 if run.tier == "quick" else 800
    for i in range(n):
        one_scenario(run, run.seed, i, mods)
    for i in range(2 if run.tier == "quick" else 24):
        one_scenario(run, run.seed, 1000 + i, mods, use_script=True)
    # run-level statistics: the bulk of the grains must be recovered much better than the per-grain caps
    te = np.array(run.extra.pop("_terr", [0.0]))
    ue = np.array(run.extra.pop("_uerr", [0.0]))
    oe = np.array(run.extra.pop("_oexc", [0.0]))
    pct = lambda a: {"median": float(np.median(a)), "p90": float(np.percentile(a, 90)), "max": float(a.max())}
    run.extra["translation_err_um"] = pct(te)
    run.extra["ubi_rel_err"] = pct(ue)
    run.extra["objective_excess"] = pct(oe)
    if len(te) >= 20 and (np.median(te) > 0.75 or np.percentile(te, 90) > 2.0):
        run.violation("recovered:translation-statistics",
                      "translation errors over %d grains: median %.3g um, 90th percentile %.3g um (limits 0.75 / 2; unchanged tree: 0.15 / 0.3)"
                      % (len(te), np.median(te), np.percentile(te, 90)), dict(stats=pct(te)))
    if len(ue) >= 20 and (np.median(ue) > 1e-6 or np.percentile(ue, 90) > 3e-6):
        run.violation("recovered:ubi-statistics",
                      "UBI relative errors over %d grains: median %.3g, 90th percentile %.3g (limits 1e-6 / 3e-6; unchanged tree: 1.5e-7 / 5e-7)"
                      % (len(ue), np.median(ue), np.percentile(ue, 90)), dict(stats=pct(ue)))
    run.require_counter("grains_judged", 20)
    run.require_counter("peaks_checked", 1000)
    run.require_counter("makemap_script_runs", 1)
